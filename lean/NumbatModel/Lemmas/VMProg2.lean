import NumbatModel.Lemmas.VMProg1
/-!
Helper lemmas for C09, part 15: `compileStmt` preserves the static invariant and only grows the state.
-/
namespace NumbatModel.VM
open NumbatModel.Core
variable {ν : Type}

theorem InvS.chunks_cons {I : Interp ν} {s : TopStatic ν} (h : InvS I s) :
    ∃ ch rest, I.chunks = ch :: rest ∧ ch.name = "<main>" ∧ rest.map Chunk.name = s.funs.map (fun c => c.decl.name) := by
  have := h.names
  cases hc : I.chunks with
  | nil => rw [hc] at this; simp at this
  | cons ch rest =>
    rw [hc] at this
    simp only [List.map_cons, List.cons.injEq] at this
    exact ⟨ch, rest, rfl, this.1, this.2⟩

theorem InvS.nchunks {I : Interp ν} {s : TopStatic ν} (h : InvS I s) : I.chunks.length = s.funs.length + 1 := by
  have := congrArg List.length h.names
  simpa using this

/-- the effect of `commitMain` on a state that has a main chunk -/
theorem commitMain_code {I : Interp ν} {ch0 : Chunk} {rest : List Chunk} (hc : I.chunks = ch0 :: rest) (cs : CS ν) :
    (I.commitMain cs).mainCode = cs.code ∧
    (∀ i ch, 0 < i → I.chunks[i]? = some ch → (I.commitMain cs).chunks[i]? = some ch) ∧
    (I.commitMain cs).chunks.length = I.chunks.length ∧
    (I.commitMain cs).chunks = ⟨"<main>", cs.code⟩ :: rest := by
  simp only [Interp.commitMain, Interp.mainCode, hc, List.set_cons_zero, List.head?_cons, Option.map_some,
    Option.getD_some, List.length_cons, true_and, and_true]
  intro i ch hi hch
  cases i with
  | zero => omega
  | succ j => simpa using hch

theorem commitMain_names {I : Interp ν} {s : TopStatic ν} (h : InvS I s) (cs : CS ν) :
    (I.commitMain cs).chunks.map Chunk.name = I.chunks.map Chunk.name := by
  obtain ⟨ch0, rest, hc, hn, _⟩ := h.chunks_cons
  rw [(commitMain_code hc cs).2.2.2, hc]
  simp [hn]

theorem view_code (I : Interp ν) : I.view.code = I.mainCode := rfl

/-- growth for a statement that compiles into the main chunk -/
theorem grow_commitMain {I : Interp ν} {ch0 : Chunk} {rest : List Chunk} (hc : I.chunks = ch0 :: rest) {cs : CS ν}
    (g : Good I.view cs) (locals' : List (List Name)) (hl : I.locals0 <+: locals') :
    Grow I { I.commitMain cs with locals0 := locals' } := by
  obtain ⟨hm, hch, hlen, _⟩ := commitMain_code hc cs
  refine ⟨hch, by rw [← hlen]; exact Nat.le_refl _, ?_, ?_, ?_, List.prefix_refl _, List.prefix_refl _, hl⟩
  · show I.mainCode.length ≤ (I.commitMain cs).mainCode.length
    rw [hm]; exact g.len
  · intro hlt
    show I.mainCode <+: (I.commitMain cs).mainCode
    rw [hm]
    have hlt' : (I.commitMain cs).mainCode.length < 65536 := hlt
    rw [hm] at hlt'
    obtain ⟨frag, hf⟩ := g.pre hlt'
    exact ⟨frag, hf.symm⟩
  · obtain ⟨k, hk⟩ := g.consts
    exact ⟨k, hk.symm⟩

theorem fnsOK_same_table {I I' : Interp ν} {s s' : TopStatic ν} (h : InvS I s) (hg : Grow I I')
    (hfuns : s'.funs = s.funs) (hffi : s.ffi <+: s'.ffi) (hst : s.structs <+: s'.structs)
    (hgn : s.gnames <+: s'.gnames) : FnsOK I'.chunks I'.constants (tableOf s') s'.gnames := by
  intro i c hc
  have hc' : (tableOf s).funs[i]? = some c := by simpa [tableOf, hfuns] using hc
  exact FnsOK.mono (T' := tableOf s') h.fns hg.chunk hg.consts hgn hffi hst hc'
    (by simp [tableOf, hfuns])

/-- statements that compile into the main chunk: the static invariant is kept -/
theorem inv_commitMain {I : Interp ν} {s s' : TopStatic ν} (h : InvS I s) {cs : CS ν} (g : Good I.view cs)
    (locals' : List (List Name)) (hl : I.locals0 <+: locals')
    (hgn : s'.gnames = locals') (hfn : s'.fnNames = s.fnNames) (hfuns : s'.funs = s.funs)
    (hffi : s'.ffi = s.ffi) (hst : s'.structs = s.structs) :
    InvS { I.commitMain cs with locals0 := locals' } s' := by
  obtain ⟨ch0, rest, hchunks, _, _⟩ := h.chunks_cons
  have hg := grow_commitMain hchunks g locals' hl
  have hnames := commitMain_names h cs
  refine ⟨hgn.symm, ?_, ?_, ?_, ?_, ?_, ?_⟩
  · show I.functions = s'.fnNames
    rw [hfn]; exact h.functions
  · show I.ffiNames = s'.ffi
    rw [hffi]; exact h.ffi
  · show I.structInfos = s'.structs
    rw [hst]; exact h.structs
  · show (I.commitMain cs).chunks.map Chunk.name = _
    rw [hnames, hfuns]; exact h.names
  · rw [hfuns]; exact h.notMain
  · exact fnsOK_same_table h hg hfuns (by rw [hffi]; exact List.prefix_refl _) (by rw [hst]; exact List.prefix_refl _)
      (by rw [hgn, ← h.locals]; exact hl)

theorem compileFnBody_good {d : FunDecl ν} {cs0 cs1 : CS ν} (h : compileFnBody d cs0 = .ok cs1) :
    GoodDefs cs0 cs1 (d.wheres.map Def.names) := by
  simp only [compileFnBody, Res.bind_eq_ok] at h
  obtain ⟨csW, hW, csB, hB, hR⟩ := h
  injection hR with hR; subst hR
  have gW := compileDefs_good d.wheres cs0 csW hW
  have gB := (compileExpr_good d.body csW csB hB).trans (good_emit csB .return_ [])
  refine ⟨Nat.le_trans gW.len gB.len, ?_, ?_, ?_, ?_, ?_, ?_, ?_, ?_⟩
  · obtain ⟨k1, e1⟩ := gW.consts; obtain ⟨k2, e2⟩ := gB.consts
    exact ⟨k1 ++ k2, by rw [e2, e1]; simp⟩
  · rw [gB.scopeCur, gW.scopeCur]
  · rw [gB.scopeGlob, gW.scopeGlob]
  · rw [gB.functions, gW.functions]
  · rw [gB.chunkNames, gW.chunkNames]
  · rw [gB.ffiNames, gW.ffiNames]
  · rw [gB.structNames, gW.structNames]
  · intro hlt
    obtain ⟨f2, e2⟩ := gB.pre hlt
    obtain ⟨f1, e1⟩ := gW.pre (Nat.lt_of_le_of_lt gB.len hlt)
    exact ⟨f1 ++ f2, by rw [e2, e1]; simp⟩

theorem grow_addFn {I : Interp ν} (ch : Chunk) (consts : List (Constant ν)) (n : Nat) (fns : List (Name × Bool))
    {ch0 : Chunk} {rest : List Chunk} (hchunks : I.chunks = ch0 :: rest) (hc : I.constants <+: consts) :
    Grow I { I with chunks := I.chunks ++ [ch], constants := consts, nCallArgs := n, functions := fns } := by
  refine ⟨?_, by simp, ?_, ?_, hc, List.prefix_refl _, List.prefix_refl _, List.prefix_refl _⟩
  · intro i c _ hch
    show (I.chunks ++ [_])[i]? = some c
    rw [List.getElem?_append_left (List.getElem?_eq_some_iff.mp hch).1]; exact hch
  · simp [Interp.mainCode, hchunks]
  · intro _; simp [Interp.mainCode, hchunks]

/-- a procedure call compiles into the main chunk: arguments, then `FFICallProcedure` -/
theorem proc_shape {I I' : Interp ν} {kind : ProcKind} {args : List (Expr ν)} (hk : kind ≠ .type)
    (hc : compileStmt I (.proc kind args) = .ok I') :
    ∃ cs cs2 idx a, compileList args I.view = .ok cs ∧ idxOf? (ProcKind.name kind) cs.ffiNames = some idx ∧
      cs.addCallArgs = .ok (cs2, a) ∧
      I' = I.commitMain (cs2.emit .ffiCallProcedure [idx, args.length, a]) := by
  cases kind with
  | type => exact absurd rfl hk
  | print =>
    simp only [compileStmt, Res.bind_eq_ok] at hc
    obtain ⟨cs, h1, h2⟩ := hc
    cases hidx : idxOf? (ProcKind.name .print) cs.ffiNames with
    | none => simp [hidx] at h2
    | some idx =>
      simp only [hidx, Res.bind_eq_ok] at h2
      obtain ⟨⟨cs2, a⟩, h3, h4⟩ := h2
      injection h4 with h4
      exact ⟨cs, cs2, idx, a, h1, hidx, h3, h4.symm⟩
  | assert =>
    simp only [compileStmt, Res.bind_eq_ok] at hc
    obtain ⟨cs, h1, h2⟩ := hc
    cases hidx : idxOf? (ProcKind.name .assert) cs.ffiNames with
    | none => simp [hidx] at h2
    | some idx =>
      simp only [hidx, Res.bind_eq_ok] at h2
      obtain ⟨⟨cs2, a⟩, h3, h4⟩ := h2
      injection h4 with h4
      exact ⟨cs, cs2, idx, a, h1, hidx, h3, h4.symm⟩
  | assertEq =>
    simp only [compileStmt, Res.bind_eq_ok] at hc
    obtain ⟨cs, h1, h2⟩ := hc
    cases hidx : idxOf? (ProcKind.name .assertEq) cs.ffiNames with
    | none => simp [hidx] at h2
    | some idx =>
      simp only [hidx, Res.bind_eq_ok] at h2
      obtain ⟨⟨cs2, a⟩, h3, h4⟩ := h2
      injection h4 with h4
      exact ⟨cs, cs2, idx, a, h1, hidx, h3, h4.symm⟩

theorem proc_good {I I' : Interp ν} {kind : ProcKind} {args : List (Expr ν)} (hk : kind ≠ .type)
    (hc : compileStmt I (.proc kind args) = .ok I') : ∃ cs', Good I.view cs' ∧ I' = I.commitMain cs' := by
  obtain ⟨cs, cs2, idx, a, h1, _, h3, rfl⟩ := proc_shape hk hc
  exact ⟨_, ((compileList_good args I.view cs h1).trans (good_addCallArgs h3)).trans (good_emit cs2 _ _), rfl⟩

/-- **one statement**: the compiler keeps the static invariant (with what `declare` records) and only grows the
    interpreter state -/
theorem compileStmt_inv {I I' : Interp ν} {s : TopStatic ν} (h : InvS I s) (stmt : Stmt ν)
    (hc : compileStmt I stmt = .ok I') (hfit : fitsStmt stmt) (hsz : Sizes I') :
    InvS I' (declare s stmt) ∧ Grow I I' := by
  cases stmt with
  | expr e =>
    simp only [compileStmt, Res.bind_eq_ok] at hc
    obtain ⟨cs, h1, h2⟩ := hc
    injection h2 with h2; subst h2
    have g := (compileExpr_good e I.view cs h1).trans (good_emit cs .return_ [])
    have hi := inv_commitMain (s' := declare s (.expr e)) h g I.locals0 (List.prefix_refl _) h.locals.symm rfl rfl rfl rfl
    have hg := grow_commitMain h.chunks_cons.choose_spec.choose_spec.1 g I.locals0 (List.prefix_refl _)
    exact ⟨hi, hg⟩
  | letv d =>
    simp only [compileStmt, Res.bind_eq_ok] at hc
    obtain ⟨cs, h1, h2⟩ := hc
    injection h2 with h2; subst h2
    have g := compileExpr_good d.expr I.view cs h1
    have hi := inv_commitMain (s' := declare s (.letv d)) h g (I.locals0 ++ [d.names]) (List.prefix_append _ _)
      (by simp [declare, h.locals]) rfl rfl rfl rfl
    have hg := grow_commitMain h.chunks_cons.choose_spec.choose_spec.1 g (I.locals0 ++ [d.names]) (List.prefix_append _ _)
    exact ⟨hi, hg⟩
  | dim =>
    simp only [compileStmt] at hc
    injection hc with hc; subst hc
    exact ⟨h, Grow.refl _⟩
  | unsupported w => simp [compileStmt] at hc
  | ffn name k =>
    simp only [compileStmt] at hc
    injection hc with hc; subst hc
    have hg : Grow I { I with ffiNames := insertNew id name I.ffiNames, functions := I.functions ++ [(name, true)] } :=
      ⟨fun _ _ _ h => h, Nat.le_refl _, Nat.le_refl _, fun _ => List.prefix_refl _, List.prefix_refl _,
       insertNew_prefix _ _ _, List.prefix_refl _, List.prefix_refl _⟩
    refine ⟨⟨h.locals, ?_, ?_, h.structs, h.names, h.notMain, ?_⟩, hg⟩
    · simp [declare, h.functions]
    · simp [declare, h.ffi]
    · exact fnsOK_same_table (s' := declare s (.ffn name k)) h hg rfl
        (by simp only [declare]; exact insertNew_prefix _ _ _) (List.prefix_refl _) (List.prefix_refl _)
  | structDef info =>
    simp only [compileStmt] at hc
    injection hc with hc; subst hc
    have hg : Grow I { I with structInfos := insertNew StructInfo.name info I.structInfos } :=
      ⟨fun _ _ _ h => h, Nat.le_refl _, Nat.le_refl _, fun _ => List.prefix_refl _, List.prefix_refl _,
       List.prefix_refl _, insertNew_prefix _ _ _, List.prefix_refl _⟩
    refine ⟨⟨h.locals, h.functions, h.ffi, ?_, h.names, h.notMain, ?_⟩, hg⟩
    · simp [declare, h.structs]
    · exact fnsOK_same_table (s' := declare s (.structDef info)) h hg rfl (List.prefix_refl _)
        (by simp only [declare]; exact insertNew_prefix _ _ _) (List.prefix_refl _)
  | proc kind args =>
    cases kind with
    | type => simp [compileStmt] at hc
    | print =>
      obtain ⟨cs', g, rfl⟩ := proc_good (I := I) (kind := .print) (by decide) hc
      exact ⟨inv_commitMain (s' := declare s (.proc .print args)) h g I.locals0 (List.prefix_refl _)
        h.locals.symm rfl rfl rfl rfl, grow_commitMain h.chunks_cons.choose_spec.choose_spec.1 g I.locals0 (List.prefix_refl _)⟩
    | assert =>
      obtain ⟨cs', g, rfl⟩ := proc_good (I := I) (kind := .assert) (by decide) hc
      exact ⟨inv_commitMain (s' := declare s (.proc .assert args)) h g I.locals0 (List.prefix_refl _)
        h.locals.symm rfl rfl rfl rfl, grow_commitMain h.chunks_cons.choose_spec.choose_spec.1 g I.locals0 (List.prefix_refl _)⟩
    | assertEq =>
      obtain ⟨cs', g, rfl⟩ := proc_good (I := I) (kind := .assertEq) (by decide) hc
      exact ⟨inv_commitMain (s' := declare s (.proc .assertEq args)) h g I.locals0 (List.prefix_refl _)
        h.locals.symm rfl rfl rfl rfl, grow_commitMain h.chunks_cons.choose_spec.choose_spec.1 g I.locals0 (List.prefix_refl _)⟩
  | fn d =>
    simp only [compileStmt, Res.bind_eq_ok] at hc
    obtain ⟨cs, h1, h2⟩ := hc
    injection h2 with h2; subst h2
    obtain ⟨hfb, hfw, hplen, hname⟩ := hfit
    have gd := compileFnBody_good h1
    obtain ⟨ch0, rest, hchunks, hn0, _⟩ := h.chunks_cons
    have hnch := h.nchunks
    have hg := grow_addFn (I := I) (Chunk.mk d.name cs.code) cs.constants cs.nCallArgs
      (I.functions ++ [(d.name, false)]) hchunks (by obtain ⟨k, hk⟩ := gd.consts; exact ⟨k, hk.symm⟩)
    refine ⟨⟨h.locals, ?_, h.ffi, h.structs, ?_, ?_, ?_⟩, hg⟩
    · simp [declare, h.functions]
    · show (I.chunks ++ [_]).map Chunk.name = _
      simp [declare, h.names]
    · intro c hc
      simp only [declare, List.mem_append, List.mem_singleton] at hc
      rcases hc with hc | rfl
      · exact h.notMain c hc
      · exact hname
    · intro i c hc
      simp only [tableOf, declare] at hc
      by_cases hi : i < s.funs.length
      · rw [List.getElem?_append_left hi] at hc
        exact FnsOK.mono (T' := tableOf (declare s (.fn d))) h.fns hg.chunk hg.consts (List.prefix_refl _)
          (List.prefix_refl _) (List.prefix_refl _) (by simpa [tableOf] using hc)
          (by simp only [tableOf, declare]; exact List.prefix_append _ _)
      · by_cases hi2 : i = s.funs.length
        · subst hi2
          simp at hc; subst hc
          refine ⟨rfl, rfl, List.prefix_refl _, List.prefix_refl _, _, cs, ⟨rfl, rfl, h.locals, by show I.functions ++ _ = s.fnNames ++ _; rw [h.functions], h.ffi, ?_, ?_⟩,
            h1, ?_, List.prefix_refl _, ?_, ?_, ?_, hfb, hfw⟩
          · show I.chunks.map Chunk.name ++ [d.name] = _
            simp only [tableOf, declare, h.names]
            rw [List.take_of_length_le (by simp)]
            simp
          · show I.structInfos.map StructInfo.name <+: _
            simp only [tableOf, declare, h.structs]; exact List.prefix_refl _
          · show (I.chunks ++ [_])[s.funs.length + 1]? = _
            rw [← hnch]; simp
          · exact hsz.fnCode (Chunk.mk d.name cs.code) (by simp)
          · rw [gd.scopeCur]; simp; omega
          · show I.locals0.length < 65536
            exact hsz.locals
        · rw [List.getElem?_eq_none (by simp; omega)] at hc; cases hc

/-- growth alone needs no invariant (only a main chunk) -/
theorem compileStmt_grow {I I' : Interp ν} {ch0 : Chunk} {rest : List Chunk} (hch : I.chunks = ch0 :: rest)
    (stmt : Stmt ν) (hc : compileStmt I stmt = .ok I') :
    Grow I I' ∧ ∃ ch0' rest', I'.chunks = ch0' :: rest' := by
  have hcm : ∀ (cs : CS ν) (l : List (List Name)),
      ∃ ch0' rest', ({ I.commitMain cs with locals0 := l } : Interp ν).chunks = ch0' :: rest' :=
    fun cs l => ⟨_, _, (commitMain_code hch cs).2.2.2⟩
  cases stmt with
  | expr e =>
    simp only [compileStmt, Res.bind_eq_ok] at hc
    obtain ⟨cs, h1, h2⟩ := hc
    injection h2 with h2; subst h2
    exact ⟨grow_commitMain hch ((compileExpr_good e I.view cs h1).trans (good_emit cs .return_ [])) I.locals0
      (List.prefix_refl _), hcm _ I.locals0⟩
  | letv d =>
    simp only [compileStmt, Res.bind_eq_ok] at hc
    obtain ⟨cs, h1, h2⟩ := hc
    injection h2 with h2; subst h2
    exact ⟨grow_commitMain hch (compileExpr_good d.expr I.view cs h1) _ (List.prefix_append _ _), hcm _ _⟩
  | dim =>
    simp only [compileStmt] at hc
    injection hc with hc; subst hc
    exact ⟨Grow.refl _, _, _, hch⟩
  | unsupported w => simp [compileStmt] at hc
  | ffn name k =>
    simp only [compileStmt] at hc
    injection hc with hc; subst hc
    exact ⟨⟨fun _ _ _ h => h, Nat.le_refl _, Nat.le_refl _, fun _ => List.prefix_refl _, List.prefix_refl _,
       insertNew_prefix _ _ _, List.prefix_refl _, List.prefix_refl _⟩, _, _, hch⟩
  | structDef info =>
    simp only [compileStmt] at hc
    injection hc with hc; subst hc
    exact ⟨⟨fun _ _ _ h => h, Nat.le_refl _, Nat.le_refl _, fun _ => List.prefix_refl _, List.prefix_refl _,
       List.prefix_refl _, insertNew_prefix _ _ _, List.prefix_refl _⟩, _, _, hch⟩
  | proc kind args =>
    by_cases hk : kind = .type
    · subst hk; simp [compileStmt] at hc
    · obtain ⟨cs', g, rfl⟩ := proc_good hk hc
      exact ⟨grow_commitMain hch g I.locals0 (List.prefix_refl _), hcm _ I.locals0⟩
  | fn d =>
    simp only [compileStmt, Res.bind_eq_ok] at hc
    obtain ⟨cs, h1, h2⟩ := hc
    injection h2 with h2; subst h2
    have gd := compileFnBody_good h1
    exact ⟨grow_addFn (I := I) (Chunk.mk d.name cs.code) cs.constants cs.nCallArgs
      (I.functions ++ [(d.name, false)]) hch (by obtain ⟨k, hk⟩ := gd.consts; exact ⟨k, hk.symm⟩),
      ch0, rest ++ [Chunk.mk d.name cs.code], by simp [hch]⟩

theorem compileStmts_grow : ∀ (stmts : List (Stmt ν)) {I I' : Interp ν} {ch0 : Chunk} {rest : List Chunk},
    I.chunks = ch0 :: rest → compileStmts I stmts = .ok I' → Grow I I'
  | [], I, I', _, _, _, hc => by simp only [compileStmts] at hc; injection hc with hc; subst hc; exact Grow.refl _
  | s :: ss, I, I', _, _, hch, hc => by
    simp only [compileStmts, Res.bind_eq_ok] at hc
    obtain ⟨I1, h1, h2⟩ := hc
    obtain ⟨g1, ch0', rest', hch'⟩ := compileStmt_grow hch s h1
    exact g1.trans (compileStmts_grow ss hch' h2)

theorem Sizes.of_grow {I I' : Interp ν} {ch0 : Chunk} {rest : List Chunk} (hch : I.chunks = ch0 :: rest)
    (hg : Grow I I') (hs : Sizes I') : Sizes I := by
  refine ⟨Nat.lt_of_le_of_lt hg.mainLen hs.main, ?_, Nat.lt_of_le_of_lt hg.nchunks hs.chunks, ?_, ?_, ?_⟩
  · exact Nat.lt_of_le_of_lt hg.locals.length_le hs.locals
  · exact Nat.lt_of_le_of_lt hg.ffi.length_le hs.ffi
  · exact Nat.lt_of_le_of_lt hg.structs.length_le hs.structs
  · intro ch hmem
    obtain ⟨i, hi⟩ := List.getElem?_of_mem hmem
    cases i with
    | zero =>
      rw [hch] at hi; simp at hi; subst hi
      have : I.mainCode = ch0.code := by simp [Interp.mainCode, hch]
      rw [← this]; exact Nat.lt_of_le_of_lt hg.mainLen hs.main
    | succ j =>
      exact hs.fnCode ch (List.mem_of_getElem? (hg.chunk _ ch (by omega) hi))

/-- **all statements of an input**: after compiling them the interpreter state agrees with everything they declare -/
theorem compileStmts_inv : ∀ (stmts : List (Stmt ν)) {I I' : Interp ν} {s : TopStatic ν}, InvS I s →
    compileStmts I stmts = .ok I' → (∀ st ∈ stmts, fitsStmt st) → Sizes I' →
    InvS I' (stmts.foldl declare s) ∧ Grow I I'
  | [], I, I', s, h, hc, _, _ => by
    simp only [compileStmts] at hc; injection hc with hc; subst hc; exact ⟨h, Grow.refl _⟩
  | st :: ss, I, I', s, h, hc, hfit, hsz => by
    simp only [compileStmts, Res.bind_eq_ok] at hc
    obtain ⟨I1, h1, h2⟩ := hc
    obtain ⟨ch0, rest, hch, _, _⟩ := h.chunks_cons
    obtain ⟨_, ch0', rest', hch'⟩ := compileStmt_grow hch st h1
    have hsz1 : Sizes I1 := Sizes.of_grow hch' (compileStmts_grow ss hch' h2) hsz
    obtain ⟨hi1, hg1⟩ := compileStmt_inv h st h1 (hfit st (by simp)) hsz1
    obtain ⟨hi2, hg2⟩ := compileStmts_inv ss hi1 h2 (fun x hx => hfit x (by simp [hx])) hsz
    exact ⟨hi2, hg1.trans hg2⟩

end NumbatModel.VM
