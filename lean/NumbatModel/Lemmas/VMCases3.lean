import NumbatModel.Lemmas.VMCases2
/-!
Helper lemmas for C09, part 8: strings with interpolation (`JoinString`).
-/
namespace NumbatModel.VM
open NumbatModel.Core
variable {ν : Type}

/-- what the evaluated parts of a string look like on the machine stack: a fixed part is one entry, an
    interpolation is the value followed by its format specifiers -/
def partStack : Value ν × Option (Option String) → List (Value ν)
  | (v, none) => [v]
  | (v, some fmt) => [v, .fmtspec fmt]

def partsStack : List (Value ν × Option (Option String)) → List (Value ν)
  | [] => []
  | p :: ps => partStack p ++ partsStack ps

/-- the parts without format specifiers are strings (they come from fixed parts) -/
def FixedStr (pvs : List (Value ν × Option (Option String))) : Prop :=
  ∀ p ∈ pvs, p.2 = none → ∃ t, p.1 = .str t

theorem joinLoop_one (S : Sem ν) (a : Nat) (s : List (Value ν)) (acc : String)
    (p : Value ν × Option (Option String)) (hp : p.2 = none → ∃ t, p.1 = .str t) :
    (∀ t, partText S p = .ok t → joinLoop S (a + 1) (s ++ partStack p) acc = joinLoop S a s (t ++ acc)) ∧
    (∀ e, partText S p = .err e → joinLoop S (a + 1) (s ++ partStack p) acc = .err e) := by
  obtain ⟨v, fmt⟩ := p
  cases fmt with
  | none =>
    obtain ⟨t0, ht0⟩ := hp rfl
    simp only at ht0; subst ht0
    simp [partText, partStack, joinLoop, pop, Value.toStr]
  | some fmt =>
    cases fmt with
    | none =>
      have hs : s ++ partStack (v, some none) = (s ++ [v]) ++ [.fmtspec none] := by simp [partStack]
      rw [hs]
      cases hts : Value.toStr S v with
      | some t0 => simp [partText, joinLoop, pop, hts]
      | none => simp [partText, joinLoop, pop, hts]
    | some spec =>
      have hs : s ++ partStack (v, some (some spec)) = (s ++ [v]) ++ [.fmtspec (some spec)] := by simp [partStack]
      rw [hs]
      cases hf : S.fmtSpec spec v with
      | ok t0 => simp [partText, joinLoop, pop, hf, Res.ofExcept]
      | error e0 => simp [partText, joinLoop, pop, hf, Res.ofExcept]

theorem joinLoop_parts (S : Sem ν) : ∀ (pvs : List (Value ν × Option (Option String))) (a : Nat)
    (s : List (Value ν)) (acc : String), FixedStr pvs →
    (∀ rest, joinParts S pvs = .ok rest →
      joinLoop S (a + pvs.length) (s ++ partsStack pvs) acc = joinLoop S a s (rest ++ acc)) ∧
    (∀ e, joinParts S pvs = .err e → joinLoop S (a + pvs.length) (s ++ partsStack pvs) acc = .err e)
  | [], a, s, acc, _ => by simp [joinParts, partsStack]
  | p :: ps, a, s, acc, hfx => by
    have ih := joinLoop_parts S ps (a + 1) (s ++ partStack p) acc (fun q hq => hfx q (by simp [hq]))
    have h1 := fun acc' => joinLoop_one S a s acc' p (hfx p (by simp))
    have hlen : a + (p :: ps).length = a + 1 + ps.length := by simp; omega
    have hst : s ++ partsStack (p :: ps) = s ++ partStack p ++ partsStack ps := by simp [partsStack]
    rw [hlen, hst]
    refine ⟨?_, ?_⟩
    · intro rest hr
      simp only [joinParts, Res.bind_eq_ok] at hr
      obtain ⟨r0, hr0, t, ht, hr⟩ := hr
      injection hr with hr; subst hr
      rw [ih.1 r0 hr0, (h1 _).1 t ht, String.append_assoc]
    · intro e he
      simp only [joinParts, Res.bind_eq_err] at he
      rcases he with he | ⟨r0, hr0, he⟩
      · exact ih.2 e he
      · rcases he with he | ⟨t, _, he⟩
        · rw [ih.1 r0 hr0, (h1 _).2 e he]
        · cases he

theorem parts_ok {S : Sem ν} {P : Prog ν} {T : Table ν} {G : List (List Name)} {n : Nat}
    (ih : ExprOK S P T G n) : ∀ (ps : List (Part ν)) (ρ : Env ν) (cs cs' : CS ν) (frag : List UInt8)
    (m : Machine ν) (f : Frame) (fs : List Frame),
    compileParts ps cs = .ok cs' → cs'.code = cs.code ++ frag → cs'.code.length < 65536 → fitsP ps = true →
    Ctx T G ρ cs → Pos P m f fs frag → cs'.constants <+: P.constants →
    Layout ρ f.fp m.stack → m.last = ρ.last →
    (∀ pvs, evalParts (eval S T n ρ) ps = .ok pvs →
      Runs S P m (m.at f fs (f.ip + frag.length) (m.stack ++ partsStack pvs)) ∧ FixedStr pvs ∧
        pvs.length = ps.length) ∧
    (∀ err, evalParts (eval S T n ρ) ps = .err err → Fails S P m err) := by
  intro ps
  induction ps with
  | nil =>
    intro ρ cs cs' frag m f fs hcomp hcode hlt hfit hctx hpos hconst hlay hlast
    simp only [compileParts] at hcomp
    injection hcomp with hcomp; subst hcomp
    have : frag = [] := by
      have := congrArg List.length hcode; simp at this; exact this
    subst this
    refine ⟨?_, ?_⟩
    · intro pvs hv
      simp [evalParts] at hv; subst hv
      refine ⟨?_, ?_, rfl⟩
      · simpa [partsStack, Machine.at_self m f fs hpos.frames] using Runs.refl S P m
      · intro p hp; simp at hp
    · intro err he; simp [evalParts] at he
  | cons p ps ihl =>
    intro ρ cs cs' frag m f fs hcomp hcode hlt hfit hctx hpos hconst hlay hlast
    cases p with
    | fixed str =>
      simp only [compileParts, Res.bind_eq_ok] at hcomp
      obtain ⟨cs1, h1, h2⟩ := hcomp
      simp only [fitsP] at hfit
      have g1 := good_loadConst h1
      have g2 := compileParts_good ps cs1 cs' h2
      have hl1 : cs1.code.length < 65536 := Nat.lt_of_le_of_lt g2.len hlt
      obtain ⟨f1, e1⟩ := g1.pre hl1
      obtain ⟨f2, e2⟩ := g2.pre hlt
      have hfrag : frag = f1 ++ f2 := by
        rw [e2, e1, List.append_assoc] at hcode
        exact (List.append_cancel_left hcode).symm
      subst hfrag
      have r1 : Runs S P m (m.at f fs (f.ip + f1.length) (m.stack ++ [(Value.str str : Value ν)])) :=
        loadConst_ok (c := .string str) h1 e1 hpos.left (g2.consts_prefix hconst)
      have iht := ihl ρ cs1 cs' f2 (m.at f fs (f.ip + f1.length) (m.stack ++ [(Value.str str : Value ν)]))
        { f with ip := f.ip + f1.length } fs h2 e2 hlt hfit (hctx.good g1)
        (hpos.next (a := f1) (m.stack ++ [(Value.str str : Value ν)])) hconst (hlay.push [(Value.str str : Value ν)]) hlast
      refine ⟨?_, ?_⟩
      · intro pvs hv
        simp only [evalParts, Res.bind_eq_ok] at hv
        obtain ⟨vs', hvs, hv⟩ := hv
        injection hv with hv; subst hv
        obtain ⟨r2, hfx, hlen⟩ := iht.1 vs' hvs
        refine ⟨?_, ?_, by simp [hlen]⟩
        · simpa [partsStack, partStack, Nat.add_assoc] using r1.trans r2
        · intro q hq hn
          simp only [List.mem_cons] at hq
          rcases hq with rfl | hq
          · exact ⟨str, rfl⟩
          · exact hfx q hq hn
      · intro err he
        simp only [evalParts, Res.bind_eq_err] at he
        rcases he with he | ⟨vs', _, he⟩
        · exact r1.fails (iht.2 err he)
        · cases he
    | interp fmt e =>
      simp only [compileParts, Res.bind_eq_ok] at hcomp
      obtain ⟨cs1, h1, cs2, h2, h3⟩ := hcomp
      simp only [fitsP, Bool.and_eq_true] at hfit
      have g1 := compileExpr_good e cs cs1 h1
      have g2 := good_loadConst h2
      have g3 := compileParts_good ps cs2 cs' h3
      have hl2 : cs2.code.length < 65536 := Nat.lt_of_le_of_lt g3.len hlt
      have hl1 : cs1.code.length < 65536 := Nat.lt_of_le_of_lt g2.len hl2
      obtain ⟨f1, e1⟩ := g1.pre hl1
      obtain ⟨f2, e2⟩ := g2.pre hl2
      obtain ⟨f3, e3⟩ := g3.pre hlt
      have hfrag : frag = f1 ++ (f2 ++ f3) := by
        rw [e3, e2, e1] at hcode
        simp only [List.append_assoc] at hcode
        exact (List.append_cancel_left hcode).symm
      subst hfrag
      have ihe := ih e ρ cs cs1 f1 m f fs h1 e1 hl1 hfit.1 hctx hpos.left
        (g2.consts_prefix (g3.consts_prefix hconst)) hlay hlast
      have p1 := fun a => hpos.next (a := f1) (m.stack ++ [a])
      have r2 : ∀ a, Runs S P (m.at f fs (f.ip + f1.length) (m.stack ++ [a]))
          ((m.at f fs (f.ip + f1.length) (m.stack ++ [a])).at { f with ip := f.ip + f1.length } fs
            (f.ip + f1.length + f2.length) (m.stack ++ [a] ++ [(Value.fmtspec fmt : Value ν)])) := fun a =>
        loadConst_ok (c := .fmtspec fmt) h2 e2 (p1 a).left (g3.consts_prefix hconst)
      have iht := fun a => ihl ρ cs2 cs' f3
        (m.at f fs (f.ip + f1.length + f2.length) (m.stack ++ [a] ++ [(Value.fmtspec fmt : Value ν)]))
        { f with ip := f.ip + f1.length + f2.length } fs h3 e3 hlt hfit.2 (hctx.good (g1.trans g2))
        ((p1 a).next (a := f2) (m.stack ++ [a] ++ [(Value.fmtspec fmt : Value ν)])) hconst
        ((hlay.push [a]).push [(Value.fmtspec fmt : Value ν)]) hlast
      refine ⟨?_, ?_⟩
      · intro pvs hv
        simp only [evalParts, Res.bind_eq_ok] at hv
        obtain ⟨a, ha, vs', hvs, hv⟩ := hv
        injection hv with hv; subst hv
        obtain ⟨r3, hfx, hlen⟩ := (iht a).1 vs' hvs
        refine ⟨?_, ?_, by simp [hlen]⟩
        · have := (ihe.1 a ha).trans ((r2 a).trans r3)
          simpa [partsStack, partStack, Nat.add_assoc] using this
        · intro q hq hn
          simp only [List.mem_cons] at hq
          rcases hq with rfl | hq
          · cases hn
          · exact hfx q hq hn
      · intro err he
        simp only [evalParts, Res.bind_eq_err] at he
        rcases he with he | ⟨a, ha, he⟩
        · exact ihe.2 err he
        · rcases he with he | ⟨vs', _, he⟩
          · exact (ihe.1 a ha).fails ((r2 a).fails ((iht a).2 err he))
          · cases he

theorem step_joinString_ok {S : Sem ν} {P : Prog ν} {m : Machine ν} {f : Frame} {fs : List Frame} {n : Nat}
    {s : List (Value ν)} {str : String}
    (hp : Pos P m f fs (encode .joinString [n])) (hn : n < 65536)
    (hj : joinLoop S n m.stack "" = .ok (s, str)) :
    step S P m = .next (m.at f fs (f.ip + 3) (s ++ [.str str])) := by
  rw [exec_step hp rfl (by simpa using hn)]
  simp [exec, hj, Machine.at, Op.numOperands]

theorem step_joinString_err {S : Sem ν} {P : Prog ν} {m : Machine ν} {f : Frame} {fs : List Frame} {n : Nat}
    {e : Err} (hp : Pos P m f fs (encode .joinString [n])) (hn : n < 65536)
    (hj : joinLoop S n m.stack "" = .err e) :
    step S P m = .err e := by
  rw [exec_step hp rfl (by simpa using hn)]
  simp [exec, hj]

theorem case_str {S : Sem ν} {P : Prog ν} {T : Table ν} {G : List (List Name)} {n : Nat}
    (ih : ExprOK S P T G n) (parts : List (Part ν)) : ExprOKAt S P T G (n + 1) (.str parts) := by
  intro ρ cs cs' frag m f fs hcomp hcode hlt hfit hctx hpos hconst hlay hlast
  simp only [compileExpr, Res.bind_eq_ok] at hcomp
  obtain ⟨cs1, h1, h2⟩ := hcomp
  injection h2 with h2; subst h2
  simp only [fitsE, Bool.and_eq_true, decide_eq_true_eq] at hfit
  have g1 := compileParts_good parts cs cs1 h1
  have hl1 : cs1.code.length < 65536 := by
    have : (cs1.emit .joinString [parts.length]).code.length = cs1.code.length + 3 := by simp [encode_length]
    omega
  obtain ⟨f1, e1⟩ := g1.pre hl1
  have hfrag : frag = f1 ++ encode .joinString [parts.length] := by
    rw [CS.emit_code, e1, List.append_assoc] at hcode
    exact (List.append_cancel_left hcode).symm
  subst hfrag
  have ihp := parts_ok ih parts ρ cs cs1 f1 m f fs h1 e1 hl1 hfit.2 hctx hpos.left hconst hlay hlast
  refine ⟨?_, ?_⟩
  · intro v hv
    simp only [eval, Res.bind_eq_ok] at hv
    obtain ⟨pvs, hpvs, str, hstr, hv⟩ := hv
    injection hv with hv; subst hv
    obtain ⟨r1, hfx, hlen⟩ := ihp.1 pvs hpvs
    have hj : joinLoop S parts.length (m.stack ++ partsStack pvs) "" = .ok (m.stack, str) := by
      have := (joinLoop_parts S pvs 0 m.stack "" hfx).1 str hstr
      rw [← hlen]
      simpa [joinLoop] using this
    have r2 := Runs.step (step_joinString_ok (S := S) (hpos.next (a := f1) (m.stack ++ partsStack pvs)) hfit.1 hj)
    simpa [encode_length, Nat.add_assoc] using r1.trans r2
  · intro err he
    simp only [eval, Res.bind_eq_err] at he
    rcases he with he | ⟨pvs, hpvs, he⟩
    · exact ihp.2 err he
    · obtain ⟨r1, hfx, hlen⟩ := ihp.1 pvs hpvs
      rcases he with he | ⟨str, _, he⟩
      · have hj : joinLoop S parts.length (m.stack ++ partsStack pvs) "" = .err err := by
          have := (joinLoop_parts S pvs 0 m.stack "" hfx).2 err he
          rw [← hlen]
          simpa using this
        exact r1.fails (Fails.step (step_joinString_err (S := S)
          (hpos.next (a := f1) (m.stack ++ partsStack pvs)) hfit.1 hj))
      · cases he

end NumbatModel.VM
