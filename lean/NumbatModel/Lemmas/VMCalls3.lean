import NumbatModel.Lemmas.VMCalls2
/-!
Helper lemmas for C09, part 11: calls of function values (`CallCallable`).
-/
namespace NumbatModel.VM
open NumbatModel.Core
variable {ν : Type}

theorem case_callc {S : Sem ν} {P : Prog ν} {T : Table ν} {G : List (List Name)} (hP : ProgOK P T G) {n : Nat}
    (ih : ExprOK S P T G n) (callee : Expr ν) (args : List (Expr ν)) :
    ExprOKAt S P T G (n + 1) (.callc callee args) := by
  intro ρ cs cs' frag m f fs hcomp hcode hlt hfit hctx hpos hconst hlay hlast
  simp only [compileExpr, Res.bind_eq_ok] at hcomp
  obtain ⟨cs1, h1, cs2, h2, ⟨cs3, a⟩, h3, h4⟩ := hcomp
  injection h4 with h4; subst h4
  dsimp only at hlt hcode hconst
  simp only [fitsE, Bool.and_eq_true, decide_eq_true_eq] at hfit
  have g1 := compileList_good args cs cs1 h1
  have g2 := compileExpr_good callee cs1 cs2 h2
  have g3 := good_addCallArgs h3
  have e3 : cs3.code = cs2.code := by
    unfold CS.addCallArgs at h3
    split at h3
    · injection h3 with h3; injection h3 with h3 _; rw [← h3]
    · cases h3
  have hl3 : cs3.code.length < 65536 := by
    have : (cs3.emit .callCallable [args.length, a]).code.length = cs3.code.length + 5 := by simp [encode_length]
    omega
  have hl2 : cs2.code.length < 65536 := by rw [← e3]; exact hl3
  have hl1 : cs1.code.length < 65536 := Nat.lt_of_le_of_lt g2.len hl2
  obtain ⟨f1, e1⟩ := g1.pre hl1
  obtain ⟨f2, e2⟩ := g2.pre hl2
  have hfrag : frag = f1 ++ (f2 ++ encode .callCallable [args.length, a]) := by
    rw [CS.emit_code, e3, e2, e1] at hcode
    simp only [List.append_assoc] at hcode
    exact (List.append_cancel_left hcode).symm
  subst hfrag
  have hconst3 : cs3.constants <+: P.constants := hconst
  have hconst2 : cs2.constants <+: P.constants := g3.consts_prefix hconst3
  have ihl := list_ok ih args ρ cs cs1 f1 m f fs h1 e1 hl1 hfit.2 hctx hpos.left (g2.consts_prefix hconst2)
    hlay hlast
  have p1 := fun vs => hpos.next (a := f1) (m.stack ++ vs)
  have ihc := fun vs => ih callee ρ cs1 cs2 f2 (m.at f fs (f.ip + f1.length) (m.stack ++ vs))
    { f with ip := f.ip + f1.length } fs h2 e2 hl2 hfit.1.2 (hctx.good g1) (p1 vs).left hconst2
    (hlay.push vs) hlast
  have p2 := fun vs (cv : Value ν) => (p1 vs).next (a := f2) (m.stack ++ vs ++ [cv])
  have ha65 := addCallArgs_lt h3
  have hn65 : args.length < 65536 := hfit.1.1
  -- the two kinds of callee
  have hnormal : ∀ (vs : List (Value ν)) (name : Name) (i : Nat) (c : Closure ν), vs.length = args.length →
      T.funs[i]? = some c →
      (∀ v, applyClosure (eval S T n) c vs ρ.globals ρ.last = .ok v →
        Runs S P (m.at f fs (f.ip + f1.length + f2.length) (m.stack ++ vs ++ [.fnref false name (i + 1)]))
          (m.at f fs (f.ip + (f1 ++ (f2 ++ encode .callCallable [args.length, a])).length) (m.stack ++ [v]))) ∧
      (∀ err, applyClosure (eval S T n) c vs ρ.globals ρ.last = .err err →
        Fails S P (m.at f fs (f.ip + f1.length + f2.length) (m.stack ++ vs ++ [.fnref false name (i + 1)])) err) := by
    intro vs name i c hvl hc
    have hstep := step_callCallable_normal (S := S) (p2 vs (.fnref false name (i + 1))) hn65 ha65
      (s := m.stack ++ vs) (name := name) (idx := i + 1) rfl (by simp; omega)
    have hfp : (m.stack ++ vs).length - args.length = m.stack.length := by simp; omega
    rw [hfp] at hstep
    have ap := apply_ok hP ih hc vs ρ.globals ρ.last
      { (m.at f fs (f.ip + f1.length + f2.length) (m.stack ++ vs ++ [Value.fnref false name (i + 1)])) with
          stack := m.stack ++ vs,
          frames := { fn := i + 1, ip := 0, fp := m.stack.length } ::
            { { f with ip := f.ip + f1.length + f2.length } with ip := f.ip + f1.length + f2.length + 5 } :: fs }
      { { f with ip := f.ip + f1.length + f2.length } with ip := f.ip + f1.length + f2.length + 5 } fs m.stack
      rfl rfl hlay.globals hctx.gnames hlast
    refine ⟨?_, ?_⟩
    · intro v hv
      have := (Runs.step hstep).trans (ap.1 v hv)
      simpa [Machine.at, encode_length, Nat.add_assoc] using this
    · intro err he
      exact (Runs.step hstep).fails (ap.2 err he)
  have hmemP : ∀ name, T.ffiAll.contains name = true → P.ffiNames.contains name = true := by
    intro name h; rw [hP.ffi]; exact h
  refine ⟨?_, ?_⟩
  · intro v hv
    simp only [eval, Res.bind_eq_ok] at hv
    obtain ⟨vs, hvs, cv, hcv, hv⟩ := hv
    have r1 := ihl.1 vs hvs
    have r2 := (ihc vs).1 cv hcv
    have r12 : Runs S P m (m.at f fs (f.ip + f1.length + f2.length) (m.stack ++ vs ++ [cv])) := by
      simpa using r1.trans r2
    cases cv with
    | fnref foreign name idx =>
      cases foreign with
      | false =>
        simp only at hv
        cases idx with
        | zero => simp at hv
        | succ i =>
          simp only at hv
          cases hc : T.funs[i]? with
          | none => simp [hc] at hv
          | some c =>
            simp only [hc] at hv
            exact r12.trans ((hnormal vs name i c (evalList_length hvs) hc).1 v hv)
      | true =>
        simp only at hv
        cases hmem : T.ffiAll.contains name with
        | false => rw [hmem] at hv; simp at hv
        | true =>
          simp only [hmem, if_true] at hv
          have r3 := Runs.step (step_callCallable_foreign_ok (S := S) (p2 vs (.fnref true name idx)) hn65 ha65
            (s := m.stack) (vs := vs) (name := name) rfl (evalList_length hvs) (hmemP name hmem) hv)
          have := r12.trans r3
          simpa [encode_length, Nat.add_assoc] using this
    | _ => simp at hv
  · intro err he
    simp only [eval, Res.bind_eq_err] at he
    rcases he with he | ⟨vs, hvs, he⟩
    · exact ihl.2 err he
    · have r1 := ihl.1 vs hvs
      rcases he with he | ⟨cv, hcv, he⟩
      · exact r1.fails ((ihc vs).2 err he)
      · have r2 := (ihc vs).1 cv hcv
        have r12 : Runs S P m (m.at f fs (f.ip + f1.length + f2.length) (m.stack ++ vs ++ [cv])) := by
          simpa using r1.trans r2
        cases cv with
        | fnref foreign name idx =>
          cases foreign with
          | false =>
            simp only at he
            cases idx with
            | zero => simp at he
            | succ i =>
              simp only at he
              cases hc : T.funs[i]? with
              | none => simp [hc] at he
              | some c =>
                simp only [hc] at he
                exact r12.fails ((hnormal vs name i c (evalList_length hvs) hc).2 err he)
          | true =>
            simp only at he
            cases hmem : T.ffiAll.contains name with
            | false => rw [hmem] at he; simp at he
            | true =>
              simp only [hmem, if_true] at he
              exact r12.fails (Fails.step (step_callCallable_foreign_err (S := S) (p2 vs (.fnref true name idx)) hn65 ha65
                (s := m.stack) (vs := vs) (name := name) rfl (evalList_length hvs) (hmemP name hmem) he))
        | _ => simp at he

end NumbatModel.VM
