import NumbatModel.Lemmas.VMSteps
/-!
Helper lemmas for C09, part 5: the induction of the compiler-correctness proof.
-/
namespace NumbatModel.VM
open NumbatModel.Core
variable {ν : Type}

theorem Res.bind_eq_err {α β : Type} {r : Res α} {f : α → Res β} {e : Err} :
    r.bind f = .err e ↔ r = .err e ∨ ∃ a, r = .ok a ∧ f a = .err e := by
  cases r <;> simp [Res.bind]

/-- Statement of compiler correctness for the expression `e` evaluated with fuel `n`: if `e` compiles from state
    `cs` to `cs'` appending the code `frag`, the machine stands in front of `frag` with a stack laid out as the
    environment `ρ` says, then the machine reaches the end of `frag` with the value of `e` pushed, resp. stops
    with the same run-time error. -/
def ExprOKAt (S : Sem ν) (P : Prog ν) (T : Table ν) (G : List (List Name)) (n : Nat) (e : Expr ν) : Prop :=
  ∀ (ρ : Env ν) (cs cs' : CS ν) (frag : List UInt8) (m : Machine ν) (f : Frame) (fs : List Frame),
    compileExpr e cs = .ok cs' → cs'.code = cs.code ++ frag → cs'.code.length < 65536 → fitsE e = true →
    Ctx T G ρ cs → Pos P m f fs frag → cs'.constants <+: P.constants →
    Layout ρ f.fp m.stack → m.last = ρ.last →
    (∀ v, eval S T n ρ e = .ok v → Runs S P m (m.at f fs (f.ip + frag.length) (m.stack ++ [v]))) ∧
    (∀ err, eval S T n ρ e = .err err → Fails S P m err)

def ExprOK (S : Sem ν) (P : Prog ν) (T : Table ν) (G : List (List Name)) (n : Nat) : Prop :=
  ∀ e : Expr ν, ExprOKAt S P T G n e

theorem prefix_get {α : Type} {l1 l2 : List α} (h : l1 <+: l2) {i : Nat} {a : α} (hi : l1[i]? = some a) :
    l2[i]? = some a := by
  obtain ⟨t, rfl⟩ := h
  rw [List.getElem?_append_left (List.getElem?_eq_some_iff.mp hi).1]; exact hi

/-- `LoadConstant` of a constant just added -/
theorem loadConst_ok {S : Sem ν} {P : Prog ν} {cs cs' : CS ν} {c : Constant ν} {frag : List UInt8}
    {m : Machine ν} {f : Frame} {fs : List Frame}
    (h : cs.loadConst c = .ok cs') (hcode : cs'.code = cs.code ++ frag) (hpos : Pos P m f fs frag)
    (hconst : cs'.constants <+: P.constants) :
    Runs S P m (m.at f fs (f.ip + frag.length) (m.stack ++ [c.toValue])) := by
  unfold CS.loadConst at h
  split at h
  · rename_i hle
    injection h with h; subst h
    have hcode : encode .loadConstant [cs.constants.length] = frag := List.append_cancel_left hcode
    subst hcode
    have hc : P.constants[cs.constants.length]? = some c :=
      prefix_get hconst (by simp [CS.emit])
    have := step_loadConstant (S := S) hpos (by omega) hc
    simpa [encode_length] using Runs.step this
  · cases h

theorem take_getElem?_some {α : Type} {l : List α} {k p : Nat} {a : α} (h : (l.take k)[p]? = some a) :
    l[p]? = some a := by
  rw [List.getElem?_take] at h
  split at h
  · exact h
  · cases h

/-- a sub-expression followed by one instruction without operands that maps the top of the stack -/
theorem unary_case {S : Sem ν} {P : Prog ν} {T : Table ν} {G : List (List Name)} {n : Nat}
    (ih : ExprOK S P T G n) {e : Expr ν} {ρ : Env ν} {cs cs1 : CS ν} {op : Op} {args : List Nat}
    {frag : List UInt8} {m : Machine ν} {f : Frame} {fs : List Frame}
    (h1 : compileExpr e cs = .ok cs1) (hcode : (cs1.emit op args).code = cs.code ++ frag)
    (hlt : (cs1.emit op args).code.length < 65536) (hfit : fitsE e = true)
    (hctx : Ctx T G ρ cs) (hpos : Pos P m f fs frag) (hconst : (cs1.emit op args).constants <+: P.constants)
    (hlay : Layout ρ f.fp m.stack) (hlast : m.last = ρ.last) :
    ∃ f1, frag = f1 ++ encode op args ∧
      (∀ v, eval S T n ρ e = .ok v → Runs S P m (m.at f fs (f.ip + f1.length) (m.stack ++ [v])) ∧
        Pos P (m.at f fs (f.ip + f1.length) (m.stack ++ [v])) { f with ip := f.ip + f1.length } fs (encode op args)) ∧
      (∀ err, eval S T n ρ e = .err err → Fails S P m err) := by
  have g1 := compileExpr_good e cs cs1 h1
  have hl : cs1.code.length < 65536 := by
    have : (cs1.emit op args).code.length = cs1.code.length + (encode op args).length := by simp
    omega
  obtain ⟨f1, e1⟩ := g1.pre hl
  have hfrag : frag = f1 ++ encode op args := by
    rw [CS.emit_code, e1, List.append_assoc] at hcode
    exact (List.append_cancel_left hcode).symm
  subst hfrag
  have r := ih e ρ cs cs1 f1 m f fs h1 e1 hl hfit hctx hpos.left hconst hlay hlast
  exact ⟨f1, rfl, fun v hv => ⟨r.1 v hv, hpos.next _⟩, r.2⟩

theorem Good.consts_prefix {a b : CS ν} {L : List (Constant ν)} (g : Good a b) (h : b.constants <+: L) :
    a.constants <+: L := by
  obtain ⟨k, hk⟩ := g.consts
  obtain ⟨t, ht⟩ := h
  exact ⟨k ++ t, by rw [← ht, hk]; simp⟩

end NumbatModel.VM
