import NumbatModel.Lemmas.VMSteps
/-!
Helper lemmas for C09, part 5: the induction of the compiler-correctness proof.
-/
namespace NumbatModel.VM
open NumbatModel.Core
variable {ν : Type}

theorem Res.bind_eq_err {α β : Type} {r : Res α} {f : α → Res β} {e : Err} :
    r.bind f = .err e ↔ r = .err e ∨ ∃ a, r = .ok a ∧ f a = .err e := by
  cases r <;> simp [Res.bind]

/-- Statement of compiler correctness for expressions evaluated with fuel `n`. -/
def ExprOK (S : Sem ν) (P : Prog ν) (T : Table ν) (G : List (List Name)) (n : Nat) : Prop :=
  ∀ (e : Expr ν) (ρ : Env ν) (cs cs' : CS ν) (frag : List UInt8) (m : Machine ν) (f : Frame) (fs : List Frame),
    compileExpr e cs = .ok cs' → cs'.code = cs.code ++ frag → cs'.code.length < 65536 → fitsE e = true →
    Ctx T G ρ cs → Pos P m f fs frag → cs'.constants <+: P.constants →
    Layout ρ f.fp m.stack → m.last = ρ.last →
    (∀ v, eval S T n ρ e = .ok v → Runs S P m (m.at f fs (f.ip + frag.length) (m.stack ++ [v]))) ∧
    (∀ err, eval S T n ρ e = .err err → Fails S P m err)

theorem prefix_get {α : Type} {l1 l2 : List α} (h : l1 <+: l2) {i : Nat} {a : α} (hi : l1[i]? = some a) :
    l2[i]? = some a := by
  obtain ⟨t, rfl⟩ := h
  rw [List.getElem?_append_left (List.getElem?_eq_some_iff.mp hi).1]; exact hi

/-- `LoadConstant` of a constant just added -/
theorem loadConst_ok {S : Sem ν} {P : Prog ν} {cs cs' : CS ν} {c : Constant ν} {frag : List UInt8}
    {m : Machine ν} {f : Frame} {fs : List Frame}
    (h : cs.loadConst c = .ok cs') (hcode : cs'.code = cs.code ++ frag) (hpos : Pos P m f fs frag)
    (hconst : cs'.constants <+: P.constants) :
    Runs S P m (m.at f fs (f.ip + frag.length) (m.stack ++ [c.toValue])) := by
  unfold CS.loadConst at h
  split at h
  · rename_i hle
    injection h with h; subst h
    have hcode : encode .loadConstant [cs.constants.length] = frag := List.append_cancel_left hcode
    subst hcode
    have hc : P.constants[cs.constants.length]? = some c :=
      prefix_get hconst (by simp [CS.emit])
    have := step_loadConstant (S := S) hpos (by omega) hc
    simpa [encode_length] using Runs.step this
  · cases h

theorem take_getElem?_some {α : Type} {l : List α} {k p : Nat} {a : α} (h : (l.take k)[p]? = some a) :
    l[p]? = some a := by
  rw [List.getElem?_take] at h
  split at h
  · exact h
  · cases h

/-- a sub-expression followed by one instruction without operands that maps the top of the stack -/
theorem unary_case {S : Sem ν} {P : Prog ν} {T : Table ν} {G : List (List Name)} {n : Nat}
    (ih : ExprOK S P T G n) {e : Expr ν} {ρ : Env ν} {cs cs1 : CS ν} {op : Op} {args : List Nat}
    {frag : List UInt8} {m : Machine ν} {f : Frame} {fs : List Frame}
    (h1 : compileExpr e cs = .ok cs1) (hcode : (cs1.emit op args).code = cs.code ++ frag)
    (hlt : (cs1.emit op args).code.length < 65536) (hfit : fitsE e = true)
    (hctx : Ctx T G ρ cs) (hpos : Pos P m f fs frag) (hconst : (cs1.emit op args).constants <+: P.constants)
    (hlay : Layout ρ f.fp m.stack) (hlast : m.last = ρ.last) :
    ∃ f1, frag = f1 ++ encode op args ∧
      (∀ v, eval S T n ρ e = .ok v → Runs S P m (m.at f fs (f.ip + f1.length) (m.stack ++ [v])) ∧
        Pos P (m.at f fs (f.ip + f1.length) (m.stack ++ [v])) { f with ip := f.ip + f1.length } fs (encode op args)) ∧
      (∀ err, eval S T n ρ e = .err err → Fails S P m err) := by
  have g1 := compileExpr_good e cs cs1 h1
  have hl : cs1.code.length < 65536 := by
    have : (cs1.emit op args).code.length = cs1.code.length + (encode op args).length := by simp
    omega
  obtain ⟨f1, e1⟩ := g1.pre hl
  have hfrag : frag = f1 ++ encode op args := by
    rw [CS.emit_code, e1, List.append_assoc] at hcode
    exact (List.append_cancel_left hcode).symm
  subst hfrag
  have r := ih e ρ cs cs1 f1 m f fs h1 e1 hl hfit hctx hpos.left hconst hlay hlast
  exact ⟨f1, rfl, fun v hv => ⟨r.1 v hv, hpos.next _⟩, r.2⟩

theorem exprOK_succ {S : Sem ν} {P : Prog ν} {T : Table ν} {G : List (List Name)} (hP : ProgOK P T G)
    {n : Nat} (ih : ExprOK S P T G n) : ExprOK S P T G (n + 1) := by
  intro e ρ cs cs' frag m f fs hcomp hcode hlt hfit hctx hpos hconst hlay hlast
  cases e with
  | num x =>
    simp only [compileExpr] at hcomp
    refine ⟨?_, ?_⟩
    · intro v hv
      simp only [eval] at hv; injection hv with hv; subst hv
      exact loadConst_ok hcomp hcode hpos hconst
    · intro err herr; simp [eval] at herr
  | bool b =>
    simp only [compileExpr] at hcomp
    refine ⟨?_, ?_⟩
    · intro v hv
      simp only [eval] at hv; injection hv with hv; subst hv
      exact loadConst_ok hcomp hcode hpos hconst
    · intro err herr; simp [eval] at herr
  | ident x =>
    simp only [compileExpr] at hcomp
    have hl := lookupLast_of_lastIdx x ρ.locals
    rw [← hctx.cur] at hl
    have hg := lookupLast_of_lastIdx x (ρ.globals.take ρ.static.nglob)
    rw [← hctx.glob] at hg
    refine ⟨?_, ?_⟩
    · intro v hv
      simp only [eval, lookupIdent] at hv
      cases h1 : lastIdx (fun l => l.contains x) cs.scopeCur with
      | some p =>
        obtain ⟨hplt, hlook⟩ := hl.1 p h1
        rw [h1] at hcomp; injection hcomp with hcomp; subst hcomp
        have hfrag : encode .getLocal [p] = frag := List.append_cancel_left hcode
        subst hfrag
        obtain ⟨w, hw⟩ : ∃ w, ρ.locals[p]? = some w := ⟨_, List.getElem?_eq_getElem hplt⟩
        rw [hlook, hw] at hv
        simp at hv; subst hv
        have hp65 : p < 65536 := by have := hctx.curLt; rw [hctx.cur, List.length_map] at this; omega
        have := step_getLocal (S := S) hpos hp65 (hlay.local_get hw)
        simpa [encode_length] using Runs.step this
      | none =>
        rw [h1] at hcomp
        rw [hl.2 h1] at hv
        cases h2 : lastIdx (fun l => l.contains x) cs.scopeGlob with
        | some p =>
          obtain ⟨hplt, hlook⟩ := hg.1 p h2
          rw [h2] at hcomp; injection hcomp with hcomp; subst hcomp
          have hfrag : encode .getUpvalue [p] = frag := List.append_cancel_left hcode
          subst hfrag
          obtain ⟨w, hw⟩ : ∃ w, (ρ.globals.take ρ.static.nglob)[p]? = some w :=
            ⟨_, List.getElem?_eq_getElem hplt⟩
          rw [hlook, hw] at hv
          simp at hv; subst hv
          have hp65 : p < 65536 := by have := hctx.globLt; rw [hctx.glob, List.length_map] at this; omega
          have := step_getUpvalue (S := S) hpos hp65 (hlay.global_get (take_getElem?_some hw))
          simpa [encode_length] using Runs.step this
        | none =>
          rw [h2] at hcomp
          rw [hg.2 h2] at hv
          by_cases hlr : lastResultIdentifiers.contains x = true
          · simp only [hlr, if_true] at hcomp hv
            injection hcomp with hcomp; subst hcomp
            have hfrag : encode .getLastResult [] = frag := List.append_cancel_left hcode
            subst hfrag
            cases hlv : ρ.last with
            | none => simp [hlv] at hv
            | some w =>
              simp [hlv] at hv; subst hv
              have := step_getLastResult (S := S) hpos (by rw [hlast, hlv])
              simpa [encode_length] using Runs.step this
          · simp only [hlr] at hcomp hv
            rw [hctx.functions] at hcomp
            cases hfn : assocLast x ρ.static.fnNames with
            | none => simp [hfn] at hv
            | some foreign =>
              simp [hfn] at hv hcomp; subst hv
              exact loadConst_ok (c := .fnref foreign x) hcomp hcode hpos hconst
    · intro err herr
      simp only [eval, lookupIdent] at herr
      split at herr
      · cases herr
      · split at herr
        · cases herr
        · split at herr
          · split at herr <;> cases herr
          · split at herr <;> cases herr
  | neg e =>
    simp only [compileExpr, Res.bind_eq_ok] at hcomp
    obtain ⟨cs1, h1, h2⟩ := hcomp
    injection h2 with h2; subst h2
    simp only [fitsE] at hfit
    obtain ⟨f1, rfl, hok, herr⟩ := unary_case ih h1 hcode hlt hfit hctx hpos hconst hlay hlast
    refine ⟨?_, ?_⟩
    · intro v hv
      simp only [eval, Res.bind_eq_ok] at hv
      obtain ⟨a, ha, hv⟩ := hv
      obtain ⟨r1, p1⟩ := hok a ha
      cases a with
      | num x =>
        simp at hv; subst hv
        have r2 := Runs.step (step_negate (S := S) p1 (s := m.stack) (x := x) rfl)
        simpa [encode_length, Nat.add_assoc] using r1.trans r2
      | _ => simp at hv
    · intro err he
      simp only [eval, Res.bind_eq_err] at he
      rcases he with he | ⟨a, _, he⟩
      · exact herr err he
      · cases a <;> simp at he
  | not e =>
    simp only [compileExpr, Res.bind_eq_ok] at hcomp
    obtain ⟨cs1, h1, h2⟩ := hcomp
    injection h2 with h2; subst h2
    simp only [fitsE] at hfit
    obtain ⟨f1, rfl, hok, herr⟩ := unary_case ih h1 hcode hlt hfit hctx hpos hconst hlay hlast
    refine ⟨?_, ?_⟩
    · intro v hv
      simp only [eval, Res.bind_eq_ok] at hv
      obtain ⟨a, ha, hv⟩ := hv
      obtain ⟨r1, p1⟩ := hok a ha
      cases a with
      | bool b =>
        simp at hv; subst hv
        have r2 := Runs.step (step_logicalNeg (S := S) p1 (s := m.stack) (b := b) rfl)
        simpa [encode_length, Nat.add_assoc] using r1.trans r2
      | _ => simp at hv
    · intro err he
      simp only [eval, Res.bind_eq_err] at he
      rcases he with he | ⟨a, _, he⟩
      · exact herr err he
      · cases a <;> simp at he
  | fact k e =>
    simp only [compileExpr, Res.bind_eq_ok] at hcomp
    obtain ⟨cs1, h1, h2⟩ := hcomp
    injection h2 with h2; subst h2
    simp only [fitsE, Bool.and_eq_true, decide_eq_true_eq] at hfit
    obtain ⟨f1, rfl, hok, herr⟩ := unary_case ih h1 hcode hlt hfit.2 hctx hpos hconst hlay hlast
    refine ⟨?_, ?_⟩
    · intro v hv
      simp only [eval, Res.bind_eq_ok] at hv
      obtain ⟨a, ha, hv⟩ := hv
      obtain ⟨r1, p1⟩ := hok a ha
      cases a with
      | num x =>
        simp only [Res.bind_eq_ok] at hv
        obtain ⟨y, hy, hv⟩ := hv
        injection hv with hv; subst hv
        have hf : S.fact k x = .ok y := by
          cases hh : S.fact k x <;> simp [hh, Res.ofExcept] at hy; subst hy; rfl
        have r2 := Runs.step (step_factorial_ok (S := S) p1 hfit.1 (s := m.stack) (x := x) rfl hf)
        simpa [encode_length, Nat.add_assoc] using r1.trans r2
      | _ => simp at hv
    · intro err he
      simp only [eval, Res.bind_eq_err] at he
      rcases he with he | ⟨a, ha, he⟩
      · exact herr err he
      · obtain ⟨r1, p1⟩ := hok a ha
        cases a with
        | num x =>
          simp only [Res.bind_eq_err] at he
          rcases he with he | ⟨y, _, he⟩
          · have hf : S.fact k x = .error err := by
              cases hh : S.fact k x <;> simp [hh, Res.ofExcept] at he; subst he; rfl
            exact r1.fails (Fails.step (step_factorial_err (S := S) p1 hfit.1 (s := m.stack) (x := x) rfl hf))
          · cases he
        | _ => simp at he
  | bin op l r => sorry
  | call fn args => sorry
  | callc callee args => sorry
  | cond c t e => sorry
  | str parts => sorry
  | mk info fields => sorry
  | fld e field info => sorry
  | list es => sorry

end NumbatModel.VM
