import NumbatModel.Lemmas.VMBasic
/-!
Helper lemmas for C09, part 2: what the compiler does to its state (`Good`): code and constants
only grow by appending (jump patching stays inside the code of the expression being compiled, provided
offsets fit into 16 bits), the scope tables do not change.
-/
namespace NumbatModel.VM
open NumbatModel.Core

variable {ν : Type}

theorem Res.bind_eq_ok {α β : Type} {r : Res α} {f : α → Res β} {b : β} :
    r.bind f = .ok b ↔ ∃ a, r = .ok a ∧ f a = .ok b := by
  cases r <;> simp [Res.bind]

/-! ### patching -/

theorem patchU16_length (code : List UInt8) (off v : Nat) : (patchU16 code off v).length = code.length := by
  simp [patchU16]

theorem patchU16_mid (a b : List UInt8) (x p q : UInt8) (v : Nat) :
    patchU16 (a ++ x :: p :: q :: b) (a.length + 1) v
      = a ++ x :: UInt8.ofNat (v % 256) :: UInt8.ofNat (v / 256 % 256) :: b := by
  unfold patchU16
  rw [List.set_append_right _ _ (by omega), List.set_append_right _ _ (by omega)]
  have h1 : a.length + 1 - a.length = 1 := by omega
  have h2 : a.length + 1 + 1 - a.length = 2 := by omega
  rw [h1, h2]
  rfl

theorem encode_jumpIfFalse (v : Nat) :
    encode .jumpIfFalse [v] = [26, UInt8.ofNat (v % 256), UInt8.ofNat (v / 256 % 256)] := rfl

theorem encode_jump (v : Nat) :
    encode .jump [v] = [27, UInt8.ofNat (v % 256), UInt8.ofNat (v / 256 % 256)] := rfl

/-- first patch of a conditional -/
theorem cond_patch1 (c1 ft : List UInt8) (off1 l4 : Nat)
    (hlt : c1.length + 3 + ft.length + 3 < 65536)
    (hoff1 : off1 = (c1.length % 65536 + 1) % 65536)
    (hl4 : l4 = (c1 ++ encode .jumpIfFalse [0xffff] ++ ft ++ encode .jump [0xffff]).length % 65536) :
    patchU16 (c1 ++ encode .jumpIfFalse [0xffff] ++ ft ++ encode .jump [0xffff]) off1 (subU16 l4 (off1 + 2))
      = c1 ++ encode .jumpIfFalse [ft.length + 3] ++ ft ++ encode .jump [0xffff] := by
  have h1 : off1 = c1.length + 1 := by omega
  have h4 : l4 = c1.length + 3 + ft.length + 3 := by
    simp only [encode_jumpIfFalse, encode_jump, List.length_append, List.length_cons, List.length_nil] at hl4
    omega
  have hv : subU16 l4 (off1 + 2) = ft.length + 3 := by
    simp only [subU16]; omega
  rw [hv, h1, encode_jumpIfFalse 0xffff, encode_jumpIfFalse (ft.length + 3)]
  have := patchU16_mid c1 (ft ++ encode .jump [0xffff]) 26 (UInt8.ofNat (0xffff % 256))
    (UInt8.ofNat (0xffff / 256 % 256)) (ft.length + 3)
  simpa using this

/-- second patch of a conditional -/
theorem cond_patch2 (c3 fe : List UInt8) (off2 l6 : Nat)
    (hlt : c3.length + 3 + fe.length < 65536)
    (hoff2 : off2 = (c3.length % 65536 + 1) % 65536)
    (hl6 : l6 = (c3 ++ encode .jump [0xffff] ++ fe).length % 65536) :
    patchU16 (c3 ++ encode .jump [0xffff] ++ fe) off2 (subU16 l6 (off2 + 2))
      = c3 ++ encode .jump [fe.length] ++ fe := by
  have h1 : off2 = c3.length + 1 := by omega
  have h6 : l6 = c3.length + 3 + fe.length := by
    simp only [encode_jump, List.length_append, List.length_cons, List.length_nil] at hl6
    omega
  have hv : subU16 l6 (off2 + 2) = fe.length := by
    simp only [subU16]; omega
  rw [hv, h1, encode_jump 0xffff, encode_jump fe.length]
  have := patchU16_mid c3 fe 27 (UInt8.ofNat (0xffff % 256)) (UInt8.ofNat (0xffff / 256 % 256)) fe.length
  simpa using this

/-! ### the relation between compiler states before and after -/

@[simp] theorem CS.emit_code (cs : CS ν) (op : Op) (args : List Nat) :
    (cs.emit op args).code = cs.code ++ encode op args := rfl
@[simp] theorem CS.patch_code (cs : CS ν) (o v : Nat) : (cs.patch o v).code = patchU16 cs.code o v := rfl

structure Good (cs cs' : CS ν) : Prop where
  len : cs.code.length ≤ cs'.code.length
  consts : ∃ k, cs'.constants = cs.constants ++ k
  ncall : cs.nCallArgs ≤ cs'.nCallArgs
  scopeCur : cs'.scopeCur = cs.scopeCur
  scopeGlob : cs'.scopeGlob = cs.scopeGlob
  functions : cs'.functions = cs.functions
  chunkNames : cs'.chunkNames = cs.chunkNames
  ffiNames : cs'.ffiNames = cs.ffiNames
  structNames : cs'.structNames = cs.structNames
  pre : cs'.code.length < 65536 → ∃ frag, cs'.code = cs.code ++ frag

theorem Good.refl (cs : CS ν) : Good cs cs :=
  ⟨Nat.le_refl _, ⟨[], by simp⟩, Nat.le_refl _, rfl, rfl, rfl, rfl, rfl, rfl, fun _ => ⟨[], by simp⟩⟩

theorem Good.trans {a b c : CS ν} (h1 : Good a b) (h2 : Good b c) : Good a c := by
  refine ⟨Nat.le_trans h1.len h2.len, ?_, Nat.le_trans h1.ncall h2.ncall, ?_, ?_, ?_, ?_, ?_, ?_, ?_⟩
  · obtain ⟨k1, e1⟩ := h1.consts; obtain ⟨k2, e2⟩ := h2.consts
    exact ⟨k1 ++ k2, by rw [e2, e1]; simp⟩
  · rw [h2.scopeCur, h1.scopeCur]
  · rw [h2.scopeGlob, h1.scopeGlob]
  · rw [h2.functions, h1.functions]
  · rw [h2.chunkNames, h1.chunkNames]
  · rw [h2.ffiNames, h1.ffiNames]
  · rw [h2.structNames, h1.structNames]
  · intro hlt
    obtain ⟨f2, e2⟩ := h2.pre hlt
    obtain ⟨f1, e1⟩ := h1.pre (Nat.lt_of_le_of_lt h2.len hlt)
    exact ⟨f1 ++ f2, by rw [e2, e1]; simp⟩

theorem good_emit (cs : CS ν) (op : Op) (args : List Nat) : Good cs (cs.emit op args) :=
  ⟨by simp, ⟨[], by simp [CS.emit]⟩, Nat.le_refl _, rfl, rfl, rfl, rfl, rfl, rfl,
   fun _ => ⟨encode op args, rfl⟩⟩

theorem good_loadConst {cs cs' : CS ν} {c : Constant ν} (h : cs.loadConst c = .ok cs') : Good cs cs' := by
  unfold CS.loadConst at h
  split at h
  · injection h with h; subst h
    exact ⟨by simp, ⟨[c], rfl⟩, Nat.le_refl _, rfl, rfl, rfl, rfl, rfl, rfl,
      fun _ => ⟨encode .loadConstant [cs.constants.length], rfl⟩⟩
  · cases h

theorem good_addCallArgs {cs cs' : CS ν} {a : Nat} (h : cs.addCallArgs = .ok (cs', a)) : Good cs cs' := by
  unfold CS.addCallArgs at h
  split at h
  · injection h with h; injection h with h1 h2; subst h1
    exact ⟨Nat.le_refl _, ⟨[], by simp⟩, by simp, rfl, rfl, rfl, rfl, rfl, rfl, fun _ => ⟨[], by simp⟩⟩
  · cases h

/-- Everything about the code of a conditional: with `cs1` after the condition, `cs3` after the `then` branch,
    `cs6` after the `else` branch, and all code shorter than 2^16 bytes, the final code is the three
    sub-fragments separated by `JumpIfFalse (|then| + 3)` and `Jump |else|`. -/
theorem cond_shape {cs cs1 cs3 cs6 : CS ν}
    (g1 : Good cs cs1) (g3 : Good (cs1.emit .jumpIfFalse [0xffff]) cs3) (g6 : Good (condPatch1 cs1 cs3) cs6)
    (hlt : cs6.code.length < 65536) :
    ∃ fc ft fe, cs1.code = cs.code ++ fc ∧ cs3.code = cs1.code ++ encode .jumpIfFalse [0xffff] ++ ft ∧
      (condPatch1 cs1 cs3).code = cs1.code ++ encode .jumpIfFalse [ft.length + 3] ++ ft ++ encode .jump [0xffff] ∧
      cs6.code = (condPatch1 cs1 cs3).code ++ fe ∧
      (cs6.patch ((cs3.offset + 1) % 65536) (subU16 cs6.offset ((cs3.offset + 1) % 65536 + 2))).code
        = cs1.code ++ encode .jumpIfFalse [ft.length + 3] ++ ft ++ encode .jump [fe.length] ++ fe := by
  have l6 := g6.len
  have l3 := g3.len
  have l1 := g1.len
  have hp1len : (condPatch1 cs1 cs3).code.length = cs3.code.length + 3 := by
    simp [condPatch1, patchU16_length, encode_length]
  rw [hp1len] at l6
  have : (cs1.emit .jumpIfFalse [0xffff]).code.length = cs1.code.length + 3 := by simp [encode_length]
  rw [this] at l3
  obtain ⟨fe, he⟩ := g6.pre hlt
  obtain ⟨ft, ht⟩ := g3.pre (by omega)
  obtain ⟨fc, hc⟩ := g1.pre (by omega)
  simp only [CS.emit_code] at ht
  have hl3 : cs3.code.length = cs1.code.length + 3 + ft.length := by
    have := congrArg List.length ht; simp [encode_length] at this; omega
  have hp1 : (condPatch1 cs1 cs3).code
      = cs1.code ++ encode .jumpIfFalse [ft.length + 3] ++ ft ++ encode .jump [0xffff] := by
    simp only [condPatch1, CS.patch_code, CS.emit_code, CS.offset, ht]
    exact cond_patch1 cs1.code ft _ _ (by omega) rfl rfl
  refine ⟨fc, ft, fe, hc, ht, hp1, he, ?_⟩
  simp only [CS.patch_code, CS.offset, he, hp1]
  have hl : (cs1.code ++ encode .jumpIfFalse [ft.length + 3] ++ ft).length = cs3.code.length := by
    simp [hl3, encode_length]; omega
  have hfe : cs6.code.length = cs3.code.length + 3 + fe.length := by
    have := congrArg List.length he; rw [List.length_append, hp1len] at this; omega
  rw [← hl]
  have := cond_patch2 (cs1.code ++ encode .jumpIfFalse [ft.length + 3] ++ ft) fe _ _ (by rw [hl]; omega) rfl rfl
  simpa using this

theorem good_condPatch1 {cs1 cs3 : CS ν} (g3 : Good (cs1.emit .jumpIfFalse [0xffff]) cs3) :
    Good cs1 (condPatch1 cs1 cs3) := by
  have gg : Good cs1 cs3 := (good_emit cs1 .jumpIfFalse [0xffff]).trans g3
  refine ⟨?_, gg.consts, gg.ncall, gg.scopeCur, gg.scopeGlob, gg.functions, gg.chunkNames, gg.ffiNames,
    gg.structNames, ?_⟩
  · have := gg.len; simp [condPatch1, patchU16_length]; omega
  · intro hlt
    have hp1len : (condPatch1 cs1 cs3).code.length = cs3.code.length + 3 := by
      simp [condPatch1, patchU16_length, encode_length]
    obtain ⟨ft, ht⟩ := g3.pre (by omega)
    simp only [CS.emit_code] at ht
    have hl3 : cs3.code.length = cs1.code.length + 3 + ft.length := by
      have := congrArg List.length ht; simp [encode_length] at this; omega
    refine ⟨encode .jumpIfFalse [ft.length + 3] ++ ft ++ encode .jump [0xffff], ?_⟩
    simp only [condPatch1, CS.patch_code, CS.emit_code, CS.offset, ht]
    have := cond_patch1 cs1.code ft _ _ (by omega) rfl rfl
    simpa using this

theorem good_cond {cs cs1 cs3 cs6 : CS ν}
    (g1 : Good cs cs1) (g3 : Good (cs1.emit .jumpIfFalse [0xffff]) cs3) (g6 : Good (condPatch1 cs1 cs3) cs6) :
    Good cs (cs6.patch ((cs3.offset + 1) % 65536) (subU16 cs6.offset ((cs3.offset + 1) % 65536 + 2))) := by
  have gg : Good cs cs6 := g1.trans ((good_condPatch1 g3).trans g6)
  refine ⟨?_, gg.consts, gg.ncall, gg.scopeCur, gg.scopeGlob, gg.functions, gg.chunkNames, gg.ffiNames,
    gg.structNames, ?_⟩
  · have := gg.len; simpa [patchU16_length] using this
  · intro hlt
    have hlt6 : cs6.code.length < 65536 := by simpa [patchU16_length] using hlt
    obtain ⟨fc, ft, fe, hc, _, _, _, hfin⟩ := cond_shape g1 g3 g6 hlt6
    exact ⟨fc ++ encode .jumpIfFalse [ft.length + 3] ++ ft ++ encode .jump [fe.length] ++ fe, by
      rw [hfin, hc]; simp⟩

/-! ### sorting of struct fields: a permutation -/

theorem mem_insertByKey {α : Type} (key : α → Nat) (a x : α) (l : List α) :
    x ∈ insertByKey key a l ↔ x = a ∨ x ∈ l := by
  induction l with
  | nil => simp [insertByKey]
  | cons b bs ih =>
    simp only [insertByKey]
    split
    · simp [ih]; constructor
      · rintro (h | h | h) <;> simp [h]
      · rintro (h | h | h) <;> simp [h]
    · simp

theorem mem_sortByKey {α : Type} (key : α → Nat) (x : α) (l : List α) : x ∈ sortByKey key l ↔ x ∈ l := by
  induction l with
  | nil => simp [sortByKey]
  | cons a as ih => simp [sortByKey, mem_insertByKey, ih]

theorem mem_fieldOrder {α : Type} (info : StructInfo) (name : α → Name) (x : α) (l : List α) :
    x ∈ fieldOrder info name l ↔ x ∈ l := by
  simp [fieldOrder, mem_sortByKey]

theorem length_insertByKey {α : Type} (key : α → Nat) (a : α) (l : List α) :
    (insertByKey key a l).length = l.length + 1 := by
  induction l with
  | nil => simp [insertByKey]
  | cons b bs ih => simp only [insertByKey]; split <;> simp [ih]

theorem length_fieldOrder {α : Type} (info : StructInfo) (name : α → Name) (l : List α) :
    (fieldOrder info name l).length = l.length := by
  simp only [fieldOrder, List.length_reverse]
  induction l with
  | nil => simp [sortByKey]
  | cons a as ih => simp [sortByKey, length_insertByKey, ih]

/-! ### the compiler only extends its state -/

theorem runAll_good (acts : List (CS ν → Res (CS ν)))
    (h : ∀ a ∈ acts, ∀ cs cs', a cs = .ok cs' → Good cs cs') :
    ∀ cs cs', runAll acts cs = .ok cs' → Good cs cs' := by
  induction acts with
  | nil => intro cs cs' hr; simp [runAll] at hr; subst hr; exact Good.refl _
  | cons a as ih =>
    intro cs cs' hr
    simp only [runAll, Res.bind_eq_ok] at hr
    obtain ⟨cs1, h1, h2⟩ := hr
    exact (h a (by simp) cs cs1 h1).trans (ih (fun b hb => h b (by simp [hb])) cs1 cs' h2)

mutual
theorem compileExpr_good : ∀ (e : Expr ν) (cs cs' : CS ν), compileExpr e cs = .ok cs' → Good cs cs'
  | .num x, cs, cs', h => by simp only [compileExpr] at h; exact good_loadConst h
  | .bool b, cs, cs', h => by simp only [compileExpr] at h; exact good_loadConst h
  | .ident x, cs, cs', h => by
    simp only [compileExpr] at h
    split at h
    · injection h with h; subst h; exact good_emit _ _ _
    · split at h
      · injection h with h; subst h; exact good_emit _ _ _
      · split at h
        · injection h with h; subst h; exact good_emit _ _ _
        · split at h
          · exact good_loadConst h
          · split at h
            · exact good_loadConst h
            · cases h
          · cases h
  | .neg e, cs, cs', h => by
    simp only [compileExpr, Res.bind_eq_ok] at h
    obtain ⟨cs1, h1, h2⟩ := h
    injection h2 with h2; subst h2
    exact (compileExpr_good e cs cs1 h1).trans (good_emit _ _ _)
  | .not e, cs, cs', h => by
    simp only [compileExpr, Res.bind_eq_ok] at h
    obtain ⟨cs1, h1, h2⟩ := h
    injection h2 with h2; subst h2
    exact (compileExpr_good e cs cs1 h1).trans (good_emit _ _ _)
  | .fact k e, cs, cs', h => by
    simp only [compileExpr, Res.bind_eq_ok] at h
    obtain ⟨cs1, h1, h2⟩ := h
    injection h2 with h2; subst h2
    exact (compileExpr_good e cs cs1 h1).trans (good_emit _ _ _)
  | .bin op l r, cs, cs', h => by
    simp only [compileExpr, Res.bind_eq_ok] at h
    obtain ⟨cs1, h1, cs2, h2, h3⟩ := h
    injection h3 with h3; subst h3
    exact ((compileExpr_good l cs cs1 h1).trans (compileExpr_good r cs1 cs2 h2)).trans (good_emit _ _ _)
  | .call f args, cs, cs', h => by
    simp only [compileExpr, Res.bind_eq_ok] at h
    obtain ⟨cs1, h1, h2⟩ := h
    have g1 := compileList_good args cs cs1 h1
    split at h2
    · simp only [Res.bind_eq_ok] at h2
      obtain ⟨⟨cs2, a⟩, h3, h4⟩ := h2
      injection h4 with h4; subst h4
      exact (g1.trans (good_addCallArgs h3)).trans (good_emit _ _ _)
    · split at h2
      · injection h2 with h2; subst h2; exact g1.trans (good_emit _ _ _)
      · cases h2
  | .callc callee args, cs, cs', h => by
    simp only [compileExpr, Res.bind_eq_ok] at h
    obtain ⟨cs1, h1, cs2, h2, ⟨cs3, a⟩, h3, h4⟩ := h
    injection h4 with h4; subst h4
    exact (((compileList_good args cs cs1 h1).trans (compileExpr_good callee cs1 cs2 h2)).trans
      (good_addCallArgs h3)).trans (good_emit _ _ _)
  | .cond c t e, cs, cs', h => by
    simp only [compileExpr, Res.bind_eq_ok] at h
    obtain ⟨cs1, h1, cs3, h3, cs6, h6, h7⟩ := h
    injection h7 with h7; subst h7
    exact good_cond (compileExpr_good c cs cs1 h1) (compileExpr_good t _ cs3 h3) (compileExpr_good e _ cs6 h6)
  | .str parts, cs, cs', h => by
    simp only [compileExpr, Res.bind_eq_ok] at h
    obtain ⟨cs1, h1, h2⟩ := h
    injection h2 with h2; subst h2
    exact (compileParts_good parts cs cs1 h1).trans (good_emit _ _ _)
  | .mk info fields, cs, cs', h => by
    simp only [compileExpr] at h
    split at h
    · simp only [Res.bind_eq_ok] at h
      obtain ⟨cs1, h1, h2⟩ := h
      have g1 : Good cs cs1 := by
        refine runAll_good _ ?_ cs cs1 h1
        intro a ha
        simp only [List.mem_map] at ha
        obtain ⟨p, hp, rfl⟩ := ha
        exact compileFields_good fields p ((mem_fieldOrder _ _ _ _).mp hp)
      split at h2
      · injection h2 with h2; subst h2; exact g1.trans (good_emit _ _ _)
      · cases h2
    · cases h
  | .fld e field info, cs, cs', h => by
    simp only [compileExpr, Res.bind_eq_ok] at h
    obtain ⟨cs1, h1, h2⟩ := h
    split at h2
    · injection h2 with h2; subst h2
      exact (compileExpr_good e cs cs1 h1).trans (good_emit _ _ _)
    · cases h2
  | .list es, cs, cs', h => by
    simp only [compileExpr, Res.bind_eq_ok] at h
    obtain ⟨cs1, h1, h2⟩ := h
    injection h2 with h2; subst h2
    exact (compileList_good es cs cs1 h1).trans (good_emit _ _ _)
theorem compileList_good : ∀ (es : List (Expr ν)) (cs cs' : CS ν), compileList es cs = .ok cs' → Good cs cs'
  | [], cs, cs', h => by simp only [compileList] at h; injection h with h; subst h; exact Good.refl _
  | e :: es, cs, cs', h => by
    simp only [compileList, Res.bind_eq_ok] at h
    obtain ⟨cs1, h1, h2⟩ := h
    exact (compileExpr_good e cs cs1 h1).trans (compileList_good es cs1 cs' h2)
theorem compileParts_good : ∀ (ps : List (Part ν)) (cs cs' : CS ν), compileParts ps cs = .ok cs' → Good cs cs'
  | [], cs, cs', h => by simp only [compileParts] at h; injection h with h; subst h; exact Good.refl _
  | .fixed s :: ps, cs, cs', h => by
    simp only [compileParts, Res.bind_eq_ok] at h
    obtain ⟨cs1, h1, h2⟩ := h
    exact (good_loadConst h1).trans (compileParts_good ps cs1 cs' h2)
  | .interp fmt e :: ps, cs, cs', h => by
    simp only [compileParts, Res.bind_eq_ok] at h
    obtain ⟨cs1, h1, cs2, h2, h3⟩ := h
    exact ((compileExpr_good e cs cs1 h1).trans (good_loadConst h2)).trans (compileParts_good ps cs2 cs' h3)
theorem compileFields_good : ∀ (fs : List (Field ν)) (p : Name × (CS ν → Res (CS ν))), p ∈ compileFields fs →
    ∀ (cs cs' : CS ν), p.2 cs = .ok cs' → Good cs cs'
  | [], p, hp => by simp [compileFields] at hp
  | .mk n e :: fs, p, hp => by
    simp only [compileFields, List.mem_cons] at hp
    rcases hp with rfl | hp
    · intro cs cs' h; exact compileExpr_good e cs cs' h
    · exact compileFields_good fs p hp
end

end NumbatModel.VM
