import NumbatModel.Lemmas.VMFinal
/-!
Helper lemmas for C09, part 13: sortedness of the field order, concatenation of string parts.
-/
namespace NumbatModel.VM
open NumbatModel.Core
variable {ν : Type}

theorem pairwise_insertByKey {α : Type} (key : α → Nat) (a : α) :
    ∀ (l : List α), l.Pairwise (fun x y => key x ≤ key y) → (insertByKey key a l).Pairwise (fun x y => key x ≤ key y)
  | [], _ => by simp [insertByKey]
  | b :: bs, h => by
    simp only [insertByKey]
    rw [List.pairwise_cons] at h
    split
    · rename_i hle
      rw [List.pairwise_cons]
      refine ⟨?_, pairwise_insertByKey key a bs h.2⟩
      intro x hx
      rcases (mem_insertByKey key a x bs).mp hx with rfl | hx
      · exact hle
      · exact h.1 x hx
    · rename_i hnle
      rw [List.pairwise_cons]
      refine ⟨?_, List.pairwise_cons.mpr h⟩
      intro x hx
      simp only [List.mem_cons] at hx
      rcases hx with rfl | hx
      · omega
      · have := h.1 x hx; omega

theorem pairwise_sortByKey {α : Type} (key : α → Nat) :
    ∀ (l : List α), (sortByKey key l).Pairwise (fun x y => key x ≤ key y)
  | [] => by simp [sortByKey]
  | a :: as => by simp only [sortByKey]; exact pairwise_insertByKey key a _ (pairwise_sortByKey key as)

/-- `t₁ ++ (t₂ ++ (… ++ ""))` -/
def concatTexts (texts : List String) : String := texts.foldr (fun t acc => t ++ acc) ""

theorem joinParts_texts (S : Sem ν) : ∀ (pvs : List (Value ν × Option (Option String))) (texts : List String),
    pvs.map (partText S) = texts.map Res.ok → joinParts S pvs = .ok (concatTexts texts) := by
  intro pvs
  induction pvs with
  | nil => intro texts h; cases texts <;> simp_all [joinParts, concatTexts]
  | cons p ps ih =>
    intro texts h
    cases texts with
    | nil => simp at h
    | cons t ts =>
      simp only [List.map_cons, List.cons.injEq] at h
      simp [joinParts, ih ts h.2, h.1, concatTexts]

end NumbatModel.VM
