import NumbatModel.Props.C03
import NumbatModel.Lemmas.QtyCanon
set_option linter.unusedSectionVars false
/-!
Turning a regenerated unit table (`Gen/UnitTable.lean`: rows of plain data) into a `Table α`, and the
decidable checks on the plain data that discharge the hypotheses `WF` and `PosTbl` of the quantity theorems.
-/
namespace NumbatModel.Qty
open NumOps LawfulNum

abbrev RawRow := Bool × Nat × List (Nat × Bool × Int × Int × Nat)

def rawFactor (f : Nat × Bool × Int × Int × Nat) : Factor :=
  ⟨f.1, ⟨f.2.1, f.2.2.1⟩, mkRat f.2.2.2.1 f.2.2.2.2⟩

def rowToDef {α : Type} (decode : Nat → α) (name : String) (r : RawRow) : UnitDef α :=
  ⟨name, r.1, decode r.2.1, r.2.2.map rawFactor⟩

def toTable {α : Type} (decode : Nat → α) (names : List String) (rows : List RawRow) : Table α :=
  List.zipWith (rowToDef decode) names rows

/-- a positive finite binary64 bit pattern -/
def posBits (b : Nat) : Bool := 0 < b && b < 0x7FF0000000000000

/-- every definition refers to earlier rows only -/
def wfCheckFrom : Nat → List RawRow → Bool
  | _, [] => true
  | i, r :: rs => r.2.2.all (fun f => f.1 < i) && wfCheckFrom (i + 1) rs

def wfCheck (rows : List RawRow) : Bool := wfCheckFrom 0 rows

def posCheck (rows : List RawRow) : Bool := rows.all (fun r => posBits r.2.1)

theorem wfCheckFrom_get (rows : List RawRow) (i k : Nat) (r : RawRow) (h : wfCheckFrom i rows = true)
    (hr : rows[k]? = some r) : ∀ f ∈ r.2.2, f.1 < i + k := by
  induction rows generalizing i k with
  | nil => simp at hr
  | cons x xs ih =>
    simp only [wfCheckFrom, Bool.and_eq_true] at h
    cases k with
    | zero =>
      simp at hr; subst hr
      intro f hf
      have := List.all_eq_true.mp h.1 f hf
      simpa using this
    | succ k =>
      simp at hr
      intro f hf
      have := ih (i + 1) k h.2 hr f hf
      omega

variable {α : Type} [NumOps α]

theorem toTable_get (decode : Nat → α) (names : List String) (rows : List RawRow) (id : Nat) (d : UnitDef α)
    (h : (toTable decode names rows)[id]? = some d) :
    ∃ n r, names[id]? = some n ∧ rows[id]? = some r ∧ d = rowToDef decode n r := by
  unfold toTable at h
  rw [List.getElem?_zipWith] at h
  cases hn : names[id]? with
  | none => simp [hn] at h
  | some n =>
    cases hr : rows[id]? with
    | none => simp [hn, hr] at h
    | some r =>
      simp [hn, hr] at h
      exact ⟨n, r, rfl, rfl, h.symm⟩

theorem wf_of_check (decode : Nat → α) (names : List String) (rows : List RawRow)
    (h : wfCheck rows = true) : WF (toTable decode names rows) := by
  intro id d hd f hf
  obtain ⟨n, r, _, hr, rfl⟩ := toTable_get decode names rows id d hd
  simp only [rowToDef, List.mem_map] at hf
  obtain ⟨g, hg, rfl⟩ := hf
  have := wfCheckFrom_get rows 0 id r h hr g hg
  simpa [rawFactor] using this

theorem names_distinct_of_nodup (decode : Nat → α) (names : List String) (rows : List RawRow)
    (h : names.Nodup) : NamesDistinct (toTable decode names rows) := by
  intro i j di dj hi hj hname
  obtain ⟨ni, ri, hni, _, rfl⟩ := toTable_get decode names rows i di hi
  obtain ⟨nj, rj, hnj, _, rfl⟩ := toTable_get decode names rows j dj hj
  simp only [rowToDef] at hname
  subst hname
  obtain ⟨hil, hie⟩ := List.getElem?_eq_some_iff.mp hni
  obtain ⟨hjl, hje⟩ := List.getElem?_eq_some_iff.mp hnj
  exact (List.getElem_inj h).mp (hie.trans hje.symm)

variable [Lean.Grind.Field α] [L : LawfulNum α]

theorem pos_of_check (decode : Nat → α) (hdec : ∀ b, posBits b = true → Pos (decode b))
    (names : List String) (rows : List RawRow) (h : posCheck rows = true) :
    PosTbl (toTable decode names rows) := by
  apply posTbl_of_rows
  intro d hd
  obtain ⟨id, hid⟩ := List.getElem?_of_mem hd
  obtain ⟨n, r, _, hr, rfl⟩ := toTable_get decode names rows id d hid
  simp only [rowToDef]
  apply hdec
  exact List.all_eq_true.mp h r (List.mem_of_getElem? hr)

end NumbatModel.Qty
