import NumbatModel.Model.SessionNames
/-!
Helper lemmas about `Model/Session.lean` (used by `Props/C06.lean`, `Props/C07.lean`).
-/
namespace NumbatModel.Session

variable {μ κ σ τ θ T C V E ν ω : Type} [DecidableEq μ]

omit [DecidableEq μ] in
@[simp] theorem addCodeSource_imported (r : Resolver μ) (src : Source μ) :
    (r.addCodeSource src).1.imported = r.imported := by
  cases src <;> rfl

omit [DecidableEq μ] in
theorem restoreImports_imported (fix : Bool) (r : Resolver μ) (old : List μ) :
    (restoreImports fix r old).imported = if fix then old else r.imported := by
  cases fix <;> rfl

/-- the parser does not look at the source id (spans only carry it along) -/
def LabelFree (P : Stages μ κ σ τ θ T C V E ν ω) : Prop := ∀ code i j, P.parse code i = P.parse code j

/-- two resolver results agree on everything but the file table and the counters -/
def ResEq (x y : ResolveResult μ σ E) : Prop := x.1.imported = y.1.imported ∧ x.2 = y.2

theorem inlineAt_obs (P : Stages μ κ σ τ θ T C V E ν ω) (hP : LabelFree P)
    (nested nested' : Resolver μ → List (Stmt μ σ) → ResolveResult μ σ E)
    (hn : ∀ r r' prog, r.imported = r'.imported → ResEq (nested r prog) (nested' r' prog)) :
    ∀ (prog : List (Stmt μ σ)) (r r' : Resolver μ), r.imported = r'.imported →
      ResEq (inlineAt P nested r prog) (inlineAt P nested' r' prog) := by
  intro prog
  induction prog with
  | nil => intro r r' h; exact ⟨h, rfl⟩
  | cons st rest ih =>
    intro r r' h
    cases st with
    | other s =>
      have := ih r r' h
      simp only [inlineAt]
      revert this
      cases inlineAt P nested r rest with
      | mk a ra =>
        cases inlineAt P nested' r' rest with
        | mk b rb =>
          intro ⟨h1, h2⟩
          simp only at h1 h2
          subst h2
          cases ra <;> exact ⟨h1, rfl⟩
    | use m =>
      simp only [inlineAt, h]
      split
      · exact ih r r' h
      · cases P.importer m with
        | none => exact ⟨h, rfl⟩
        | some code =>
          simp only []
          have hid := hP code
            (({ r with imported := r'.imported ++ [m] } : Resolver μ).addCodeSource (.module m)).2
            (({ r' with imported := r'.imported ++ [m] } : Resolver μ).addCodeSource (.module m)).2
          rw [hid]
          cases P.parse code
              (({ r' with imported := r'.imported ++ [m] } : Resolver μ).addCodeSource (.module m)).2 with
          | error e => exact ⟨by simp, rfl⟩
          | ok prog =>
            simp only []
            have h2 := hn
              (({ r with imported := r'.imported ++ [m] } : Resolver μ).addCodeSource (.module m)).1
              (({ r' with imported := r'.imported ++ [m] } : Resolver μ).addCodeSource (.module m)).1 prog
              (by simp)
            revert h2
            cases nested (({ r with imported := r'.imported ++ [m] } : Resolver μ).addCodeSource (.module m)).1 prog with
            | mk a ra =>
              cases nested' (({ r' with imported := r'.imported ++ [m] } : Resolver μ).addCodeSource (.module m)).1 prog with
              | mk b rb =>
                intro ⟨h1, h2⟩
                simp only at h1 h2
                subst h2
                cases ra with
                | error e => exact ⟨h1, rfl⟩
                | ok inl =>
                  simp only []
                  have h3 := ih a b h1
                  revert h3
                  cases inlineAt P nested a rest with
                  | mk a2 ra2 =>
                    cases inlineAt P nested' b rest with
                    | mk b2 rb2 =>
                      intro ⟨h4, h5⟩
                      simp only at h4 h5
                      subst h5
                      cases ra2 <;> exact ⟨h4, rfl⟩

theorem inline_obs (P : Stages μ κ σ τ θ T C V E ν ω) (hP : LabelFree P) :
    ∀ (d : Nat) (r r' : Resolver μ) (prog : List (Stmt μ σ)), r.imported = r'.imported →
      ResEq (inline P d r prog) (inline P d r' prog) := by
  intro d
  induction d with
  | zero =>
    intro r r' prog h
    exact inlineAt_obs P hP _ _ (fun a b _ hab => by simp [ResEq, hab]) prog r r' h
  | succ d ih =>
    intro r r' prog h
    exact inlineAt_obs P hP _ _ (fun a b p hab => ih a b p hab) prog r r' h

theorem resolve_obs (P : Stages μ κ σ τ θ T C V E ν ω) (hP : LabelFree P) (r r' : Resolver μ) (code : κ)
    (src : Source μ) (h : r.imported = r'.imported) :
    ResEq (resolve P r code src) (resolve P r' code src) := by
  unfold resolve
  simp only []
  rw [hP code (r.addCodeSource src).2 (r'.addCodeSource src).2]
  cases P.parse code (r'.addCodeSource src).2 with
  | error e => exact ⟨by simp [h], rfl⟩
  | ok prog => exact inline_obs P hP _ _ _ prog (by simp [h])


theorem interpretG_obs (fix : Bool) (P : Stages μ κ σ τ θ T C V E ν ω) (hP : LabelFree P)
    (a b : Session μ T C V) (code : κ) (src : Source μ) (h : ObsEq a b) :
    ObsEq (interpretG fix P a code src).1 (interpretG fix P b code src).1 ∧
      (interpretG fix P a code src).2 = (interpretG fix P b code src).2 := by
  obtain ⟨ra, ta, ca, va⟩ := a
  obtain ⟨rb, tb, cb, vb⟩ := b
  obtain ⟨hi, ht, hc, hv⟩ := h
  simp only at hi ht hc hv
  subst ht hc hv
  have hr := resolve_obs P hP ra rb code src hi
  unfold interpretG
  simp only []
  revert hr
  cases resolve P ra code src with
  | mk r1 x1 =>
    cases resolve P rb code src with
    | mk r2 x2 =>
      intro ⟨h1, h2⟩
      simp only at h1 h2
      subst h2
      have hrest : (restoreImports fix r1 ra.imported).imported = (restoreImports fix r2 rb.imported).imported := by
        cases fix <;> simp [restoreImports, hi, h1]
      cases x1 with
      | error e => exact ⟨⟨hrest, rfl, rfl, rfl⟩, rfl⟩
      | ok stmts =>
        simp only []
        cases P.transform ta stmts with
        | mk t1 rt =>
          cases rt with
          | error e => exact ⟨⟨hrest, rfl, rfl, rfl⟩, rfl⟩
          | ok ts =>
            simp only []
            cases P.check ca ts with
            | mk c1 rc =>
              cases rc with
              | error e => exact ⟨⟨hrest, rfl, rfl, rfl⟩, rfl⟩
              | ok typed =>
                simp only []
                cases P.run va t1 c1 typed with
                | mk v1 rest =>
                  cases rest with
                  | mk out rr =>
                    cases rr with
                    | error e => exact ⟨⟨hrest, rfl, rfl, rfl⟩, rfl⟩
                    | ok res => exact ⟨⟨h1, rfl, rfl, rfl⟩, rfl⟩

omit [DecidableEq μ] in
theorem ObsEq.refl (a : Session μ T C V) : ObsEq a a := ⟨rfl, rfl, rfl, rfl⟩

omit [DecidableEq μ] in
theorem ObsEq.symm {a b : Session μ T C V} (h : ObsEq a b) : ObsEq b a :=
  ⟨h.1.symm, h.2.1.symm, h.2.2.1.symm, h.2.2.2.symm⟩

omit [DecidableEq μ] in
theorem ObsEq.trans {a b c : Session μ T C V} (h : ObsEq a b) (g : ObsEq b c) : ObsEq a c :=
  ⟨h.1.trans g.1, h.2.1.trans g.2.1, h.2.2.1.trans g.2.2.1, h.2.2.2.trans g.2.2.2⟩

theorem runHistG_append (fix : Bool) (P : Stages μ κ σ τ θ T C V E ν ω) (s : Session μ T C V)
    (h₁ h₂ : List (κ × Source μ)) :
    runHistG fix P s (h₁ ++ h₂) =
      ((runHistG fix P (runHistG fix P s h₁).1 h₂).1, (runHistG fix P s h₁).2 ++ (runHistG fix P (runHistG fix P s h₁).1 h₂).2) := by
  induction h₁ generalizing s with
  | nil => simp [runHistG]
  | cons i rest ih =>
    simp only [List.cons_append, runHistG]
    rw [ih]


/-! ### what is not snapshotted: the counters and the file table -/

/-- `r'` has the same counters as `r` and its file table extends `r`'s -/
def Extends (r r' : Resolver μ) : Prop :=
  r'.textCount = r.textCount ∧ r'.internalCount = r.internalCount ∧ ∃ extra, r'.files = r.files ++ extra

omit [DecidableEq μ] in
theorem Extends.refl (r : Resolver μ) : Extends r r := ⟨rfl, rfl, [], by simp⟩

omit [DecidableEq μ] in
theorem Extends.trans {a b c : Resolver μ} (h : Extends a b) (g : Extends b c) : Extends a c := by
  obtain ⟨h1, h2, x, hx⟩ := h
  obtain ⟨g1, g2, y, hy⟩ := g
  exact ⟨g1.trans h1, g2.trans h2, x ++ y, by rw [hy, hx, List.append_assoc]⟩

theorem inlineAt_extends (P : Stages μ κ σ τ θ T C V E ν ω)
    (nested : Resolver μ → List (Stmt μ σ) → ResolveResult μ σ E)
    (hn : ∀ r prog, Extends r (nested r prog).1) :
    ∀ (prog : List (Stmt μ σ)) (r : Resolver μ), Extends r (inlineAt P nested r prog).1 := by
  intro prog
  induction prog with
  | nil => intro r; exact Extends.refl r
  | cons st rest ih =>
    intro r
    cases st with
    | other s =>
      have := ih r
      simp only [inlineAt]
      revert this
      cases inlineAt P nested r rest with
      | mk a ra => cases ra <;> exact id
    | use m =>
      simp only [inlineAt]
      split
      · exact ih r
      · cases P.importer m with
        | none => exact Extends.refl r
        | some code =>
          simp only []
          have h0 : Extends r (({ r with imported := r.imported ++ [m] } : Resolver μ).addCodeSource (.module m)).1 :=
            ⟨rfl, rfl, [.module m], rfl⟩
          cases P.parse code (({ r with imported := r.imported ++ [m] } : Resolver μ).addCodeSource (.module m)).2 with
          | error e => exact h0
          | ok prog =>
            simp only []
            have h1 := hn (({ r with imported := r.imported ++ [m] } : Resolver μ).addCodeSource (.module m)).1 prog
            revert h1
            cases nested (({ r with imported := r.imported ++ [m] } : Resolver μ).addCodeSource (.module m)).1 prog with
            | mk a ra =>
              intro h1
              cases ra with
              | error e => exact h0.trans h1
              | ok inl =>
                simp only []
                have h2 := ih a
                revert h2
                cases inlineAt P nested a rest with
                | mk b rb => intro h2; cases rb <;> exact (h0.trans h1).trans h2

theorem inline_extends (P : Stages μ κ σ τ θ T C V E ν ω) :
    ∀ (d : Nat) (r : Resolver μ) (prog : List (Stmt μ σ)), Extends r (inline P d r prog).1 := by
  intro d
  induction d with
  | zero => intro r prog; exact inlineAt_extends P _ (fun a _ => Extends.refl a) prog r
  | succ d ih => intro r prog; exact inlineAt_extends P _ (fun a p => ih a p) prog r


theorem resolve_text (P : Stages μ κ σ τ θ T C V E ν ω) (r : Resolver μ) (code : κ) :
    (resolve P r code .text).1.textCount = r.textCount + 1 ∧
      ∃ extra, (resolve P r code .text).1.files = r.files ++ .input (r.textCount + 1) :: extra := by
  unfold resolve
  simp only [Resolver.addCodeSource]
  cases P.parse code r.files.length with
  | error e => exact ⟨rfl, [], by simp⟩
  | ok prog =>
    simp only []
    obtain ⟨h1, _, x, hx⟩ := inline_extends P P.depth
      ({ r with textCount := r.textCount + 1, files := r.files ++ [.input (r.textCount + 1)] } : Resolver μ) prog
    exact ⟨h1, x, by rw [hx]; simp⟩

/-- the resolver with which `interpretG` ends is the one `resolve` returned, up to `imported` -/
theorem interpretG_resolver (fix : Bool) (P : Stages μ κ σ τ θ T C V E ν ω) (s : Session μ T C V) (code : κ)
    (src : Source μ) :
    (interpretG fix P s code src).1.resolver.files = (resolve P s.resolver code src).1.files ∧
    (interpretG fix P s code src).1.resolver.textCount = (resolve P s.resolver code src).1.textCount ∧
    (interpretG fix P s code src).1.resolver.internalCount = (resolve P s.resolver code src).1.internalCount := by
  unfold interpretG
  simp only []
  cases resolve P s.resolver code src with
  | mk r1 res =>
    cases res with
    | error e1 => cases fix <;> simp [restoreImports]
    | ok stmts =>
      simp only []
      cases P.transform s.transformer stmts with
      | mk t1 rt =>
        cases rt with
        | error e2 => cases fix <;> simp [restoreImports]
        | ok ts =>
          simp only []
          cases P.check s.checker ts with
          | mk c1 rc =>
            cases rc with
            | error e3 => cases fix <;> simp [restoreImports]
            | ok typed =>
              simp only []
              cases P.run s.interp t1 c1 typed with
              | mk v1 rest =>
                cases rest with
                | mk out rr =>
                  cases rr with
                  | error e4 => cases fix <;> simp [restoreImports]
                  | ok res => simp

end NumbatModel.Session
