import NumbatModel.Model.ListM
/-! Helper lemmas for C18 (core only). -/
namespace NumbatModel.ListM

variable {α : Type}

/-- the view invariant of one handle -/
def HandleOK (allocs : List (List α)) (hd : Handle) : Prop :=
  hd.alloc < allocs.length ∧
    ∀ s e, hd.view = some (s, e) → s ≤ e ∧ e = (allocOf allocs hd.alloc).length

/-- every live handle points at an existing allocation and every view is `start ≤ end = alloc.len()` -/
def Inv (h : Heap α) : Prop := ∀ (k : Nat) (hd : Handle), h.live[k]? = some (some hd) → HandleOK h.allocs hd

theorem get_eq_some {h : Heap α} {k : Nat} {hd : Handle} :
    h.get k = some hd ↔ h.live[k]? = some (some hd) := by
  unfold Heap.get
  cases hk : h.live[k]? with
  | none => simp
  | some o => cases o <;> simp

theorem get_eq_none_abs {h : Heap α} {k : Nat} (hn : h.get k = none) : Spec.get h.abs k = none := by
  unfold Heap.get at hn
  unfold Spec.get Heap.abs
  rw [List.getElem?_map]
  cases hk : h.live[k]? with
  | none => simp
  | some o => cases o with
    | none => simp
    | some hd => simp [hk] at hn

theorem get_some_abs {h : Heap α} {k : Nat} {hd : Handle} (hs : h.get k = some hd) :
    Spec.get h.abs k = some (contents h.allocs hd) := by
  rw [get_eq_some] at hs
  unfold Spec.get Heap.abs
  rw [List.getElem?_map, hs]; rfl

theorem lt_of_get {h : Heap α} {k : Nat} {hd : Handle} (hs : h.live[k]? = some (some hd)) :
    k < h.live.length := by
  have := List.getElem?_eq_some_iff.mp hs
  exact this.1

/-- uniqueness from a count of one -/
theorem countP_one_unique {β : Type} (p : β → Bool) :
    ∀ (l : List β) (i j : Nat) (x y : β), l.countP p = 1 → l[i]? = some x → p x = true →
      l[j]? = some y → p y = true → i = j := by
  intro l
  induction l with
  | nil => intro i j x y h; simp at h
  | cons a t ih =>
    intro i j x y hc hi hx hj hy
    rw [List.countP_cons] at hc
    cases i with
    | zero =>
      cases j with
      | zero => rfl
      | succ j =>
        simp at hi; subst hi
        simp [hx] at hc
        simp at hj
        have := hc y (List.mem_of_getElem? hj)
        simp [hy] at this
    | succ i =>
      cases j with
      | zero =>
        simp at hj; subst hj
        simp [hy] at hc
        simp at hi
        have := hc x (List.mem_of_getElem? hi)
        simp [hx] at this
      | succ j =>
        simp at hi hj
        by_cases hpa : p a = true
        · simp [hpa] at hc
          have := hc x (List.mem_of_getElem? hi)
          simp [hx] at this
        · simp [hpa] at hc
          have := ih i j x y hc hi hx hj hy
          omega

theorem allocOf_set_ne {allocs : List (List α)} {a b : Nat} {v : List α} (hne : a ≠ b) :
    allocOf (allocs.set a v) b = allocOf allocs b := by
  unfold allocOf; rw [List.getElem?_set_ne hne]

theorem allocOf_set_self {allocs : List (List α)} {a : Nat} {v : List α} (hlt : a < allocs.length) :
    allocOf (allocs.set a v) a = v := by
  unfold allocOf; rw [List.getElem?_set_self hlt]; rfl

theorem allocOf_append_left {allocs : List (List α)} {a : Nat} {v : List α} (hlt : a < allocs.length) :
    allocOf (allocs ++ [v]) a = allocOf allocs a := by
  unfold allocOf; rw [List.getElem?_append_left hlt]

theorem allocOf_append_new {allocs : List (List α)} {v : List α} :
    allocOf (allocs ++ [v]) allocs.length = v := by
  unfold allocOf; simp

theorem contents_set_ne {allocs : List (List α)} {a : Nat} {v : List α} {hd : Handle}
    (hne : a ≠ hd.alloc) : contents (allocs.set a v) hd = contents allocs hd := by
  unfold contents; rw [allocOf_set_ne hne]

theorem contents_append_left {allocs : List (List α)} {v : List α} {hd : Handle}
    (hlt : hd.alloc < allocs.length) : contents (allocs ++ [v]) hd = contents allocs hd := by
  unfold contents; rw [allocOf_append_left hlt]

theorem handleOK_append_left {allocs : List (List α)} {v : List α} {hd : Handle}
    (h : HandleOK allocs hd) : HandleOK (allocs ++ [v]) hd := by
  refine ⟨by have := h.1; simp; omega, ?_⟩
  intro s e hv
  rw [allocOf_append_left h.1]
  exact h.2 s e hv

theorem handleOK_set_ne {allocs : List (List α)} {a : Nat} {v : List α} {hd : Handle}
    (hne : a ≠ hd.alloc) (h : HandleOK allocs hd) : HandleOK (allocs.set a v) hd := by
  refine ⟨by have := h.1; simpa using this, ?_⟩
  intro s e hv
  rw [allocOf_set_ne hne]
  exact h.2 s e hv


/-- what a handle with view `v` sees of allocation contents `al` -/
def viewOf (al : List α) : Option (Nat × Nat) → List α
  | none => al
  | some (s, e) => (al.drop s).take (e - s)

theorem contents_eq_viewOf (allocs : List (List α)) (hd : Handle) :
    contents allocs hd = viewOf (allocOf allocs hd.alloc) hd.view := by
  unfold contents viewOf
  cases hd.view with
  | none => rfl
  | some p => cases p; rfl

theorem set_self {β : Type} {l : List β} {k : Nat} {v : β} (h : l[k]? = some v) : l.set k v = l := by
  apply List.ext_getElem?
  intro i
  rw [List.getElem?_set]
  by_cases hki : k = i
  · subst hki
    obtain ⟨hlt, hv⟩ := List.getElem?_eq_some_iff.mp h
    simp [hlt, hv]
  · simp [hki]

/-- slot `k` is the only live handle on allocation `a` -/
def Excl (h : Heap α) (k : Nat) (a : Nat) : Prop :=
  ∀ (j : Nat) (hdj : Handle), h.live[j]? = some (some hdj) → hdj.alloc = a → j = k

theorem makeMut_spec (h : Heap α) (k : Nat) (hd0 : Handle) (hi : Inv h)
    (hk : h.live[k]? = some (some hd0)) :
    Inv (makeMut h k hd0).1 ∧ (makeMut h k hd0).1.abs = h.abs ∧
      (makeMut h k hd0).1.live[k]? = some (some (makeMut h k hd0).2) ∧
      Excl (makeMut h k hd0).1 k (makeMut h k hd0).2.alloc ∧
      contents (makeMut h k hd0).1.allocs (makeMut h k hd0).2 = contents h.allocs hd0 := by
  have hklt := lt_of_get hk
  unfold makeMut
  by_cases hs : h.strong hd0.alloc = 1
  · simp only [hs, bne_self_eq_false, Bool.false_eq_true, if_false]
    refine ⟨hi, trivial, hk, ?_, trivial⟩
    intro j hdj hj ha
    exact countP_one_unique (isOn hd0.alloc) h.live j k (some hdj) (some hd0) hs hj
      (by simp [isOn, ha]) hk (by simp [isOn])
  · have hs' : (h.strong hd0.alloc != 1) = true := by simp [hs]
    simp only [hs', if_true]
    refine ⟨?_, ?_, ?_, ?_, ?_⟩
    · intro j hdj hj
      rw [List.getElem?_set] at hj
      by_cases hkj : k = j
      · simp [hkj] at hj
        have hj2 := hj.2
        subst hj2
        exact ⟨by simp, by intro s e hv; simp at hv⟩
      · simp [hkj] at hj
        exact handleOK_append_left (hi j hdj hj)
    · unfold Heap.abs
      apply List.ext_getElem?
      intro j
      simp only [List.getElem?_map, List.getElem?_set]
      by_cases hkj : k = j
      · subst hkj
        simp only [if_true, hklt, hk, Option.map]
        simp [contents, allocOf_append_new]
      · simp only [hkj, if_false]
        cases hj : h.live[j]? with
        | none => rfl
        | some o =>
          cases o with
          | none => rfl
          | some hdj =>
            simp only [Option.map]
            rw [contents_append_left (hi j hdj hj).1]
    · simp [hklt]
    · intro j hdj hj ha
      rw [List.getElem?_set] at hj
      by_cases hkj : k = j
      · exact hkj.symm
      · simp [hkj] at hj
        have := (hi j hdj hj).1
        omega
    · simp [contents, allocOf_append_new]

/-- in-place mutation of an exclusively owned allocation: only slot `k` changes -/
theorem mutate_spec (h : Heap α) (k : Nat) (hd : Handle) (v' : Option (Nat × Nat)) (al' : List α)
    (hi : Inv h) (hk : h.live[k]? = some (some hd)) (hex : Excl h k hd.alloc)
    (hok : ∀ s e, v' = some (s, e) → s ≤ e ∧ e = al'.length) :
    Inv (⟨h.allocs.set hd.alloc al', h.live.set k (some ⟨hd.alloc, v'⟩)⟩ : Heap α) ∧
    (⟨h.allocs.set hd.alloc al', h.live.set k (some ⟨hd.alloc, v'⟩)⟩ : Heap α).abs
      = h.abs.set k (some (viewOf al' v')) := by
  have hklt := lt_of_get hk
  have halt := (hi k hd hk).1
  constructor
  · intro j hdj hj
    simp only at hj
    rw [List.getElem?_set] at hj
    by_cases hkj : k = j
    · simp [hkj] at hj
      have hj2 := hj.2
      subst hj2
      refine ⟨by simpa using halt, ?_⟩
      intro s e hv
      simp only at hv
      rw [allocOf_set_self halt]
      exact hok s e hv
    · simp [hkj] at hj
      have hne : hd.alloc ≠ hdj.alloc := by
        intro heq
        exact hkj (hex j hdj hj heq.symm).symm
      exact handleOK_set_ne hne (hi j hdj hj)
  · unfold Heap.abs
    apply List.ext_getElem?
    intro j
    simp only [List.getElem?_map, List.getElem?_set, List.length_map]
    by_cases hkj : k = j
    · subst hkj
      simp only [if_true, hklt, Option.map]
      rw [contents_eq_viewOf, allocOf_set_self halt]
    · simp only [hkj, if_false]
      cases hj : h.live[j]? with
      | none => rfl
      | some o =>
        cases o with
        | none => rfl
        | some hdj =>
          simp only [Option.map]
          have hne : hd.alloc ≠ hdj.alloc := by
            intro heq
            exact hkj (hex j hdj hj heq.symm).symm
          rw [contents_set_ne hne]


theorem viewOf_pf_zero (al : List α) (x : α) (e : Nat) :
    viewOf (x :: al) (some (0, e + 1)) = x :: viewOf al (some (0, e)) := by
  simp [viewOf]

theorem viewOf_pf_pos (al : List α) (x : α) (s e : Nat) (hs : 0 < s) (hse : s ≤ e) (he : e = al.length) :
    viewOf (al.set (s - 1) x) (some (s - 1, e)) = x :: viewOf al (some (s, e)) := by
  unfold viewOf
  simp only
  have h1 : s - 1 < (al.set (s - 1) x).length := by simp; omega
  rw [List.drop_eq_getElem_cons h1]
  have h2 : e - (s - 1) = (e - s) + 1 := by omega
  rw [h2, List.take_succ_cons]
  have h3 : s - 1 + 1 = s := by omega
  rw [h3, List.drop_set]
  simp [show s - 1 < s by omega]

theorem viewOf_pb (al : List α) (x : α) (s e : Nat) (hse : s ≤ e) (he : e = al.length) :
    viewOf (al ++ [x]) (some (s, e + 1)) = viewOf al (some (s, e)) ++ [x] := by
  unfold viewOf
  simp only
  subst he
  rw [List.drop_append, List.take_append]
  have h1 : s - al.length = 0 := by omega
  have h2 : (List.drop s al).length = al.length - s := by simp
  rw [h1, h2, List.take_of_length_le (by simp; omega), List.take_of_length_le (by simp; omega)]
  simp
  rw [List.take_of_length_le (by simp)]

theorem viewOf_tail_some (al : List α) (s e : Nat) :
    viewOf al (some (s + 1, e)) = (viewOf al (some (s, e))).tail := by
  unfold viewOf
  simp only
  rw [← List.drop_one, List.drop_take, List.drop_drop]
  congr 1

theorem viewOf_tail_none (al : List α) :
    viewOf al (some (1, al.length)) = al.tail := by
  unfold viewOf
  simp only
  rw [List.take_of_length_le (by simp)]
  simp

theorem viewOf_head (al : List α) (s e : Nat) (_hse : s ≤ e) (he : e = al.length) :
    (viewOf al (some (s, e))).head? = al[s]? := by
  unfold viewOf
  simp only
  rw [List.head?_take]
  by_cases h : e - s = 0
  · simp [h]; omega
  · simp [h]

/-- the length a handle reports is the length of what it holds (for handles that satisfy the invariant) -/
theorem lenOf_eq_length {allocs : List (List α)} {hd : Handle} (hk : HandleOK allocs hd) :
    lenOf allocs hd = (contents allocs hd).length := by
  unfold lenOf contents
  cases hv : hd.view with
  | none => rfl
  | some se =>
    obtain ⟨s, e⟩ := se
    obtain ⟨hse, he⟩ := hk.2 s e hv
    simp only [List.length_take, List.length_drop]
    omega

theorem zip_all_eq_seqEq (beq : α → α → Bool) :
    ∀ (xs ys : List α), xs.length = ys.length →
      (xs.zip ys).all (fun p => beq p.1 p.2) = seqEq beq xs ys
  | [], [], _ => rfl
  | x :: xs, y :: ys, h => by
    have h' : xs.length = ys.length := by simpa using h
    simp [seqEq, zip_all_eq_seqEq beq xs ys h']
  | [], _ :: _, h => by simp at h
  | _ :: _, [], h => by simp at h

theorem seqEq_length {beq : α → α → Bool} :
    ∀ {xs ys : List α}, seqEq beq xs ys = true → xs.length = ys.length
  | [], [], _ => rfl
  | x :: xs, y :: ys, h => by
    simp only [seqEq, Bool.and_eq_true] at h
    simp [seqEq_length h.2]
  | [], _ :: _, h => by simp [seqEq] at h
  | _ :: _, [], h => by simp [seqEq] at h

end NumbatModel.ListM
