import NumbatModel.Lemmas.QtyCanon
import NumbatModel.Props.C03
set_option linter.unusedSectionVars false
/-!
Why the `unwrap` of heuristic 3 of `full_simplify` cannot fail (C05 `simplify_total`): the factors of one group
have the same sort key, the sort key of a unit is its canonical base representation up to a non-zero scalar,
hence the base-unit vectors of the factors of a group are proportional, the target `rep^e` has the dimension
vector of the group, and conversions between units of equal dimension vector succeed (`convComplete`).
-/
namespace NumbatModel.Qty
open NumOps

/-! ### the sort key is the base representation scaled by a non-zero constant -/

/-- stages 2 and 3 of `sort_key`: multiply by the product of the denominators, divide by the gcd of the numerators -/
def stage23 (key : List (String × Rat)) : List (String × Rat) :=
  let factor : Int := key.foldl (fun acc p => acc * (p.2.den : Int)) 1
  let key := key.map (fun p => (p.1, p.2 * (factor : Rat)))
  let g : Nat := gcdList (key.map (fun p => p.2.num))
  key.map (fun p => (p.1, p.2 / ((g : Int) : Rat)))

def normKey (key : List (String × Rat)) : List (String × Rat) :=
  match key with
  | [] => []
  | (_, e0) :: _ => stage23 (if e0 < 0 then key.map (fun p => (p.1, -p.2)) else key)

theorem sortKeyOfBase_eq (names : Nat → String) (base : Unit) :
    sortKeyOfBase names base = normKey (base.map (fun f => (names f.unit, f.exp))) := by
  unfold sortKeyOfBase normKey stage23
  cases base <;> rfl

theorem foldl_den_pos (l : List (String × Rat)) (a : Int) (ha : 0 < a) :
    0 < l.foldl (fun acc p => acc * (p.2.den : Int)) a := by
  induction l generalizing a with
  | nil => simpa
  | cons p ps ih =>
    simp only [List.foldl_cons]
    apply ih
    have : (0 : Int) < (p.2.den : Int) := by
      have := p.2.den_pos
      omega
    exact Int.mul_pos ha this

theorem gcdList_ne_zero (x : Int) (xs : List Int) (hx : x ≠ 0) : gcdList (x :: xs) ≠ 0 := by
  simp only [gcdList]
  intro h
  have := Nat.eq_zero_of_gcd_eq_zero_left h
  omega

theorem stage23_scaled (n : String) (e : Rat) (r : List (String × Rat)) (he : e ≠ 0) :
    ∃ c : Rat, c ≠ 0 ∧ stage23 ((n, e) :: r) = ((n, e) :: r).map (fun p => (p.1, p.2 * c)) := by
  unfold stage23
  generalize hfac : List.foldl (fun acc (p : String × Rat) => acc * (p.2.den : Int)) 1 ((n, e) :: r) = factor
  have hfpos : 0 < factor := by rw [← hfac]; exact foldl_den_pos _ 1 (by decide)
  have hf0 : (factor : Rat) ≠ 0 := by
    intro h
    have : factor = 0 := by exact_mod_cast h
    omega
  simp only
  generalize hg : gcdList (List.map (fun p : String × Rat => p.2.num)
    (List.map (fun p : String × Rat => (p.1, p.2 * (factor : Rat))) ((n, e) :: r))) = g
  have hg0 : g ≠ 0 := by
    rw [← hg]
    simp only [List.map_cons]
    apply gcdList_ne_zero
    intro hnum
    have hz : e * (factor : Rat) = 0 := Rat.num_eq_zero.mp hnum
    grind
  have hgq : (((g : Int) : Rat)) ≠ 0 := by
    intro h
    have : (g : Int) = 0 := by exact_mod_cast h
    omega
  refine ⟨(factor : Rat) / ((g : Int) : Rat), ?_, ?_⟩
  · intro h; grind
  · rw [List.map_map]
    apply List.map_congr_left
    intro x _
    simp only [Function.comp]
    congr 1
    grind

/-- for a non-empty key whose first exponent is not zero, `sort_key` multiplies every exponent by one non-zero
constant -/
theorem normKey_scaled (n : String) (e : Rat) (r : List (String × Rat)) (he : e ≠ 0) :
    ∃ c : Rat, c ≠ 0 ∧ normKey ((n, e) :: r) = ((n, e) :: r).map (fun p => (p.1, p.2 * c)) := by
  unfold normKey
  simp only
  split
  · simp only [List.map_cons]
    obtain ⟨c, hc, h⟩ := stage23_scaled n (-e) (r.map (fun p => (p.1, -p.2))) (by grind)
    refine ⟨-c, by grind, ?_⟩
    rw [h]
    simp only [List.map_cons, List.map_map]
    congr 1
    · congr 1; grind
    · apply List.map_congr_left; intro x _; simp only [Function.comp]; congr 1; grind
  · exact stage23_scaled n e r he

/-! ### equal sort keys: proportional base-unit vectors -/

variable {α : Type} [NumOps α]

/-- first exponent of a base representation (`removed_exponent`), 1 for the empty one -/
def firstExp : Unit → Rat
  | [] => 1
  | g :: _ => g.exp

theorem scaled_keys_eq (tbl : Table α) (hn : NamesDistinct tbl) (c₁ c₂ : Rat) :
    ∀ (B₁ B₂ : Unit), ValidBase tbl B₁ → ValidBase tbl B₂ →
      B₁.map (fun g => (unitName tbl g.unit, g.exp * c₁)) = B₂.map (fun g => (unitName tbl g.unit, g.exp * c₂)) →
      ∀ b, vecOfBase B₁ b * c₁ = vecOfBase B₂ b * c₂ := by
  intro B₁
  induction B₁ with
  | nil =>
    intro B₂ _ _ h b
    cases B₂ with
    | nil => simp [vecOfBase]
    | cons g t => simp at h
  | cons f u ih =>
    intro B₂ h1 h2 h b
    cases B₂ with
    | nil => simp at h
    | cons g t =>
      simp only [List.map_cons, List.cons.injEq, Prod.mk.injEq] at h
      obtain ⟨⟨hname, hexp⟩, hrest⟩ := h
      have hu : f.unit = g.unit :=
        nameOf_inj tbl hn f g (h1 f List.mem_cons_self).2 (h2 g List.mem_cons_self).2 hname
      have := ih t (fun x hx => h1 x (List.mem_cons_of_mem _ hx)) (fun x hx => h2 x (List.mem_cons_of_mem _ hx)) hrest b
      simp only [vecOfBase, hu]
      split <;> grind

/-- two canonical base representations with the same sort key have proportional vectors, in the ratio of
their first exponents -/
theorem key_eq_proportional (tbl : Table α) (hn : NamesDistinct tbl) (B₁ B₂ : Unit)
    (h1 : Canonical tbl B₁) (h2 : Canonical tbl B₂)
    (hk : sortKeyOfBase (unitName tbl) B₁ = sortKeyOfBase (unitName tbl) B₂) :
    (∀ b, vecOfBase B₁ b * firstExp B₂ = vecOfBase B₂ b * firstExp B₁) ∧ firstExp B₁ ≠ 0 ∧ firstExp B₂ ≠ 0 := by
  rw [sortKeyOfBase_eq, sortKeyOfBase_eq] at hk
  cases B₁ with
  | nil =>
    cases B₂ with
    | nil => exact ⟨fun b => by simp [vecOfBase], by simp [firstExp], by simp [firstExp]⟩
    | cons g t =>
      exfalso
      obtain ⟨c, _, hc⟩ := normKey_scaled (unitName tbl g.unit) g.exp (t.map (fun f => (unitName tbl f.unit, f.exp)))
        (h2.nonzero g List.mem_cons_self)
      simp only [List.map_cons] at hk
      rw [hc] at hk
      simp [normKey] at hk
  | cons f u =>
    cases B₂ with
    | nil =>
      exfalso
      obtain ⟨c, _, hc⟩ := normKey_scaled (unitName tbl f.unit) f.exp (u.map (fun f => (unitName tbl f.unit, f.exp)))
        (h1.nonzero f List.mem_cons_self)
      simp only [List.map_cons] at hk
      rw [hc] at hk
      simp [normKey] at hk
    | cons g t =>
      have hf0 := h1.nonzero f List.mem_cons_self
      have hg0 := h2.nonzero g List.mem_cons_self
      obtain ⟨c₁, hc₁, e₁⟩ := normKey_scaled (unitName tbl f.unit) f.exp (u.map (fun f => (unitName tbl f.unit, f.exp))) hf0
      obtain ⟨c₂, hc₂, e₂⟩ := normKey_scaled (unitName tbl g.unit) g.exp (t.map (fun f => (unitName tbl f.unit, f.exp))) hg0
      simp only [List.map_cons] at hk
      rw [e₁, e₂] at hk
      have hk' : (f :: u).map (fun x => (unitName tbl x.unit, x.exp * c₁)) =
          (g :: t).map (fun x => (unitName tbl x.unit, x.exp * c₂)) := by
        simp only [List.map_cons, List.map_map] at hk ⊢
        exact hk
      have hv := scaled_keys_eq tbl hn c₁ c₂ (f :: u) (g :: t) h1.valid h2.valid hk'
      have hhead : f.exp * c₁ = g.exp * c₂ := by
        simp only [List.map_cons, List.cons.injEq, Prod.mk.injEq] at hk'
        exact hk'.1.2
      refine ⟨fun b => ?_, hf0, hg0⟩
      have := hv b
      simp only [firstExp]
      grind

/-! ### the sort key of a unit id is the scaled canonical base representation of that id -/

/-- canonical base representation of a unit id (what `removed_exponent` looks at) -/
def Bof (tbl : Table α) (id : Nat) : Unit := canonBase tbl (baseUnitAndFactor tbl tbl.length id).1

theorem canonical_Bof (tbl : Table α) (hn : NamesDistinct tbl) (id : Nat) : Canonical tbl (Bof tbl id) :=
  canonical_canonBase tbl hn _ (validBase_baseUnit tbl _ _)

theorem vec_Bof (tbl : Table α) (id : Nat) (b : Nat) : vecOfBase (Bof tbl id) b = idVec tbl id b := by
  unfold Bof idVec
  rw [vecOfBase_canonBase]

theorem removedExponent_eq (tbl : Table α) (f : Factor) : removedExponent tbl f = firstExp (Bof tbl f.unit) := by
  unfold removedExponent Bof firstExp
  split <;> simp_all

theorem canonBase_idem (tbl : Table α) (hn : NamesDistinct tbl) (l : Unit) (hv : ValidBase tbl l) :
    canonBase tbl (canonBase tbl l) = canonBase tbl l := by
  have hc := canonical_canonBase tbl hn l hv
  apply canonical_unique tbl hn _ _ (canonical_canonBase tbl hn _ hc.valid) hc
  intro b
  rw [vecOfBase_canonBase]

theorem foldl_congr_mem {β γ : Type} (g h : γ → β → γ) (l : List β) (a : γ) (hgh : ∀ acc, ∀ x ∈ l, g acc x = h acc x) :
    l.foldl g a = l.foldl h a := by
  induction l generalizing a with
  | nil => rfl
  | cons x xs ih =>
    simp only [List.foldl_cons]
    rw [hgh a x List.mem_cons_self]
    exact ih _ (fun acc y hy => hgh acc y (List.mem_cons_of_mem _ hy))

section lawful
variable [Lean.Grind.Field α] [L : LawfulNum α]

/-- the raw base representation of a derived unit id is the raw base representation of its definition -/
theorem baseUnit_derived (tbl : Table α) (hwf : WF tbl) (id : Nat) (d : UnitDef α) (hd : tbl[id]? = some d)
    (hb : d.isBase = false) : (baseUnitAndFactor tbl tbl.length id).1 = baseRepRaw tbl d.defn := by
  have hlt : id < tbl.length := (List.getElem?_eq_some_iff.mp hd).1
  cases hl : tbl.length with
  | zero => omega
  | succ n =>
    simp only [baseUnitAndFactor, hd, hb, Bool.false_eq_true, if_false]
    unfold baseRepRaw
    rw [List.map_map, List.foldl_map]
    apply foldl_congr_mem
    intro acc f hf
    simp only [Function.comp]
    have hfl := hwf id d hd f hf
    rw [base_fuel_irrelevant tbl hwf f.unit n tbl.length (by omega) (by omega)]

theorem sortKey_eq_Bof (tbl : Table α) (hwf : WF tbl) (hn : NamesDistinct tbl) (id : Nat) :
    sortKey tbl id = sortKeyOfBase (unitName tbl) (Bof tbl id) := by
  unfold sortKey
  cases hd : tbl[id]? with
  | none =>
    have hB : Bof tbl id = [] := by
      unfold Bof
      cases hl : tbl.length with
      | zero => simp [baseUnitAndFactor, canonBase, sortBy, mergeAdjacent, dropTrivial]
      | succ n => simp [baseUnitAndFactor, hd, canonBase, sortBy, mergeAdjacent, dropTrivial]
    rw [hB]
    simp [sortKeyOfBase]
  | some d =>
    simp only
    have hlt : id < tbl.length := (List.getElem?_eq_some_iff.mp hd).1
    split
    · rename_i hb
      have hB : Bof tbl id = [⟨id, Prefix.none, 1⟩] := by
        unfold Bof
        cases hl : tbl.length with
        | zero => omega
        | succ n =>
          simp [baseUnitAndFactor, hd, hb, canonBase, sortBy, insertBy, mergeAdjacent, dropTrivial]
      rw [hB, sortKeyOfBase_eq]
      have hname : unitName tbl id = d.name := by simp [unitName, hd]
      simp only [List.map_cons, List.map_nil, hname, normKey]
      have hnot : ¬ ((1 : Rat) < 0) := by grind
      simp only [hnot, if_false, stage23, List.foldl_cons, List.foldl_nil, List.map_cons, List.map_nil, gcdList]
      have h1 : ((1 : Rat).den : Int) = 1 := by decide
      have : ((1 : Rat) * (((1 : Int) * ((1 : Rat).den : Int) : Int) : Rat)) = 1 := by rw [h1]; grind
      rw [this]
      have hnum : (1 : Rat).num = 1 := by decide
      rw [hnum]
      simp only [Int.natAbs_one, Nat.gcd_zero_right, Int.natCast_one]
      congr 1
      congr 1
      have : (((1 : Int)) : Rat) = 1 := by rfl
      rw [this]
      grind
    · rename_i hb
      have hb' : d.isBase = false := by simpa using hb
      unfold Bof
      rw [baseUnit_derived tbl hwf id d hd hb']
      unfold baseRep
      rw [canonBase_idem tbl hn _ (validBase_baseRepRaw tbl d.defn)]

end lawful

/-! ### every factor of a base representation is a base unit; its vector is the plain exponent vector -/

def IsBaseId (tbl : Table α) (id : Nat) : Prop := ∃ d, tbl[id]? = some d ∧ d.isBase = true

def AllBase (tbl : Table α) (l : Unit) : Prop := ∀ f ∈ l, IsBaseId tbl f.unit

theorem allBase_append (tbl : Table α) (l m : Unit) (h1 : AllBase tbl l) (h2 : AllBase tbl m) : AllBase tbl (l ++ m) := by
  intro f hf
  rcases List.mem_append.mp hf with h | h
  · exact h1 f h
  · exact h2 f h

theorem allBase_power (tbl : Table α) (l : Unit) (e : Rat) (h : AllBase tbl l) : AllBase tbl (Unit.power l e) := by
  intro f hf
  unfold Unit.power at hf
  obtain ⟨g, hg, rfl⟩ := List.mem_map.mp hf
  exact h g hg

theorem allBase_foldl_mul (tbl : Table α) (parts : List Unit) (acc : Unit) (ha : AllBase tbl acc)
    (hp : ∀ p ∈ parts, AllBase tbl p) : AllBase tbl (parts.foldl Unit.mul acc) := by
  induction parts generalizing acc with
  | nil => exact ha
  | cons p ps ih =>
    simp only [List.foldl_cons]
    apply ih
    · exact allBase_append tbl _ _ ha (hp p List.mem_cons_self)
    · intro q hq; exact hp q (List.mem_cons_of_mem _ hq)

theorem allBase_baseUnit (tbl : Table α) : ∀ (fuel id : Nat), AllBase tbl (baseUnitAndFactor tbl fuel id).1 := by
  intro fuel
  induction fuel with
  | zero => intro id f hf; simp [baseUnitAndFactor] at hf
  | succ n ih =>
    intro id
    simp only [baseUnitAndFactor]
    cases hd : tbl[id]? with
    | none => intro f hf; simp at hf
    | some d =>
      simp only
      split
      · rename_i hb
        intro f hf
        simp at hf; subst hf
        exact ⟨d, hd, hb⟩
      · simp only
        apply allBase_foldl_mul
        · intro f hf; simp at hf
        · intro p hp
          simp only [List.map_map, List.mem_map, Function.comp] at hp
          obtain ⟨f, _, rfl⟩ := hp
          exact allBase_power tbl _ _ (ih f.unit)

theorem allBase_baseRepRaw_aux (tbl : Table α) (u : Unit) (acc : Unit) (ha : AllBase tbl acc) :
    AllBase tbl (u.foldl (fun acc f => Unit.mul acc (Unit.power (baseUnitAndFactor tbl tbl.length f.unit).1 f.exp)) acc) := by
  induction u generalizing acc with
  | nil => exact ha
  | cons f u ih =>
    simp only [List.foldl_cons]
    apply ih
    exact allBase_append tbl _ _ ha (allBase_power tbl _ _ (allBase_baseUnit tbl _ _))

theorem allBase_canonBase (tbl : Table α) (l : Unit) (h : AllBase tbl l) : AllBase tbl (canonBase tbl l) := by
  intro g hg
  unfold canonBase dropTrivial at hg
  have hg1 := (List.mem_filter.mp hg).1
  obtain ⟨g', hg', hu, _⟩ := mergeAdjacent_units _ g hg1
  have := h g' ((mem_sortBy _ _ _).mp hg')
  rw [← hu]; exact this

theorem allBase_baseRep (tbl : Table α) (u : Unit) : AllBase tbl (baseRep tbl u) := by
  unfold baseRep baseRepRaw
  exact allBase_canonBase tbl _ (allBase_baseRepRaw_aux tbl u [] (by intro f hf; simp at hf))

theorem idVec_base (tbl : Table α) (id : Nat) (h : IsBaseId tbl id) (b : Nat) :
    idVec tbl id b = if id = b then 1 else 0 := by
  obtain ⟨d, hd, hb⟩ := h
  have hlt : id < tbl.length := (List.getElem?_eq_some_iff.mp hd).1
  unfold idVec
  cases hl : tbl.length with
  | zero => omega
  | succ n =>
    simp only [baseUnitAndFactor, hd, hb, if_true, vecOfBase]
    split <;> grind

theorem unitVec_allBase (tbl : Table α) (l : Unit) (h : AllBase tbl l) (b : Nat) : unitVec tbl l b = vecOfBase l b := by
  induction l with
  | nil => rfl
  | cons f t ih =>
    simp only [unitVec, vecOfBase]
    rw [ih (fun x hx => h x (List.mem_cons_of_mem _ hx)), idVec_base tbl f.unit (h f List.mem_cons_self)]
    split <;> grind

/-- a unit whose base representation is scalar has the zero dimension vector -/
theorem vec_zero_of_scalar (tbl : Table α) (u : Unit) (h : isScalar tbl (baseRep tbl u) = true) (b : Nat) :
    unitVec tbl u b = 0 := by
  have hc : canon tbl (baseRep tbl u) = [] := by
    unfold isScalar unitEq at h
    have h0 : canon tbl ([] : Unit) = [] := by simp [canon, sortBy, mergeAdjacent, dropTrivial]
    rw [h0] at h
    simpa using h
  have h1 : unitVec tbl (baseRep tbl u) b = 0 := by
    rw [← unitVec_canon, hc]; rfl
  rw [unitVec_allBase tbl _ (allBase_baseRep tbl u)] at h1
  unfold baseRep at h1
  rw [vecOfBase_canonBase, vecOfBase_baseRepRaw] at h1
  exact h1

/-! ### groups of heuristic 3 -/

theorem chunkBy_spec {β κ : Type} [BEq κ] [LawfulBEq κ] (key : β → κ) (l : List β) :
    ∀ g ∈ chunkBy key l, g ≠ [] ∧ ∀ x ∈ g, ∀ y ∈ g, key x = key y := by
  induction l with
  | nil => intro g hg; simp [chunkBy] at hg
  | cons x xs ih =>
    intro g hg
    simp only [chunkBy] at hg
    cases hc : chunkBy key xs with
    | nil =>
      rw [hc] at hg
      simp at hg; subst hg
      exact ⟨by simp, by intro a ha b hb; simp at ha hb; rw [ha, hb]⟩
    | cons g0 rest =>
      rw [hc] at hg ih
      cases g0 with
      | nil =>
        simp only at hg
        rcases List.mem_cons.mp hg with rfl | hg
        · exact ⟨by simp, by intro a ha b hb; simp at ha hb; rw [ha, hb]⟩
        · exact ih g (List.mem_cons_of_mem _ hg)
      | cons y ys =>
        simp only at hg
        have ih0 := ih (y :: ys) List.mem_cons_self
        split at hg
        · rename_i hk
          have hk' : key x = key y := by simpa using hk
          rcases List.mem_cons.mp hg with rfl | hg
          · refine ⟨by simp, ?_⟩
            intro a ha b hb
            have ha' : key a = key y := by
              rcases List.mem_cons.mp ha with rfl | ha
              · exact hk'
              · exact ih0.2 a ha y List.mem_cons_self
            have hb' : key b = key y := by
              rcases List.mem_cons.mp hb with rfl | hb
              · exact hk'
              · exact ih0.2 b hb y List.mem_cons_self
            rw [ha', hb']
          · exact ih g (List.mem_cons_of_mem _ hg)
        · rcases List.mem_cons.mp hg with rfl | hg
          · exact ⟨by simp, by intro a ha b hb; simp at ha hb; rw [ha, hb]⟩
          · exact ih g hg

theorem foldl_pick_mem {β : Type} (le : β → β → Bool) (l : List β) (x : β) (S : List β)
    (hx : x ∈ S) (hl : ∀ y ∈ l, y ∈ S) :
    l.foldl (fun best y => if le best y then y else best) x ∈ S := by
  induction l generalizing x with
  | nil => exact hx
  | cons y ys ih =>
    simp only [List.foldl_cons]
    apply ih
    · split
      · exact hl y List.mem_cons_self
      · exact hx
    · intro z hz; exact hl z (List.mem_cons_of_mem _ hz)

theorem maxBy_mem {β : Type} (le : β → β → Bool) (l : List β) (h : l ≠ []) : ∃ r, maxBy le l = some r ∧ r ∈ l := by
  cases l with
  | nil => exact absurd rfl h
  | cons x xs =>
    refine ⟨_, rfl, ?_⟩
    exact foldl_pick_mem le xs x (x :: xs) List.mem_cons_self (fun y hy => List.mem_cons_of_mem _ hy)

section lawful2
variable [Lean.Grind.Field α] [L : LawfulNum α]

/-- the dimension vector of a group of factors with equal sort keys is a multiple of the vector of any of them,
with exactly the exponent heuristic 3 computes -/
theorem group_vec (tbl : Table α) (hwf : WF tbl) (hn : NamesDistinct tbl) (group : Unit) (rep : Factor)
    (hkey : ∀ f ∈ group, sortKey tbl f.unit = sortKey tbl rep.unit) (b : Nat) :
    unitVec tbl group b =
      (group.foldl (fun s f => s + f.exp * removedExponent tbl f / removedExponent tbl rep) 0) * idVec tbl rep.unit b := by
  have hgen : ∀ (g : Unit), (∀ f ∈ g, sortKey tbl f.unit = sortKey tbl rep.unit) → ∀ a : Rat,
      (g.foldl (fun s f => s + f.exp * removedExponent tbl f / removedExponent tbl rep) a) * idVec tbl rep.unit b
        = a * idVec tbl rep.unit b + unitVec tbl g b := by
    intro g
    induction g with
    | nil => intro _ a; simp only [List.foldl_nil, unitVec]; grind
    | cons f t ih =>
      intro hk a
      simp only [List.foldl_cons]
      rw [ih (fun x hx => hk x (List.mem_cons_of_mem _ hx))]
      have hkf := hk f List.mem_cons_self
      rw [sortKey_eq_Bof tbl hwf hn, sortKey_eq_Bof tbl hwf hn] at hkf
      obtain ⟨hv, h1, h2⟩ := key_eq_proportional tbl hn _ _ (canonical_Bof tbl hn f.unit) (canonical_Bof tbl hn rep.unit) hkf
      have hvb := hv b
      rw [vec_Bof, vec_Bof] at hvb
      simp only [unitVec, removedExponent_eq]
      grind
  have := hgen group hkey 0
  rw [this]; grind

theorem h3_target_vec (tbl : Table α) (hwf : WF tbl) (hn : NamesDistinct tbl) (group : Unit) (rep : Factor)
    (hkey : ∀ f ∈ group, sortKey tbl f.unit = sortKey tbl rep.unit) (b : Nat) :
    unitVec tbl group b = unitVec tbl
      (if isScalar tbl (baseRep tbl group) then []
       else [{ rep with exp := group.foldl (fun s f => s + f.exp * removedExponent tbl f / removedExponent tbl rep) 0 }]) b := by
  split
  · rename_i hs
    rw [vec_zero_of_scalar tbl group hs b]; rfl
  · rw [group_vec tbl hwf hn group rep hkey b]
    simp only [unitVec]; grind

end lawful2

end NumbatModel.Qty
