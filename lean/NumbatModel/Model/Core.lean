/-
M-Core: the typed core language the bytecode compiler of numbat receives (`typed_ast::Expression` /
`Statement`, restricted to scalars, booleans, strings with interpolation, identifiers, unary/binary
operators, conditionals, function calls, callable calls, structs, lists, `let`, `fn … where …`,
foreign-function declarations, `print`/`assert`), and its **reference big-step evaluator** `eval`
(fuel-indexed; environments resolved by innermost = last binding; arguments, list elements and
string parts left to right; first error wins).

Numbers are a parameter type `ν`; value-level arithmetic, foreign functions and format specifiers
are the parameter `Sem ν` (the driver instantiates `ν := Float`, the theorems hold for every `Sem`).

Import-free (core only) so that the driver links as a `lean_exe`.

Deliberate mirrors of numbat (not tidied, see notes/C09.md):
* `&&`/`||` evaluate both operands (`Op::LogicalAnd` pops two values);
* a function *value* is a name; calling it looks the name up in the table of **all** functions
  compiled so far (`Vm::get_function_idx` at run time), a *direct* call is bound to the definition
  visible where the call was compiled;
* struct fields are evaluated in reversed definition order (the language leaves the order open).
-/
namespace NumbatModel.Core

abbrev Name := String

/-- `RuntimeErrorKind`, payload dropped. -/
inductive Err where
  | divisionByZero
  | factorialOfNegativeNumber
  | factorialOfNonInteger
  | quantityError
  | emptyList
  | assertFailed
  | invalidFormatSpecifiers
  | invalidTypeForFormatSpecifiers
  | other (s : String)
deriving Repr, DecidableEq, Inhabited

/-- Result of an evaluation: value, numbat run-time error, Rust panic (a branch the type checker is
    supposed to exclude), or fuel exhausted. -/
inductive Res (α : Type) where
  | ok (a : α)
  | err (e : Err)
  | panic (msg : String)
  | timeout
deriving Repr, Inhabited

def Res.bind {α β : Type} : Res α → (α → Res β) → Res β
  | .ok a, f => f a
  | .err e, _ => .err e
  | .panic m, _ => .panic m
  | .timeout, _ => .timeout

@[simp] theorem Res.bind_ok {α β : Type} (a : α) (f : α → Res β) : (Res.ok a).bind f = f a := rfl
@[simp] theorem Res.bind_err {α β : Type} (e : Err) (f : α → Res β) : (Res.err e : Res α).bind f = .err e := rfl
@[simp] theorem Res.bind_panic {α β : Type} (m : String) (f : α → Res β) :
    (Res.panic m : Res α).bind f = .panic m := rfl
@[simp] theorem Res.bind_timeout {α β : Type} (f : α → Res β) : (Res.timeout : Res α).bind f = .timeout := rfl

def Res.ofExcept {α : Type} : Except Err α → Res α
  | .ok a => .ok a
  | .error e => .err e

/-- `StructInfo`: name and field names in definition order (spans and field types dropped). -/
structure StructInfo where
  name : Name
  fields : List Name
deriving Repr, DecidableEq, Inhabited

/-- `value::Value` (quantities restricted to scalars; no date-times). -/
inductive Value (ν : Type) where
  | num (x : ν)
  | bool (b : Bool)
  | str (s : String)
  /-- `FunctionReference::Normal name chunk` (`foreign = false`; `idx` is the index of the function's chunk in the
  VM, resolved when the reference is compiled — 0 is `<main>`, function `k` of the table is chunk `k + 1`) /
  `Foreign name` (`idx` unused, 0) -/
  | fnref (foreign : Bool) (name : Name) (idx : Nat)
  /-- `Value::FormatSpecifiers`: only ever on the VM stack below `JoinString` -/
  | fmtspec (s : Option String)
  | struct (info : StructInfo) (fields : List (Value ν))
  | list (xs : List (Value ν))

instance {ν : Type} : Inhabited (Value ν) := ⟨.bool false⟩

inductive ArithOp where
  | add | sub | mul | div | pow | conv
deriving Repr, DecidableEq, Inhabited

inductive CmpOp where
  | lt | gt | le | ge
deriving Repr, DecidableEq, Inhabited

inductive BinOp where
  | arith (op : ArithOp)
  | cmp (op : CmpOp)
  | eq | ne | and | or
deriving Repr, DecidableEq, Inhabited

/-- Everything the compiler/VM delegates to the value level. -/
structure Sem (ν : Type) where
  /-- `+ - * / ^ ->` on quantities -/
  arith : ArithOp → ν → ν → Except Err ν
  neg : ν → ν
  /-- `Op::Factorial order` -/
  fact : Nat → ν → Except Err ν
  /-- `partial_cmp_preserve_nan`; `none` = a NaN operand -/
  cmp : ν → ν → Option Ordering
  /-- `Quantity == Quantity` -/
  eq : ν → ν → Bool
  /-- display of a number (`Quantity::to_string` of a scalar) -/
  fmt : ν → String
  /-- foreign function `name` applied to its arguments -/
  ffi : Name → List (Value ν) → Res (Value ν)
  /-- a string part with format specifiers: `strfmt("{value<spec>}")` -/
  fmtSpec : String → Value ν → Except Err String

/-! ### Equality and display of values -/

mutual
/-- derived `PartialEq for Value` (list equality is element-wise; the pointer short-cut of
    `NumbatList::eq` agrees with it whenever number equality is reflexive) -/
def Value.beq {ν : Type} (S : Sem ν) : Value ν → Value ν → Bool
  | .num a, .num b => S.eq a b
  | .bool a, .bool b => a == b
  | .str a, .str b => a == b
  | .fnref f a i, .fnref g b j => f == g && a == b && i == j
  | .fmtspec a, .fmtspec b => a == b
  | .struct i a, .struct j b => i == j && Value.beqL S a b
  | .list a, .list b => Value.beqL S a b
  | _, _ => false
def Value.beqL {ν : Type} (S : Sem ν) : List (Value ν) → List (Value ν) → Bool
  | [], [] => true
  | a :: as, b :: bs => Value.beq S a b && Value.beqL S as bs
  | _, _ => false
end

def joinSep (sep : String) : List String → String
  | [] => ""
  | [a] => a
  | a :: b :: rest => a ++ sep ++ joinSep sep (b :: rest)

def fieldTexts : List Name → List String → List String
  | n :: ns, t :: ts => (n ++ ": " ++ t) :: fieldTexts ns ts
  | _, _ => []

/-- `pretty_print::escape_numbat_string` -/
def escapeChars : List Char → List Char
  | [] => []
  | c :: cs =>
    (if c == '\n' then ['\\', 'n']
     else if c == '\r' then ['\\', 'r']
     else if c == '\t' then ['\\', 't']
     else if c == '"' then ['\\', '"']
     else if c == Char.ofNat 0 then ['\\', '0']
     else if c == '{' || c == '}' || c == '\\' then [c, c]
     else [c]) ++ escapeChars cs

def escapeStr (s : String) : String := String.ofList (escapeChars s.toList)

mutual
/-- Text of a value. `esc = false`: `impl Display for Value` (used by `Op::JoinString`), a nested string
    is quoted as it is. `esc = true`: `Value::pretty_print` as plain text (used by `print`), a nested
    string is quoted and escaped. -/
def Value.display {ν : Type} (S : Sem ν) (esc : Bool) : Value ν → String
  | .num x => S.fmt x
  | .bool b => if b then "true" else "false"
  | .str s => "\"" ++ (if esc then escapeStr s else s) ++ "\""
  | .fnref false n _ => "<function: " ++ n ++ ">"
  | .fnref true n _ => "<builtin function: " ++ n ++ ">"
  | .fmtspec _ => "<format specfiers>"
  | .struct info vs =>
    info.name ++ " {" ++
      (match vs with
       | [] => ""
       | _ :: _ => " " ++ joinSep ", " (fieldTexts info.fields (Value.displayL S esc vs)) ++ " ") ++ "}"
  | .list xs => "[" ++ joinSep ", " (Value.displayL S esc xs) ++ "]"
def Value.displayL {ν : Type} (S : Sem ν) (esc : Bool) : List (Value ν) → List String
  | [] => []
  | v :: vs => Value.display S esc v :: Value.displayL S esc vs
end

/-- `to_str` inside `Op::JoinString`: a string is shown without quotes. `none` for format specifiers
    (`unreachable!()` in the Rust code). -/
def Value.toStr {ν : Type} (S : Sem ν) : Value ν → Option String
  | .str s => some s
  | .fmtspec _ => none
  | v => some (Value.display S false v)

/-- what the procedure `print` hands to `print_fn`: a string as it is, anything else pretty-printed -/
def Value.printText {ν : Type} (S : Sem ν) : Value ν → Option String
  | .str s => some s
  | .fmtspec _ => none
  | v => some (Value.display S true v)

/-! ### Expressions and statements -/

mutual
inductive Expr (ν : Type) where
  | num (x : ν)
  | bool (b : Bool)
  | ident (x : Name)
  | neg (e : Expr ν)
  | not (e : Expr ν)
  | fact (order : Nat) (e : Expr ν)
  | bin (op : BinOp) (l r : Expr ν)
  /-- `FunctionCall` -/
  | call (f : Name) (args : List (Expr ν))
  /-- `CallableCall` -/
  | callc (callee : Expr ν) (args : List (Expr ν))
  | cond (c t e : Expr ν)
  | str (parts : List (Part ν))
  /-- `InstantiateStruct`: fields in source order -/
  | mk (info : StructInfo) (fields : List (Field ν))
  /-- `AccessField` of a struct of type `info` -/
  | fld (e : Expr ν) (field : Name) (info : StructInfo)
  | list (es : List (Expr ν))
inductive Part (ν : Type) where
  | fixed (s : String)
  | interp (fmt : Option String) (e : Expr ν)
inductive Field (ν : Type) where
  | mk (name : Name) (e : Expr ν)
end

instance {ν : Type} : Inhabited (Expr ν) := ⟨.bool false⟩

def Field.name {ν : Type} : Field ν → Name
  | .mk n _ => n
def Field.expr {ν : Type} : Field ν → Expr ν
  | .mk _ e => e

/-- `DefineVariable`: identifiers (name and aliases) and defining expression. -/
structure Def (ν : Type) where
  names : List Name
  expr : Expr ν

structure FunDecl (ν : Type) where
  name : Name
  params : List Name
  wheres : List (Def ν)
  body : Expr ν

inductive ProcKind where
  | print | assert | assertEq | type
deriving Repr, DecidableEq, Inhabited

inductive Stmt (ν : Type) where
  | expr (e : Expr ν)
  | letv (d : Def ν)
  | fn (d : FunDecl ν)
  /-- declaration of a foreign function (no body) -/
  | ffn (name : Name) (arity : Nat)
  | structDef (info : StructInfo)
  /-- `DefineDimension`: nothing happens at run time -/
  | dim
  | proc (kind : ProcKind) (args : List (Expr ν))
  /-- anything outside the modelled fragment (units, date-times, `type`) -/
  | unsupported (what : String)

/-! ### Name resolution helpers -/

/-- index of the last element satisfying `p` (`Iterator::rposition`) -/
def lastIdx {α : Type} (p : α → Bool) : List α → Option Nat
  | [] => none
  | a :: as =>
    match lastIdx p as with
    | some i => some (i + 1)
    | none => if p a then some 0 else none

/-- value of the innermost (= last) binding one of whose identifiers is `x` -/
def lookupLast {α : Type} (x : Name) : List (List Name × α) → Option α
  | [] => none
  | p :: ps =>
    match lookupLast x ps with
    | some v => some v
    | none => if p.1.contains x then some p.2 else none

/-- last entry of an association list (`HashMap::insert` overwrites) -/
def assocLast {α : Type} (x : Name) : List (Name × α) → Option α
  | [] => none
  | p :: ps =>
    match assocLast x ps with
    | some v => some v
    | none => if p.1 == x then some p.2 else none

def lastResultIdentifiers : List Name := ["ans", "_"]

/-! ### Reference semantics -/

/-- What a piece of code can see, fixed when it is compiled. -/
structure Static where
  /-- number of globals in scope -/
  nglob : Nat
  /-- direct calls see the first `nfuns` functions of the table -/
  nfuns : Nat
  /-- names usable as function values (`BytecodeInterpreter::functions`), `true` = foreign -/
  fnNames : List (Name × Bool)
  /-- names of the foreign callables known (`Vm::ffi_callables`) -/
  ffi : List Name
deriving Repr, Inhabited

/-- A defined function together with what its body can see. -/
structure Closure (ν : Type) where
  decl : FunDecl ν
  static : Static
  /-- identifiers of the globals in scope of the body (`locals[0]` when it was compiled) -/
  gnames : List (List Name)

/-- All functions and foreign callables that exist when the code runs. -/
structure Table (ν : Type) where
  funs : List (Closure ν)
  ffiAll : List Name
  /-- the struct definitions registered (`Vm::struct_infos`) -/
  structs : List StructInfo

/-- position of a name in a list of names (`IndexMap::get_index_of`) -/
def idxOf? (x : Name) (l : List Name) : Option Nat :=
  let i := l.idxOf x
  if i < l.length then some i else none

/-- the registered definition of the struct called `name` -/
def structByName (structs : List StructInfo) (name : Name) : Option StructInfo :=
  match idxOf? name (structs.map StructInfo.name) with
  | some i => structs[i]?
  | none => none

structure Env (ν : Type) where
  /-- bindings of the current scope, innermost last: parameters and `where` variables inside a
      function; at top level the globals themselves (`locals[current_depth]`) -/
  locals : List (List Name × Value ν)
  /-- all globals that exist at run time, oldest first; the first `static.nglob` are in scope -/
  globals : List (List Name × Value ν)
  /-- value of `ans` / `_` -/
  last : Option (Value ν)
  static : Static

def evalList {ν : Type} (ev : Expr ν → Res (Value ν)) : List (Expr ν) → Res (List (Value ν))
  | [] => .ok []
  | e :: es => (ev e).bind fun v => (evalList ev es).bind fun vs => .ok (v :: vs)

/-- values of the parts of a string, left to right (a fixed part is its own value; an interpolation
    yields the value and its format specifiers) -/
def evalParts {ν : Type} (ev : Expr ν → Res (Value ν)) :
    List (Part ν) → Res (List (Value ν × Option (Option String)))
  | [] => .ok []
  | .fixed s :: ps => (evalParts ev ps).bind fun vs => .ok ((.str s, none) :: vs)
  | .interp fmt e :: ps =>
    (ev e).bind fun v => (evalParts ev ps).bind fun vs => .ok ((v, some fmt) :: vs)

/-- text of one string part -/
def partText {ν : Type} (S : Sem ν) : Value ν × Option (Option String) → Res String
  | (v, some (some spec)) => Res.ofExcept (S.fmtSpec spec v)
  | (v, _) =>
    match v.toStr S with
    | some s => .ok s
    | none => .panic "format specifiers as a string part"

/-- `Op::JoinString`: parts are converted last to first and prepended -/
def joinParts {ν : Type} (S : Sem ν) : List (Value ν × Option (Option String)) → Res String
  | [] => .ok ""
  | p :: ps => (joinParts S ps).bind fun rest => (partText S p).bind fun s => .ok (s ++ rest)

/-- definition-order index of a field -/
def fieldIdx (info : StructInfo) (n : Name) : Option Nat :=
  let i := info.fields.idxOf n
  if i < info.fields.length then some i else none

/-- insert by key, stable (`sorted_by_key` is a stable sort) -/
def insertByKey {α : Type} (key : α → Nat) (a : α) : List α → List α
  | [] => [a]
  | b :: bs => if key b ≤ key a then b :: insertByKey key a bs else a :: b :: bs

def sortByKey {α : Type} (key : α → Nat) : List α → List α
  | [] => []
  | a :: as => insertByKey key a (sortByKey key as)

/-- the order in which the compiler visits the fields of a struct literal:
    `fields.sorted_by_key(definition index).rev()` -/
def fieldOrder {α : Type} (info : StructInfo) (name : α → Name) (fs : List α) : List α :=
  (sortByKey (fun f => (fieldIdx info (name f)).getD 0) fs).reverse

def applyBin {ν : Type} (S : Sem ν) (op : BinOp) (a b : Value ν) : Res (Value ν) :=
  match op, a, b with
  | .arith o, .num x, .num y => (Res.ofExcept (S.arith o x y)).bind fun z => .ok (.num z)
  | .cmp o, .num x, .num y =>
    .ok (.bool (match S.cmp x y with
      | none => false
      | some .lt => o == .lt || o == .le
      | some .eq => o == .le || o == .ge
      | some .gt => o == .gt || o == .ge))
  | .eq, a, b => .ok (.bool (Value.beq S a b))
  | .ne, a, b => .ok (.bool (!Value.beq S a b))
  | .and, .bool x, .bool y => .ok (.bool (x && y))
  | .or, .bool x, .bool y => .ok (.bool (x || y))
  | _, _, _ => .panic "operand of the wrong kind"

/-- a foreign *function* applied to its arguments (the three procedures are no functions) -/
def callFfi {ν : Type} (S : Sem ν) (name : Name) (vs : List (Value ν)) : Res (Value ν) :=
  if name == "print" || name == "assert" || name == "assert_eq" then .panic "procedure called as a function"
  else S.ffi name vs

/-- identifier resolution: current scope, then globals in scope, then `ans`/`_`, then functions (`fnames`: the
names of the functions of the table, in order) -/
def lookupIdent {ν : Type} (fnames : List Name) (ρ : Env ν) (x : Name) : Res (Value ν) :=
  match lookupLast x ρ.locals with
  | some v => .ok v
  | none =>
    match lookupLast x (ρ.globals.take ρ.static.nglob) with
    | some v => .ok v
    | none =>
      if lastResultIdentifiers.contains x then
        match ρ.last with
        | some v => .ok v
        | none => .panic "no last result"
      else
        match assocLast x ρ.static.fnNames with
        | some true => .ok (.fnref true x 0)
        | some false =>
          -- the function the name denotes *now*: the newest visible definition (bound when the reference is compiled)
          match lastIdx (fun n => n == x) ("<main>" :: fnames.take ρ.static.nfuns) with
          | some idx => .ok (.fnref false x idx)
          | none => .panic "called `Option::unwrap()` on a `None` value (get_function_idx)"
        | none => .panic "unknown identifier"

/-- `where` variables, in order; each sees the previous ones -/
def evalWheres {ν : Type} (ev : Env ν → Expr ν → Res (Value ν)) (ρ : Env ν) : List (Def ν) → Res (Env ν)
  | [] => .ok ρ
  | d :: ds =>
    (ev ρ d.expr).bind fun v => evalWheres ev { ρ with locals := ρ.locals ++ [(d.names, v)] } ds

/-- call of function number `i` of the table with evaluated arguments -/
def applyClosure {ν : Type} (ev : Env ν → Expr ν → Res (Value ν)) (c : Closure ν) (vs : List (Value ν))
    (globals : List (List Name × Value ν)) (last : Option (Value ν)) : Res (Value ν) :=
  if vs.length ≠ c.decl.params.length then .panic "arity" else
  -- a function compiled further down in the same input, reached through a function value before the
  -- globals its body refers to exist: the VM would read stack slots that are not there yet
  if globals.length < c.static.nglob then .panic "function called before its globals exist" else
  let ρ0 : Env ν :=
    { locals := (c.decl.params.map fun p => [p]).zip vs, globals := globals, last := last, static := c.static }
  (evalWheres ev ρ0 c.decl.wheres).bind fun ρ1 => ev ρ1 c.decl.body

/-- The reference evaluator. `eval S T (fuel+1)` evaluates sub-expressions and function bodies with
    `fuel`. -/
def eval {ν : Type} (S : Sem ν) (T : Table ν) : Nat → Env ν → Expr ν → Res (Value ν)
  | 0, _, _ => .timeout
  | n + 1, ρ, e =>
    match e with
    | .num x => .ok (.num x)
    | .bool b => .ok (.bool b)
    | .ident x => lookupIdent (T.funs.map fun c => c.decl.name) ρ x
    | .neg e =>
      (eval S T n ρ e).bind fun v =>
        match v with
        | .num x => .ok (.num (S.neg x))
        | _ => .panic "Expected quantity to be on the top of the stack"
    | .not e =>
      (eval S T n ρ e).bind fun v =>
        match v with
        | .bool b => .ok (.bool (!b))
        | _ => .panic "Expected value to be a bool"
    | .fact k e =>
      (eval S T n ρ e).bind fun v =>
        match v with
        | .num x => (Res.ofExcept (S.fact k x)).bind fun y => .ok (.num y)
        | _ => .panic "Expected quantity to be on the top of the stack"
    | .bin op l r =>
      (eval S T n ρ l).bind fun a => (eval S T n ρ r).bind fun b => applyBin S op a b
    | .cond c t e =>
      (eval S T n ρ c).bind fun v =>
        match v with
        | .bool true => eval S T n ρ t
        | .bool false => eval S T n ρ e
        | _ => .panic "Expected value to be a bool"
    | .list es => (evalList (eval S T n ρ) es).bind fun vs => .ok (.list vs)
    | .str parts => (evalParts (eval S T n ρ) parts).bind fun ps => (joinParts S ps).bind fun s => .ok (.str s)
    | .mk info fields =>
      -- visited in the compiler's order; the resulting values are then in definition order
      (evalList (eval S T n ρ) ((fieldOrder info Field.name fields).map Field.expr)).bind fun vs =>
        -- the value carries the registered definition of that name
        match structByName T.structs info.name with
        | some info' => .ok (.struct info' vs.reverse)
        | none => .panic "Missing struct metadata"
    | .fld e field info =>
      (eval S T n ρ e).bind fun v =>
        match v, fieldIdx info field with
        | .struct _ vs, some i =>
          (match vs[i]? with
           | some x => .ok x
           | none => .panic "swap_remove index out of bounds")
        | _, _ => .panic "Expected value to be a struct"
    | .call f args =>
      (evalList (eval S T n ρ) args).bind fun vs =>
        if ρ.static.ffi.contains f then callFfi S f vs
        else
          match lastIdx (fun c => c.decl.name == f) (T.funs.take ρ.static.nfuns) with
          | none => .panic "unknown function"
          | some i =>
            match T.funs[i]? with
            | none => .panic "unknown function"
            | some c => applyClosure (eval S T n) c vs ρ.globals ρ.last
    | .callc callee args =>
      (evalList (eval S T n ρ) args).bind fun vs =>
        (eval S T n ρ callee).bind fun cv =>
          match cv with
          | .fnref false _ idx =>
            -- the function the reference was bound to when it was created (chunk `idx` = function `idx - 1`)
            (match idx with
             | 0 => .panic "unknown function"
             | i + 1 =>
               match T.funs[i]? with
               | none => .panic "unknown function"
               | some c => applyClosure (eval S T n) c vs ρ.globals ρ.last)
          | .fnref true name _ =>
            if T.ffiAll.contains name then callFfi S name vs else .panic "Foreign function exists"
          | _ => .panic "Expected value to be a function reference"

/-! ### Reference semantics of statements and programs -/

/-- The static part of the top-level state. -/
structure TopStatic (ν : Type) where
  gnames : List (List Name)
  funs : List (Closure ν)
  fnNames : List (Name × Bool)
  ffi : List Name
  structs : List StructInfo

def TopStatic.static {ν : Type} (s : TopStatic ν) : Static :=
  { nglob := s.gnames.length, nfuns := s.funs.length, fnNames := s.fnNames, ffi := s.ffi }

/-- insertion into an `IndexMap` keyed by name: an existing key keeps its place (and value) -/
def insertNew {α : Type} (key : α → Name) (a : α) (l : List α) : List α :=
  if l.any (fun b => key b == key a) then l else l ++ [a]

/-- what a statement declares (what the compiler records for it) -/
def declare {ν : Type} (s : TopStatic ν) : Stmt ν → TopStatic ν
  | .letv d => { s with gnames := s.gnames ++ [d.names] }
  | .fn d =>
    -- the body sees the function itself, for direct calls (recursion) and as a value
    let c : Closure ν :=
      { decl := d, static := { s.static with nfuns := s.funs.length + 1, fnNames := s.fnNames ++ [(d.name, false)] },
        gnames := s.gnames }
    { s with funs := s.funs ++ [c], fnNames := s.fnNames ++ [(d.name, false)] }
  | .ffn name _ => { s with ffi := insertNew id name s.ffi, fnNames := s.fnNames ++ [(name, true)] }
  | .structDef info => { s with structs := insertNew StructInfo.name info s.structs }
  | _ => s

structure TopState (ν : Type) where
  static : TopStatic ν
  /-- values of the globals, oldest first (same length as `static.gnames`) -/
  gvals : List (Value ν)
  last : Option (Value ν)
  /-- lines printed so far by this input -/
  out : List String
  /-- value of the last expression statement executed by this input -/
  result : Option (Value ν)

def TopState.env {ν : Type} (st : TopState ν) : Env ν :=
  let g := st.static.gnames.zip st.gvals
  { locals := g, globals := g, last := st.last, static := st.static.static }

/-- run-time effect of one statement (the table `T` is the one of the whole input) -/
def execStmt {ν : Type} (S : Sem ν) (T : Table ν) (fuel : Nat) (st : TopState ν) (s : Stmt ν) :
    Res (TopState ν) :=
  let st' : TopState ν := { st with static := declare st.static s }
  match s with
  | .expr e =>
    (eval S T fuel st.env e).bind fun v => .ok { st' with last := some v, result := some v }
  | .letv d =>
    (eval S T fuel st.env d.expr).bind fun v => .ok { st' with gvals := st.gvals ++ [v] }
  | .proc .print [] => .ok { st' with out := st.out ++ [""] }
  | .proc .print [e] =>
    (eval S T fuel st.env e).bind fun v =>
      match v.printText S with
      | some t => .ok { st' with out := st.out ++ [t] }
      | none => .panic "print of format specifiers"
  | .proc .assert [e] =>
    (eval S T fuel st.env e).bind fun v =>
      match v with
      | .bool true => .ok st'
      | .bool false => .err .assertFailed
      | _ => .panic "Expected value to be a bool"
  | .proc _ _ => .panic "unsupported procedure call"
  | .unsupported w => .panic ("unsupported: " ++ w)
  | _ => .ok st'

def execStmts {ν : Type} (S : Sem ν) (T : Table ν) (fuel : Nat) : TopState ν → List (Stmt ν) → Res (TopState ν)
  | st, [] => .ok st
  | st, s :: ss => (execStmt S T fuel st s).bind fun st' => execStmts S T fuel st' ss

/-- reference semantics of one input: all statements are declared first (numbat compiles the whole
    input before it runs it), then executed in order -/
def evalInput {ν : Type} (S : Sem ν) (fuel : Nat) (st : TopState ν) (stmts : List (Stmt ν)) : Res (TopState ν) :=
  let final := stmts.foldl declare st.static
  let T : Table ν := { funs := final.funs, ffiAll := final.ffi, structs := final.structs }
  execStmts S T fuel { st with out := [], result := none } stmts

end NumbatModel.Core
