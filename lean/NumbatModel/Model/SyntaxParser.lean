import NumbatModel.Model.Syntax
/-
M-Syn (2): the untyped AST and the recursive-descent expression parser — model of `numbat/src/parser.rs`
`Parser::parse` (statement loop with error recovery), `statement` (expression and procedure-call
statements only), `parse_binop`, and level by level `expression`/`postfix_apply`, `condition`, `conversion`,
`logical_or`, `logical_and`, `logical_neg`, `comparison`, `term`, `factor`, `per_factor`, `unary`, `ifactor`,
`power`, `factorial`, `unicode_power`, `call`, `arguments`, `primary` (incl. list and struct expressions).

The parser state of the Rust code is an index into the token slice; here it is the remaining tokens (the
slice always ends in `Eof`, `advance` never moves past it).  Loops and recursion take fuel; every call
decrements it, `outOfFuel` is a separate error and never a default value.
Not modelled (`unsupported`): definitions (`let fn dimension unit use struct @…`) and string interpolation.
-/
namespace NumbatModel.Syntax

inductive BinOp where
  | add | sub | mul | div | power | convertTo
  | lessThan | greaterThan | lessOrEqual | greaterOrEqual | equal | notEqual
  | logicalAnd | logicalOr
deriving Repr, DecidableEq, Inhabited

/-- `Debug` name of the Rust `BinaryOperator` -/
def BinOp.name : BinOp → String
  | .add => "Add" | .sub => "Sub" | .mul => "Mul" | .div => "Div" | .power => "Power"
  | .convertTo => "ConvertTo" | .lessThan => "LessThan" | .greaterThan => "GreaterThan"
  | .lessOrEqual => "LessOrEqual" | .greaterOrEqual => "GreaterOrEqual" | .equal => "Equal"
  | .notEqual => "NotEqual" | .logicalAnd => "LogicalAnd" | .logicalOr => "LogicalOr"

/-- `ast::Expression` without spans.  Number and string literals keep their token (the conversion of the
lexeme to an `f64` / to the unescaped text is done when the tree is printed, see `SyntaxSexpr`). -/
inductive Expr where
  | scalar (t : Token)                       -- `Scalar` from a Number / IntegerWithBase / NaN / Inf token
  | ident (name : List Char)
  | hole                                     -- `TypedHole`
  | neg (e : Expr)
  | lnot (e : Expr)
  | fact (order : Nat) (e : Expr)
  | bin (op : BinOp) (l r : Expr)            -- `BinaryOperator { span_op: Some(_) }`
  | imul (l r : Expr)                        -- implicit multiplication: `Mul` with `span_op: None`
  | upow (base : Expr) (t : Token)           -- unicode exponent: `Power` with `span_op: None`, rhs `Scalar(k)`
  | call (f : Expr) (args : List Expr)
  | boolean (b : Bool)
  | str (t : Token)                          -- `String` from a StringFixed token
  | cond (c t e : Expr)
  | struct (name : List Char) (fields : List (List Char × Expr))
  | field (e : Expr) (name : List Char)
  | list (es : List Expr)
deriving Repr, Inhabited

inductive Stmt where
  | expr (e : Expr)
  | proc (kind : TokKind) (args : List Expr)
deriving Repr, Inhabited

inductive PErr where
  | expectedPrimary | missingClosingParen | trailingCharacters | trailingEqualSign | trailingEqualSignFunction
  | expectedThen | expectedElse | expectedIdentifier | expectedIdentifierOrCallAfterPostfixApply
  | inlineProcedureUsage | overflowInNumberLiteral | expectedCommaOrRightBracketInList
  | expectedFieldNameInStruct | expectedColonAfterFieldName | expectedCommaOrRightCurlyInStructFieldList
  | expectedLeftParenAfterProcedureName
  | unsupported      -- syntax outside the model (definitions, string interpolation)
  | outOfFuel
deriving Repr, DecidableEq, Inhabited

def PErr.name : PErr → String
  | .expectedPrimary => "ExpectedPrimary" | .missingClosingParen => "MissingClosingParen"
  | .trailingCharacters => "TrailingCharacters" | .trailingEqualSign => "TrailingEqualSign"
  | .trailingEqualSignFunction => "TrailingEqualSignFunction"
  | .expectedThen => "ExpectedThen" | .expectedElse => "ExpectedElse"
  | .expectedIdentifier => "ExpectedIdentifier"
  | .expectedIdentifierOrCallAfterPostfixApply => "ExpectedIdentifierOrCallAfterPostfixApply"
  | .inlineProcedureUsage => "InlineProcedureUsage" | .overflowInNumberLiteral => "OverflowInNumberLiteral"
  | .expectedCommaOrRightBracketInList => "ExpectedCommaOrRightBracketInList"
  | .expectedFieldNameInStruct => "ExpectedFieldNameInStruct"
  | .expectedColonAfterFieldName => "ExpectedColonAfterFieldName"
  | .expectedCommaOrRightCurlyInStructFieldList => "ExpectedCommaOrRightCurlyInStructFieldList"
  | .expectedLeftParenAfterProcedureName => "ExpectedLeftParenAfterProcedureName"
  | .unsupported => "Unsupported" | .outOfFuel => "OutOfFuel"

/-- an error carries the parser position at which it was raised (error recovery continues from there) -/
abbrev PRes (α : Type) := Except (PErr × List Token) (α × List Token)

/-- `peek(tokens).kind` (past the end counts as `Eof`) -/
def peekKind : List Token → TokKind
  | [] => .eof
  | t :: _ => t.kind

/-- `skip_empty_lines` -/
def skipNewlines : List Token → List Token
  | [] => []
  | t :: ts => if t.kind == .newline then skipNewlines ts else t :: ts

/-! ## number literals: only what the parser itself needs (`i128::from_str_radix` overflow) -/

def hexDigitValue (c : Char) : Nat :=
  if isAsciiDigit c then c.toNat - 48
  else if 97 ≤ c.toNat then c.toNat - 87 else c.toNat - 55

/-- value of the digits of a based literal (`_` skipped) -/
def basedValue (base : Nat) (digits : List Char) : Nat :=
  (digits.filter (· != '_')).foldl (fun acc c => acc * base + hexDigitValue c) 0

def baseOfKind : TokKind → Nat
  | .intBase16 => 16 | .intBase8 => 8 | .intBase2 => 2 | _ => 10

/-- `i128::from_str_radix(&lexeme[2..].replace('_', ""), base)` fails iff the value is `≥ 2^127` -/
def basedOverflows (t : Token) : Bool :=
  basedValue (baseOfKind t.kind) (t.lexeme.drop 2) ≥ 2 ^ 127

/-! ## `parse_binop` -/

/-- the `while let Some(matched) = self.match_any(tokens, op_symbol)` loop of `parse_binop` -/
def binLoop (ops : List (TokKind × BinOp)) (next : List Token → PRes Expr) :
    Nat → Expr → List Token → PRes Expr
  | 0, _, ts => .error (.outOfFuel, ts)
  | n + 1, lhs, ts =>
    match ts with
    | [] => .ok (lhs, ts)
    | t :: rest =>
      match ops.lookup t.kind with
      | none => .ok (lhs, ts)
      | some op =>
        match next rest with
        | .error e => .error e
        | .ok (rhs, ts') => binLoop ops next n (.bin op lhs rhs) ts'

def parseBinop (ops : List (TokKind × BinOp)) (next : List Token → PRes Expr) (n : Nat) (ts : List Token) :
    PRes Expr :=
  match next ts with
  | .error e => .error e
  | .ok (lhs, ts') => binLoop ops next n lhs ts'

def conversionOps : List (TokKind × BinOp) := [(.arrow, .convertTo), (.to, .convertTo)]
def logicalOrOps : List (TokKind × BinOp) := [(.logicalOr, .logicalOr)]
def logicalAndOps : List (TokKind × BinOp) := [(.logicalAnd, .logicalAnd)]
def comparisonOps : List (TokKind × BinOp) :=
  [(.lessThan, .lessThan), (.greaterThan, .greaterThan), (.lessOrEqual, .lessOrEqual),
   (.greaterOrEqual, .greaterOrEqual), (.equalEqual, .equal), (.notEqual, .notEqual)]
def termOps : List (TokKind × BinOp) := [(.plus, .add), (.minus, .sub)]
def factorOps : List (TokKind × BinOp) := [(.multiply, .mul), (.divide, .div)]
def perFactorOps : List (TokKind × BinOp) := [(.per, .div)]

/-- `next_token_could_start_power_expression` -/
def couldStartPower (k : TokKind) : Bool :=
  k == .number || k == .identifier || k == .leftParen || k == .questionMark

/-- the `!`-run of `factorial`: how many, and what follows -/
def countBangs : List Token → Nat × List Token
  | [] => (0, [])
  | t :: ts => if t.kind == .exclamationMark then let r := countBangs ts; (r.1 + 1, r.2) else (0, t :: ts)

/-! ## the levels -/

mutual

/-- `expression` -/
def expression : Nat → List Token → PRes Expr
  | 0, ts => .error (.outOfFuel, ts)
  | n + 1, ts => postfixApply n ts

/-- `postfix_apply` -/
def postfixApply : Nat → List Token → PRes Expr
  | 0, ts => .error (.outOfFuel, ts)
  | n + 1, ts =>
    match condition n ts with
    | .error e => .error e
    | .ok (e, ts') => postfixLoop n e ts'

def postfixLoop : Nat → Expr → List Token → PRes Expr
  | 0, _, ts => .error (.outOfFuel, ts)
  | n + 1, e, ts =>
    match ts with
    | [] => .ok (e, ts)
    | t :: rest =>
      if t.kind == .postfixApply then
        match call n (skipNewlines rest) with
        | .error x => .error x
        | .ok (.ident name, ts') => postfixLoop n (.call (.ident name) [e]) ts'
        | .ok (.call f args, ts') => postfixLoop n (.call f (args ++ [e])) ts'
        | .ok (_, ts') => .error (.expectedIdentifierOrCallAfterPostfixApply, ts')
      else .ok (e, ts)

/-- `condition` -/
def condition : Nat → List Token → PRes Expr
  | 0, ts => .error (.outOfFuel, ts)
  | n + 1, ts =>
    match ts with
    | [] => conversion n ts
    | t :: rest =>
      if t.kind == .if_ then
        match conversion n rest with
        | .error e => .error e
        | .ok (c, ts1) =>
          match skipNewlines ts1 with
          | [] => .error (.expectedThen, [])
          | t2 :: rest2 =>
            if t2.kind != .then_ then .error (.expectedThen, t2 :: rest2) else
            match condition n (skipNewlines rest2) with
            | .error e => .error e
            | .ok (th, ts2) =>
              match skipNewlines ts2 with
              | [] => .error (.expectedElse, [])
              | t3 :: rest3 =>
                if t3.kind != .else_ then .error (.expectedElse, t3 :: rest3) else
                match condition n (skipNewlines rest3) with
                | .error e => .error e
                | .ok (el, ts3) => .ok (.cond c th el, ts3)
      else conversion n ts

/-- `conversion` -/
def conversion : Nat → List Token → PRes Expr
  | 0, ts => .error (.outOfFuel, ts)
  | n + 1, ts => parseBinop conversionOps (logicalOr n) n ts

/-- `logical_or` -/
def logicalOr : Nat → List Token → PRes Expr
  | 0, ts => .error (.outOfFuel, ts)
  | n + 1, ts => parseBinop logicalOrOps (logicalAnd n) n ts

/-- `logical_and` -/
def logicalAnd : Nat → List Token → PRes Expr
  | 0, ts => .error (.outOfFuel, ts)
  | n + 1, ts => parseBinop logicalAndOps (logicalNeg n) n ts

/-- `logical_neg` -/
def logicalNeg : Nat → List Token → PRes Expr
  | 0, ts => .error (.outOfFuel, ts)
  | n + 1, ts =>
    match ts with
    | [] => comparison n ts
    | t :: rest =>
      if t.kind == .exclamationMark then
        match logicalNeg n rest with
        | .error e => .error e
        | .ok (e, ts') => .ok (.lnot e, ts')
      else comparison n ts

/-- `comparison` -/
def comparison : Nat → List Token → PRes Expr
  | 0, ts => .error (.outOfFuel, ts)
  | n + 1, ts => parseBinop comparisonOps (term n) n ts

/-- `term` -/
def term : Nat → List Token → PRes Expr
  | 0, ts => .error (.outOfFuel, ts)
  | n + 1, ts => parseBinop termOps (factor n) n ts

/-- `factor` -/
def factor : Nat → List Token → PRes Expr
  | 0, ts => .error (.outOfFuel, ts)
  | n + 1, ts => parseBinop factorOps (perFactor n) n ts

/-- `per_factor` -/
def perFactor : Nat → List Token → PRes Expr
  | 0, ts => .error (.outOfFuel, ts)
  | n + 1, ts => parseBinop perFactorOps (unary n) n ts

/-- `unary` -/
def unary : Nat → List Token → PRes Expr
  | 0, ts => .error (.outOfFuel, ts)
  | n + 1, ts =>
    match ts with
    | [] => ifactor n ts
    | t :: rest =>
      if t.kind == .minus then
        match unary n rest with
        | .error e => .error e
        | .ok (e, ts') => .ok (.neg e, ts')
      else if t.kind == .plus then unary n rest
      else ifactor n ts

/-- `ifactor` -/
def ifactor : Nat → List Token → PRes Expr
  | 0, ts => .error (.outOfFuel, ts)
  | n + 1, ts =>
    match power n ts with
    | .error e => .error e
    | .ok (e, ts') => ifactorLoop n e ts'

def ifactorLoop : Nat → Expr → List Token → PRes Expr
  | 0, _, ts => .error (.outOfFuel, ts)
  | n + 1, e, ts =>
    if couldStartPower (peekKind ts) then
      match power n ts with
      | .error x => .error x
      | .ok (rhs, ts') => ifactorLoop n (.imul e rhs) ts'
    else .ok (e, ts)

/-- `power` -/
def power : Nat → List Token → PRes Expr
  | 0, ts => .error (.outOfFuel, ts)
  | n + 1, ts =>
    match factorial n ts with
    | .error e => .error e
    | .ok (e, ts') =>
      match ts' with
      | [] => .ok (e, ts')
      | t :: rest =>
        if t.kind == .power then
          match rest with
          | [] =>
            match power n rest with
            | .error x => .error x
            | .ok (rhs, ts'') => .ok (.bin .power e rhs, ts'')
          | t2 :: rest2 =>
            if t2.kind == .minus then
              match power n rest2 with
              | .error x => .error x
              | .ok (rhs, ts'') => .ok (.bin .power e (.neg rhs), ts'')
            else
              match power n rest with
              | .error x => .error x
              | .ok (rhs, ts'') => .ok (.bin .power e rhs, ts'')
        else .ok (e, ts')

/-- `factorial` -/
def factorial : Nat → List Token → PRes Expr
  | 0, ts => .error (.outOfFuel, ts)
  | n + 1, ts =>
    match unicodePower n ts with
    | .error e => .error e
    | .ok (e, ts') =>
      let r := countBangs ts'
      if r.1 != 0 then .ok (.fact r.1 e, r.2) else .ok (e, ts')

/-- `unicode_power` -/
def unicodePower : Nat → List Token → PRes Expr
  | 0, ts => .error (.outOfFuel, ts)
  | n + 1, ts =>
    match call n ts with
    | .error e => .error e
    | .ok (e, ts') =>
      match ts' with
      | [] => .ok (e, ts')
      | t :: rest => if t.kind == .unicodeExponent then .ok (.upow e t, rest) else .ok (e, ts')

/-- `call` -/
def call : Nat → List Token → PRes Expr
  | 0, ts => .error (.outOfFuel, ts)
  | n + 1, ts =>
    match primary n ts with
    | .error e => .error e
    | .ok (e, ts') => callLoop n e ts'

def callLoop : Nat → Expr → List Token → PRes Expr
  | 0, _, ts => .error (.outOfFuel, ts)
  | n + 1, e, ts =>
    match ts with
    | [] => .ok (e, ts)
    | t :: rest =>
      if t.kind == .leftParen then
        match arguments n rest with
        | .error x => .error x
        | .ok (args, ts') => callLoop n (.call e args) ts'
      else if t.kind == .period then
        match rest with
        | [] => .error (.expectedIdentifier, [])
        | t2 :: rest2 =>
          if t2.kind == .identifier then callLoop n (.field e t2.lexeme) rest2
          else .error (.expectedIdentifier, t2 :: rest2)
      else .ok (e, ts)

/-- `arguments` (after the opening parenthesis) -/
def arguments : Nat → List Token → PRes (List Expr)
  | 0, ts => .error (.outOfFuel, ts)
  | n + 1, ts =>
    match skipNewlines ts with
    | [] =>
      -- cannot happen (the slice ends in `Eof`); the Rust code would report the error of `expression` at `Eof`
      .error (.expectedPrimary, [])
    | t :: rest =>
      if t.kind == .rightParen then .ok ([], rest)
      else
        match expression n (t :: rest) with
        | .error e => .error e
        | .ok (e, ts') => argumentsLoop n [e] ts'

def argumentsLoop : Nat → List Expr → List Token → PRes (List Expr)
  | 0, _, ts => .error (.outOfFuel, ts)
  | n + 1, args, ts =>
    match skipNewlines ts with
    | [] => .error (.missingClosingParen, [])
    | t :: rest =>
      if t.kind == .comma then
        match skipNewlines rest with
        | [] => .error (.missingClosingParen, [])
        | t2 :: rest2 =>
          if t2.kind == .rightParen then .ok (args, rest2)
          else
            match expression n (t2 :: rest2) with
            | .error (_, pos) => .error (.missingClosingParen, pos)
            | .ok (e, ts') => argumentsLoop n (args ++ [e]) ts'
      else if t.kind == .rightParen then .ok (args, rest)
      else .error (.missingClosingParen, t :: rest)

/-- the `while self.match_exact(tokens, RightBracket).is_none()` loop of a list expression;
`ts` has had its empty lines skipped -/
def listLoop : Nat → List Expr → List Token → PRes Expr
  | 0, _, ts => .error (.outOfFuel, ts)
  | n + 1, acc, ts =>
    match ts with
    | [] => .error (.expectedPrimary, [])
    | t :: rest =>
      if t.kind == .rightBracket then .ok (.list acc, rest)
      else
        match expression n (skipNewlines ts) with
        | .error e => .error e
        | .ok (e, ts1) =>
          match skipNewlines ts1 with
          | [] => .error (.expectedCommaOrRightBracketInList, [])
          | t2 :: rest2 =>
            if t2.kind == .comma then listLoop n (acc ++ [e]) (skipNewlines rest2)
            else if t2.kind == .rightBracket then listLoop n (acc ++ [e]) (skipNewlines (t2 :: rest2))
            else .error (.expectedCommaOrRightBracketInList, t2 :: rest2)

/-- the field loop of a struct instantiation; `ts` has had its empty lines skipped -/
def structLoop : Nat → List Char → List (List Char × Expr) → List Token → PRes Expr
  | 0, _, _, ts => .error (.outOfFuel, ts)
  | n + 1, name, acc, ts =>
    match ts with
    | [] => .error (.expectedFieldNameInStruct, [])
    | t :: rest =>
      if t.kind == .rightCurly then .ok (.struct name acc, rest)
      else
        match skipNewlines ts with
        | [] => .error (.expectedFieldNameInStruct, [])
        | f :: rest1 =>
          if f.kind != .identifier then .error (.expectedFieldNameInStruct, f :: rest1) else
          match skipNewlines rest1 with
          | [] => .error (.expectedColonAfterFieldName, [])
          | c :: rest2 =>
            if c.kind != .colon then .error (.expectedColonAfterFieldName, c :: rest2) else
            match expression n (skipNewlines rest2) with
            | .error e => .error e
            | .ok (e, ts3) =>
              match skipNewlines ts3 with
              | [] => .error (.expectedCommaOrRightCurlyInStructFieldList, [])
              | t4 :: rest4 =>
                if t4.kind == .comma then structLoop n name (acc ++ [(f.lexeme, e)]) (skipNewlines rest4)
                else if t4.kind == .rightCurly then structLoop n name (acc ++ [(f.lexeme, e)]) (t4 :: rest4)
                else .error (.expectedCommaOrRightCurlyInStructFieldList, t4 :: rest4)

/-- `primary` -/
def primary : Nat → List Token → PRes Expr
  | 0, ts => .error (.outOfFuel, ts)
  | n + 1, ts =>
    match ts with
    | [] => .error (.expectedPrimary, [])
    | t :: rest =>
      match t.kind with
      | .number => .ok (.scalar t, rest)
      | .intBase16 | .intBase8 | .intBase2 =>
        if basedOverflows t then .error (.overflowInNumberLiteral, rest) else .ok (.scalar t, rest)
      | .nan | .inf => .ok (.scalar t, rest)
      | .leftBracket => listLoop n [] (skipNewlines rest)
      | .questionMark => .ok (.hole, rest)
      | .identifier =>
        match rest with
        | [] => .ok (.ident t.lexeme, rest)
        | t2 :: rest2 =>
          if t2.kind == .leftCurly then structLoop n t.lexeme [] (skipNewlines rest2)
          else .ok (.ident t.lexeme, rest)
      | .true_ => .ok (.boolean true, rest)
      | .false_ => .ok (.boolean false, rest)
      | .stringFixed => .ok (.str t, rest)
      | .stringInterpolationStart => .error (.unsupported, ts)
      | .leftParen =>
        match expression n rest with
        | .error e => .error e
        | .ok (e, ts') =>
          match ts' with
          | [] => .error (.missingClosingParen, [])
          | t2 :: rest2 => if t2.kind == .rightParen then .ok (e, rest2) else .error (.missingClosingParen, ts')
      | .procedurePrint | .procedureAssertEq => .error (.inlineProcedureUsage, ts)
      | _ => .error (.expectedPrimary, ts)

end

/-! ## statements and the program loop -/

def isProcedure (k : TokKind) : Bool :=
  k == .procedurePrint || k == .procedureAssert || k == .procedureAssertEq || k == .procedureType

def isDefinitionStart (k : TokKind) : Bool :=
  k == .let_ || k == .fn_ || k == .dimension || k == .at || k == .unit || k == .use || k == .struct_

/-- `statement` (expression and procedure call only) -/
def statement (n : Nat) (ts : List Token) : PRes Stmt :=
  match ts with
  | [] => .error (.expectedPrimary, [])
  | t :: rest =>
    if isDefinitionStart t.kind then .error (.unsupported, ts)
    else if isProcedure t.kind then
      match rest with
      | [] => .error (.expectedLeftParenAfterProcedureName, [])
      | t2 :: rest2 =>
        if t2.kind == .leftParen then
          match arguments n rest2 with
          | .error e => .error e
          | .ok (args, ts') => .ok (.proc t.kind args, ts')
        else .error (.expectedLeftParenAfterProcedureName, rest)
    else
      match expression n ts with
      | .error e => .error e
      | .ok (e, ts') => .ok (.expr e, ts')

/-- `recover_from_error`: skip to the next newline, semicolon or the end -/
def recover : List Token → List Token
  | [] => []
  | t :: ts => if t.kind == .newline || t.kind == .semicolon || t.kind == .eof then t :: ts else recover ts

/-- kind of the token just before the suffix `rest` of `ts` (`self.last(tokens)`) -/
def lastBefore (ts rest : List Token) : Option TokKind :=
  (ts[ts.length - rest.length - 1]?).map (·.kind)

structure ProgResult where
  stmts : List Stmt
  errors : List PErr
deriving Repr, Inhabited

/-- the `while !self.is_at_end(tokens)` loop of `Parser::parse`; `all` is the whole token list -/
def progLoop (all : List Token) : Nat → Nat → List Token → ProgResult → ProgResult
  | 0, _, _, acc => { acc with errors := acc.errors ++ [.outOfFuel] }
  | k + 1, n, ts, acc =>
    if peekKind ts == .eof then acc else
    let (acc1, ts1) : ProgResult × List Token :=
      match statement n ts with
      | .ok (s, ts') => ({ acc with stmts := acc.stmts ++ [s] }, ts')
      | .error (e, pos) =>
        -- recovery skips to the end of the line from the position at which the error was raised
        ({ acc with errors := acc.errors ++ [e] }, recover pos)
    match ts1 with
    | [] => acc1
    | t :: rest =>
      if t.kind == .newline then progLoop all k n (skipNewlines ts1) acc1
      else if t.kind == .semicolon then progLoop all k n rest acc1
      else if t.kind == .eof then acc1
      else if t.kind == .equal then
        let e := if lastBefore all ts1 == some .rightParen then PErr.trailingEqualSignFunction else .trailingEqualSign
        progLoop all k n (recover ts1) { acc1 with errors := acc1.errors ++ [e] }
      else progLoop all k n (recover ts1) { acc1 with errors := acc1.errors ++ [.trailingCharacters] }

/-- enough fuel for every token list (each level costs one unit, each token is consumed once) -/
def fuelFor (ts : List Token) : Nat := 100 * (ts.length + 2)

/-- `Parser::parse` on a token list that ends in `Eof` -/
def parseTokens (ts : List Token) : ProgResult :=
  progLoop ts (ts.length + 2) (fuelFor ts) (skipNewlines ts) ⟨[], []⟩

/-- parse one expression that must be followed by the end of the input -/
def parseExpr (ts : List Token) : Except PErr Expr :=
  match expression (fuelFor ts) ts with
  | .error (e, _) => .error e
  | .ok (e, rest) => if peekKind rest == .eof then .ok e else .error .trailingCharacters

end NumbatModel.Syntax
