/-!
# M-Ty — dimension types, constraints and the constraint solver of numbat's type checker

Hand-written executable model (core only) of

* `numbat/src/typed_ast.rs`: `DTypeFactor`, `DType` (`canonicalize`, `multiply`, `power`, `inverse`, `divide`,
  `type_variables`, `deconstruct_as_single_type_variable`), `Type` (`type_variables`, `contains`, `is_closed`,
  `has_incompatible_constructor`),
* `numbat/src/type_variable.rs`: `TypeVariable` and its derived order,
* `numbat/src/typechecker/substitutions.rs`: `Substitution` (`lookup`, `extend`), `ApplySubstitution` for `Type`
  and `DType`,
* `numbat/src/typechecker/constraints.rs`: `Constraint`, `try_trivial_resolution`, `try_satisfy`, `ConstraintSet::add`
  and `ConstraintSet::solve`,
* the generalisation step of `type_scheme.rs` / `qualified_type.rs` and the exponent normalisation of
  `check_statement` (used by C16).

Mirrors the code as it is: factor lists are canonicalised by a *stable* sort with the order
`TVar < BaseDimension < TPar` (type variables by the derived order of `TypeVariable`: `Named` before
`Quantified`, names as strings — `"T10" < "T2"`), merging of adjacent equal factors and removal of zero
exponents; a type parameter `D` is looked up in a substitution under the name `Named "D"`; `Dimension [v¹]` is
replaced by whatever `v` is mapped to; `Substitution::extend` propagates the error.  Exponents are exact rationals
(core `Rat`): overflow of numbat's `Ratio<i128>` is outside this model (it belongs to C08).
Struct types and `HasField` are not modelled.
-/
namespace NumbatModel.Types

/-! ## type variables and factors -/

inductive TV where
  | named (n : String)
  | quant (i : Nat)
  deriving DecidableEq, Repr, Inhabited

/-- derived `Ord` of `TypeVariable` -/
def TV.cmp : TV → TV → Ordering
  | .named a, .named b => compare a b
  | .named _, .quant _ => .lt
  | .quant _, .named _ => .gt
  | .quant a, .quant b => compare a b

inductive DFactor where
  | tvar (v : TV)
  | tpar (n : String)
  | base (n : String)
  deriving DecidableEq, Repr, Inhabited

/-- the comparison closure of `DType::try_canonicalize` -/
def DFactor.cmp : DFactor → DFactor → Ordering
  | .tvar a, .tvar b => a.cmp b
  | .tvar _, _ => .lt
  | .base a, .base b => compare a b
  | .base _, .tvar _ => .gt
  | .base _, .tpar _ => .lt
  | .tpar a, .tpar b => compare a b
  | .tpar _, _ => .gt

/-- a factor list; a `DType` is a factor list in canonical form -/
abbrev Factors := List (DFactor × Rat)

def factorLe (a b : DFactor × Rat) : Bool := a.1.cmp b.1 != .gt

def sortFactors (fs : Factors) : Factors := fs.mergeSort factorLe

/-- "merge powers of equal factors": adjacent equal factors are added up -/
def mergeGo (f : DFactor) (n : Rat) : Factors → Factors
  | [] => [(f, n)]
  | (g, m) :: rest => if g = f then mergeGo f (n + m) rest else (f, n) :: mergeGo g m rest

def mergeAdj : Factors → Factors
  | [] => []
  | (f, n) :: rest => mergeGo f n rest

def dropZeros (fs : Factors) : Factors := fs.filter (fun p => p.2 != 0)

/-- `DType::canonicalize` -/
def canon (fs : Factors) : Factors := dropZeros (mergeAdj (sortFactors fs))

def dmul (a b : Factors) : Factors := canon (a ++ b)
def dpow (a : Factors) (n : Rat) : Factors := canon (a.map (fun p => (p.1, n * p.2)))
def dinv (a : Factors) : Factors := dpow a (-1)
def ddiv (a b : Factors) : Factors := dmul a (dinv b)
def dOfTVar (v : TV) : Factors := canon [(.tvar v, 1)]
def dOfTPar (n : String) : Factors := canon [(.tpar n, 1)]

/-- `deconstruct_as_single_type_variable` -/
def singleTVar : Factors → Option TV
  | [(.tvar v, e)] => if e = 1 then some v else none
  | _ => none

def insertTV (v : TV) : List TV → List TV
  | [] => [v]
  | w :: ws => if v.cmp w != .gt then v :: w :: ws else w :: insertTV v ws

/-- `sort(); dedup()` on type variables -/
def sortDedupTV (vs : List TV) : List TV :=
  let sorted := vs.foldr insertTV []
  sorted.eraseDups

/-- `DType::type_variables` -/
def dTypeVars (incl : Bool) (d : Factors) : List TV :=
  sortDedupTV (d.filterMap (fun p => match p.1 with
    | .tvar v => some v
    | .tpar n => if incl then some (.named n) else none
    | .base _ => none))

/-! ## types -/

mutual
inductive Ty where
  | tvar (v : TV)
  | tpar (n : String)
  | dim (d : Factors)
  | bool
  | string
  | datetime
  | fn (ps : TyL) (r : Ty)
  | list (e : Ty)
inductive TyL where
  | nil
  | cons (t : Ty) (ts : TyL)
end

instance : Inhabited Ty := ⟨.bool⟩

def TyL.toList : TyL → List Ty
  | .nil => []
  | .cons t ts => t :: ts.toList

def TyL.ofList : List Ty → TyL
  | [] => .nil
  | t :: ts => .cons t (TyL.ofList ts)

def TyL.length : TyL → Nat
  | .nil => 0
  | .cons _ ts => ts.length + 1

mutual
/-- derived `PartialEq` of `Type` -/
def Ty.beq : Ty → Ty → Bool
  | .tvar a, .tvar b => a == b
  | .tpar a, .tpar b => a == b
  | .dim a, .dim b => a == b
  | .bool, .bool => true
  | .string, .string => true
  | .datetime, .datetime => true
  | .fn p1 r1, .fn p2 r2 => TyL.beq p1 p2 && Ty.beq r1 r2
  | .list a, .list b => Ty.beq a b
  | _, _ => false
def TyL.beq : TyL → TyL → Bool
  | .nil, .nil => true
  | .cons a as, .cons b bs => Ty.beq a b && TyL.beq as bs
  | _, _ => false
end

mutual
/-- `Type::type_variables` -/
def Ty.typeVars (incl : Bool) : Ty → List TV
  | .tvar v => [v]
  | .tpar n => if incl then [.named n] else []
  | .dim d => dTypeVars incl d
  | .bool => []
  | .string => []
  | .datetime => []
  | .fn ps r => sortDedupTV (Ty.typeVars incl r ++ TyL.typeVars incl ps)
  | .list e => Ty.typeVars incl e
def TyL.typeVars (incl : Bool) : TyL → List TV
  | .nil => []
  | .cons t ts => Ty.typeVars incl t ++ TyL.typeVars incl ts
end

def Ty.contains (t : Ty) (x : TV) (incl : Bool) : Bool := (t.typeVars incl).contains x
def Ty.isClosed (t : Ty) : Bool := (t.typeVars false).isEmpty

def Ty.isSingleTVarDim : Ty → Bool
  | .dim d => (singleTVar d).isSome
  | _ => false

/-- `Type::has_incompatible_constructor` -/
def Ty.incompatible : Ty → Ty → Bool
  | .tvar _, _ => false
  | _, .tvar _ => false
  | .tpar _, _ => false
  | _, .tpar _ => false
  | t1, t2 =>
    if t1.isSingleTVarDim || t2.isSingleTVarDim then false else
    match t1, t2 with
    | .dim _, .dim _ => false
    | .bool, .bool => false
    | .string, .string => false
    | .datetime, .datetime => false
    | .fn _ _, .fn _ _ => false
    | .list _, .list _ => false
    | _, _ => true

/-! ## substitutions -/

abbrev Subst := List (TV × Ty)

def Subst.lookup (s : Subst) (v : TV) : Option Ty :=
  match s.find? (fun p => p.1 == v) with
  | some p => some p.2
  | none => none

/-- one iteration of the loop in `ApplySubstitution for DType`; `Except.error t` = `SubstitutedNonDTypeWithinDType t` -/
def dApplyStep (s : Subst) (acc : Factors) (p : DFactor × Rat) : Except Ty Factors :=
  match p.1 with
  | .tvar tv =>
    match s.lookup tv with
    | none => .ok acc
    | some (.dim dt) => .ok (dmul (ddiv acc (dpow (dOfTVar tv) p.2)) (dpow dt p.2))
    | some (.tvar w) => .ok (dmul (ddiv acc (dpow (dOfTVar tv) p.2)) (dpow (dOfTVar w) p.2))
    | some t => .error t
  | .tpar n =>
    match s.lookup (.named n) with
    | none => .ok acc
    | some (.dim dt) => .ok (dmul (ddiv acc (dpow (dOfTPar n) p.2)) (dpow dt p.2))
    | some (.tvar w) => .ok (dmul (ddiv acc (dpow (dOfTPar n) p.2)) (dpow (dOfTVar w) p.2))
    | some t => .error t
  | .base _ => .ok acc

def dApplyLoop (s : Subst) : Factors → Factors → Except Ty Factors
  | acc, [] => .ok acc
  | acc, p :: rest =>
    match dApplyStep s acc p with
    | .ok acc' => dApplyLoop s acc' rest
    | .error t => .error t

/-- `ApplySubstitution for DType` -/
def dApply (s : Subst) (d : Factors) : Except Ty Factors := dApplyLoop s d d

mutual
/-- `ApplySubstitution for Type` -/
def Ty.apply (s : Subst) : Ty → Except Ty Ty
  | .tvar v => match s.lookup v with
    | some t => .ok t
    | none => .ok (.tvar v)
  | .tpar n => match s.lookup (.named n) with
    | some t => .ok t
    | none => .ok (.tpar n)
  | .dim d =>
    match singleTVar d with
    | some v => (match s.lookup v with
      | some t => .ok t
      | none => .ok (.dim d))
    | none => (match dApply s d with
      | .ok d' => .ok (.dim d')
      | .error t => .error t)
  | .bool => .ok .bool
  | .string => .ok .string
  | .datetime => .ok .datetime
  | .fn ps r =>
    match TyL.apply s ps with
    | .error t => .error t
    | .ok ps' => (match Ty.apply s r with
      | .error t => .error t
      | .ok r' => .ok (.fn ps' r'))
  | .list e => match Ty.apply s e with
    | .error t => .error t
    | .ok e' => .ok (.list e')
def TyL.apply (s : Subst) : TyL → Except Ty TyL
  | .nil => .ok .nil
  | .cons t ts =>
    match Ty.apply s t with
    | .error e => .error e
    | .ok t' => (match TyL.apply s ts with
      | .error e => .error e
      | .ok ts' => .ok (.cons t' ts'))
end

/-- `Substitution::extend`: the new substitution is applied to every collected binding, the first
substitution error is returned (before the repair of the `unwrap()` it was a panic) -/
def Subst.extend : Subst → Subst → Except Ty Subst
  | [], other => .ok other
  | (v, t) :: rest, other =>
    match Ty.apply other t with
    | .error e => .error e
    | .ok t' => (match Subst.extend rest other with
      | .error e => .error e
      | .ok rest' => .ok ((v, t') :: rest'))

/-! ## constraints -/

inductive Constraint where
  | equal (a b : Ty)
  | isDType (t : Ty)
  | equalScalar (d : Factors)

inductive Trivial where
  | satisfied | violated | unknown
  deriving DecidableEq, Repr

/-- `Constraint::try_trivial_resolution` -/
def Constraint.trivial : Constraint → Trivial
  | .equal t1 t2 =>
    if t1.isClosed && t2.isClosed then (if t1.beq t2 then .satisfied else .violated)
    else match t1, t2 with
      | .fn p1 _, .fn p2 _ =>
        if p1.length != p2.length then .violated
        else if t1.incompatible t2 then .violated else .unknown
      | _, _ => if t1.incompatible t2 then .violated else .unknown
  | .isDType t =>
    match t with
    | .dim d =>
      -- a dimension type that mentions type variables or type parameters goes to the solver, which records
      -- them as dimension variables (a type parameter then needs its `Dim` bound)
      if (dTypeVars true d).isEmpty then .satisfied else .unknown
    | _ => if t.isClosed then .violated else .unknown
  | .equalScalar d =>
    if d == [] then .satisfied
    else if (dTypeVars false d).isEmpty then .violated
    else .unknown

def Constraint.apply (s : Subst) : Constraint → Except Ty Constraint
  | .equal a b =>
    match a.apply s with
    | .error t => .error t
    | .ok a' => (match b.apply s with
      | .error t => .error t
      | .ok b' => .ok (.equal a' b'))
  | .isDType t =>
    match t.apply s with
    | .error e => .error e
    | .ok t' => .ok (.isDType t')
  | .equalScalar d =>
    match dApply s d with
    | .error e => .error e
    | .ok d' => .ok (.equalScalar d')

def applyAll (s : Subst) : List Constraint → Except Ty (List Constraint)
  | [] => .ok []
  | c :: cs =>
    match c.apply s with
    | .error t => .error t
    | .ok c' => (match applyAll s cs with
      | .error t => .error t
      | .ok cs' => .ok (c' :: cs'))

/-- new equality constraints of two parameter lists, pairwise (`zip`: the shorter length) -/
def zipEqual : TyL → TyL → List Constraint
  | .cons a as, .cons b bs => .equal a b :: zipEqual as bs
  | _, _ => []

/-- result of `try_satisfy`: `none` = cannot (yet) be solved; `panic` = a division by a zero exponent, which
cannot happen for canonical factor lists -/
inductive Sat where
  | none
  | some (s : Subst) (new : List Constraint)
  | panic

/-- the Gaussian-elimination step on `tv^k · rest = 1`: `tv := rest^(-1/k)` -/
def gaussStep (tv : TV) (k : Rat) (rest : Factors) : Sat :=
  if k = 0 then .panic
  else .some [(tv, .dim (canon (rest.map (fun p => (p.1, -p.2 / k))))) ] []

/-- `Equal(TVar x, t)` when `t` contains `x` (so arm 2 does not apply): only `Equal(TVar, Dimension)` is left -/
def satVarDim (x : TV) (t : Ty) : Sat :=
  match t with
  | .dim dx =>
    (match singleTVar dx with
      | some y => if !(Ty.tvar x).contains y false then .some [(y, .tvar x)] []
                  else .some [] [.equal (.dim (dOfTVar x)) (.dim dx)]
      | none => .some [] [.equal (.dim (dOfTVar x)) (.dim dx)])
  | _ => .none

/-- `Equal(TVar x, t)` / `Equal(t, TVar x)` (the two alternatives of arm 2, then arms 3, 4, 8) -/
def satVar (x : TV) (t : Ty) : Sat :=
  if !t.contains x false then .some [(x, t)] [] else satVarDim x t

/-- the single type variable of a `Dimension` type if it does not occur in `t` (guards of arms 3 and 4) -/
def freeSingle (d : Factors) (t : Ty) : Option TV :=
  match singleTVar d with
  | some x => if !t.contains x false then some x else none
  | none => none

/-- `Equal(Dimension d1, t)` with `t` not a type variable (arms 3, 4, 9) -/
def satDimLeft (d1 : Factors) (t : Ty) : Sat :=
  match freeSingle d1 t with
  | some x => .some [(x, t)] []
  | none =>
    (match t with
      | .dim d2 =>
        (match freeSingle d2 (.dim d1) with
          | some y => .some [(y, .dim d1)] []
          | none => .some [] [.equalScalar (ddiv d1 d2)])
      | _ => .none)

/-- `Equal(t, Dimension d2)` with `t` neither a type variable nor a `Dimension` (arm 4) -/
def satDimRight (t : Ty) (d2 : Factors) : Sat :=
  match freeSingle d2 t with
  | some y => .some [(y, t)] []
  | none => .none

/-- `Constraint::try_satisfy` for `Equal` -/
def satEqual (t1 t2 : Ty) : Sat :=
  if t1.beq t2 then .some [] [] else
  match t1, t2 with
  | .tvar x, t => satVar x t
  | t, .tvar x => satVar x t
  | .dim d1, t => satDimLeft d1 t
  | t, .dim d2 => satDimRight t d2
  | .fn p1 r1, .fn p2 r2 =>
    if p1.length == p2.length then .some [] (.equal r1 r2 :: zipEqual p1 p2) else .none
  | .list a, .list b => .some [] [.equal a b]
  | _, _ => .none

/-- `Constraint::try_satisfy` -/
def Constraint.trySatisfy : Constraint → Sat
  | .equal t1 t2 => satEqual t1 t2
  | .isDType (.dim inner) =>
    .some [] ((dTypeVars true inner).map (fun v => .isDType (.tvar v)))
  | .isDType _ => .none
  | .equalScalar d =>
    if d == [] then .some [] [] else
    match d with
    | (.tvar tv, k) :: rest => gaussStep tv k rest
    | _ => .none

/-! ## the solver -/

inductive SolveResult where
  | ok (s : Subst) (dv : List TV)
  | couldNotSolve (rest : List Constraint)
  | substError (t : Ty)
  | panic
  | outOfFuel

/-- position, substitution and new constraints of the first constraint `try_satisfy` can handle -/
inductive Found where
  | none
  | at (i : Nat) (s : Subst) (new : List Constraint)
  | panic

def findFirst : List Constraint → Nat → Found
  | [], _ => .none
  | c :: cs, i =>
    match c.trySatisfy with
    | .some s new => .at i s new
    | .panic => .panic
    | .none => findFirst cs (i + 1)

/-- `get_dtype_constraint_type_variable` -/
def Constraint.dtypeVar : Constraint → Option TV
  | .isDType (.tvar v) => some v
  | .isDType (.tpar n) => some (.named n)
  | _ => none

/-- the part of `solve` after the loop -/
def finish (s : Subst) (cs : List Constraint) : SolveResult :=
  let remaining := cs.filter (fun c => c.dtypeVar.isNone)
  if remaining.isEmpty then .ok s (sortDedupTV (cs.filterMap Constraint.dtypeVar))
  else .couldNotSolve remaining

/-- `ConstraintSet::solve`: "first satisfiable constraint, apply, repeat" -/
def solveLoop : Nat → List Constraint → Subst → SolveResult
  | 0, _, _ => .outOfFuel
  | fuel + 1, cs, s =>
    match findFirst cs 0 with
    | .none => finish s cs
    | .panic => .panic
    | .at i s1 new =>
      match applyAll s1 (cs.eraseIdx i ++ new) with
      | .error t => .substError t
      | .ok cs' =>
        match s.extend s1 with
        | .error t => .substError t
        | .ok s' => solveLoop fuel cs' s'

def solve (fuel : Nat) (cs : List Constraint) : SolveResult := solveLoop fuel cs []

/-- `ConstraintSet::add`: trivially satisfied constraints are not stored -/
def addAll (cs : List Constraint) : List Constraint × List Trivial :=
  let ts := cs.map Constraint.trivial
  ((cs.zip ts).filterMap (fun p => if p.2 = .satisfied then none else some p.1), ts)

/-! ## generalisation (type_scheme.rs / qualified_type.rs) and exponent normalisation (check_statement) -/

structure Scheme where
  nq : Nat
  bounds : List Ty
  ty : Ty

/-- the chain of single substitutions of `QualifiedType::quantify` -/
def quantifyLoop : List TV → Nat → Ty → List Ty → Option (Ty × List Ty)
  | [], _, t, bs => some (t, bs)
  | v :: vs, i, t, bs =>
    let s : Subst := [(v, .tvar (.quant i))]
    match t.apply s with
    | .error _ => none
    | .ok t' =>
      let bs' := bs.map (fun b => match b.apply s with | .ok b' => b' | .error _ => b)
      quantifyLoop vs (i + 1) t' bs'

/-- `TypeScheme::generalize` on a concrete type -/
def generalize (dv : List TV) (t : Ty) : Option Scheme :=
  let free := t.typeVars true
  let bounds := (dv.filter (fun v => t.contains v true)).map Ty.tvar
  match quantifyLoop free 0 t bounds with
  | some (t', bs) => some { nq := free.length, bounds := bs, ty := t' }
  | none => none

/-- least common multiple of the denominators (`num_integer::lcm` folded from 1) -/
def lcmDen (es : List Rat) : Nat := es.foldl (fun acc e => Nat.lcm acc e.den) 1

/-- the substitution `tv := tv^lcm` of `check_statement` (or nothing if the lcm is 1) -/
def lcmSubst (tv : TV) (es : List Rat) : Subst :=
  let l := lcmDen es
  if l = 1 then [] else [(tv, .dim (dpow (dOfTVar tv) (l : Rat)))]

end NumbatModel.Types
