/-!
# Model of numbat's expression pretty printer and of its string escaping (property C15)

Mirrors, as they are,
* `typed_ast.rs`: `impl PrettyPrint for Expression`, `with_parens`, `with_parens_liberal`,
  `pretty_print_binop`, `impl PrettyPrint for StringPart` / `&Vec<StringPart>`,
* `ast.rs`: `impl PrettyPrint for BinaryOperator` (operator text and the blanks around it),
* `pretty_print.rs`: `escape_numbat_string`,
* `parser.rs`: `strip_and_escape`,
* `tokenizer.rs`: `consume_string` (where a string token ends).

The printer produces *print tokens* (`PTok`, the pieces of numbat's `Markup`); the printed text is the
concatenation of their texts (`render`).  The tokens a parser sees are the print tokens without blanks.
Number formatting is not modelled: a scalar carries the text `Number::pretty_print` produced, and the
bit pattern of its value (used only for the `== 2.0` / `== 3.0` tests of the power rule).
Core only; strings are `List Char`.
-/
namespace NumbatModel.Printer

inductive BinOp where
  | add | sub | mul | div | pow | conv | lt | gt | le | ge | eq | ne | and | or
  deriving DecidableEq, Repr, Inhabited

mutual
/-- `typed_ast::Expression` without spans and types -/
inductive Expr where
  | num (bits : Nat) (text : List Char)
  | ident (name : List Char)
  | unit (pfx : List Char) (name : List Char)
  | neg (e : Expr)
  | fact (n : Nat) (e : Expr)
  | not (e : Expr)
  | bin (op : BinOp) (l r : Expr)
  | binDate (op : BinOp) (l r : Expr)
  | call (name : List Char) (args : List Expr)
  | ccall (callee : Expr) (args : List Expr)
  | bool (b : Bool)
  | cond (c t e : Expr)
  | str (parts : List StrPart)
  | mk (name : List Char) (fnames : List (List Char)) (fvals : List Expr)
  | get (e : Expr) (field : List Char)
  | list (es : List Expr)
  | hole
/-- `typed_ast::StringPart` -/
inductive StrPart where
  | fixed (s : List Char)
  | interp (e : Expr) (spec : Option (List Char))
end

instance : Inhabited Expr := ⟨.hole⟩

/-! ## string escaping -/

/-- `pretty_print::escape_numbat_string` -/
def escape : List Char → List Char
  | [] => []
  | c :: cs =>
    (if c = '\n' then ['\\', 'n']
     else if c = '\r' then ['\\', 'r']
     else if c = '\t' then ['\\', 't']
     else if c = '"' then ['\\', '"']
     else if c = '\x00' then ['\\', '0']
     else if c = '{' ∨ c = '}' ∨ c = '\\' then [c, c]
     else [c]) ++ escape cs

/-- the loop of `parser::strip_and_escape` (`last` is `last_char`) -/
def unesc : Option Char → List Char → List Char
  | _, [] => []
  | last, c :: cs =>
    if c = 'n' ∧ last = some '\\' then '\n' :: unesc (some c) cs
    else if c = 'r' ∧ last = some '\\' then '\r' :: unesc (some c) cs
    else if c = 't' ∧ last = some '\\' then '\t' :: unesc (some c) cs
    else if c = '"' ∧ last = some '\\' then '"' :: unesc (some c) cs
    else if c = '0' ∧ last = some '\\' then '\x00' :: unesc (some c) cs
    else if c = '{' ∨ c = '}' ∨ c = '\\' then
      (if last = some c then c :: unesc none cs else unesc (some c) cs)
    else if last = some '\\' then '\\' :: c :: unesc (some c) cs
    else c :: unesc (some c) cs

/-- `parser::strip_and_escape` on a token lexeme: the first and the last *byte* are cut off.
`none` = the Rust function panics (fewer than two bytes, or a cut inside a multi-byte character). -/
def stripAndEscape (s : List Char) : Option (List Char) :=
  match s with
  | [] => none
  | a :: rest =>
    match rest.getLast? with
    | none => none
    | some z => if a.val < 128 ∧ z.val < 128 then some (unesc none rest.dropLast) else none

/-- state of the scan in `Tokenizer::consume_string`: `escaped` is the flag of the Rust loop, `skip` is the
"extra advance" over the second curly bracket of `{{` / `}}` -/
inductive Scan where
  | normal | escaped | skip
  deriving DecidableEq, Repr

/-- `Tokenizer::consume_string`: the number of characters consumed after the opening quote
(or after the `}` that closes an interpolation) before the scan stops. -/
def consumeString : Scan → List Char → Nat
  | _, [] => 0
  | .skip, _ :: cs => 1 + consumeString .normal cs
  | .normal, c :: cs =>
    if c = '\\' then 1 + consumeString .escaped cs
    else if c = '"' then 0
    else if c = '{' ∨ c = '}' then (if cs.head? = some c then 1 + consumeString .skip cs else 0)
    else 1 + consumeString .normal cs
  | .escaped, c :: cs =>
    if c = '{' ∨ c = '}' then (if cs.head? = some c then 1 + consumeString .skip cs else 0)
    else 1 + consumeString .normal cs

/-! ## print tokens -/

inductive Sym where
  | lp | rp | comma | lbrack | rbrack | lcurly | rcurly | colon | dot | bang | minus | sup2 | sup3
  | quote | hole | arrow | bop (o : BinOp)
  deriving DecidableEq, Repr

inductive PTok where
  | sp
  | num (bits : Nat) (text : List Char)
  | id (s : List Char)
  | unit (s : List Char)
  | tyid (s : List Char)
  | kwIf | kwThen | kwElse | kwTrue | kwFalse
  | sym (s : Sym)
  | strFixed (escaped : List Char)
  | spec (s : List Char)
  deriving DecidableEq, Repr

def BinOp.text : BinOp → List Char
  | .add => ['+'] | .sub => ['-'] | .mul => ['×'] | .div => ['/'] | .pow => ['^'] | .conv => ['➞']
  | .lt => ['<'] | .gt => ['>'] | .le => ['≤'] | .ge => ['≥'] | .eq => ['=', '='] | .ne => ['≠']
  | .and => ['&', '&'] | .or => ['|', '|']

def Sym.text : Sym → List Char
  | .lp => ['('] | .rp => [')'] | .comma => [','] | .lbrack => ['['] | .rbrack => [']']
  | .lcurly => ['{'] | .rcurly => ['}'] | .colon => [':'] | .dot => ['.'] | .bang => ['!']
  | .minus => ['-'] | .sup2 => ['²'] | .sup3 => ['³'] | .quote => ['"'] | .hole => ['?']
  | .arrow => ['-', '>'] | .bop o => o.text

def PTok.text : PTok → List Char
  | .sp => [' ']
  | .num _ t => t
  | .id s => s
  | .unit s => s
  | .tyid s => s
  | .kwIf => ['i', 'f'] | .kwThen => ['t', 'h', 'e', 'n'] | .kwElse => ['e', 'l', 's', 'e']
  | .kwTrue => ['t', 'r', 'u', 'e'] | .kwFalse => ['f', 'a', 'l', 's', 'e']
  | .sym s => s.text
  | .strFixed s => s
  | .spec s => s

def render : List PTok → List Char
  | [] => []
  | t :: ts => t.text ++ render ts

/-! ## the printer -/

/-- bit patterns of the f64 values 2.0 and 3.0 -/
def bitsTwo : Nat := 0x4000000000000000
def bitsThree : Nat := 0x4008000000000000

/-- the first arm of `with_parens`: expressions printed without parentheses -/
def Expr.isAtomic : Expr → Bool
  | .neg _ | .fact _ _ | .not _ | .bin _ _ _ | .binDate _ _ _ | .cond _ _ _ => false
  | _ => true

/-- `with_parens`, given the tokens of the expression itself -/
def withParens (e : Expr) (t : List PTok) : List PTok :=
  if e.isAtomic then t else [.sym .lp] ++ t ++ [.sym .rp]

/-- `with_parens_liberal`, given the tokens of the expression itself -/
def withParensLiberal (e : Expr) (t : List PTok) : List PTok :=
  match e with
  | .bin .mul (.num _ _) (.unit _ _) => t
  | _ => withParens e t

def Expr.isBinPow : Expr → Bool
  | .bin .pow _ _ => true
  | _ => false
def Expr.isBinMul : Expr → Bool
  | .bin .mul _ _ => true
  | _ => false
def Expr.isBinAdd : Expr → Bool
  | .bin .add _ _ => true
  | _ => false
def Expr.isCond : Expr → Bool
  | .cond _ _ _ => true
  | _ => false

/-- `impl PrettyPrint for BinaryOperator` -/
def opToks (o : BinOp) : List PTok :=
  match o with
  | .pow => [.sym (.bop .pow)]
  | o => [.sp, .sym (.bop o), .sp]

/-- `pretty_print_binop`, given the tokens `tl`, `tr` of the two operands -/
def binopToks (op : BinOp) (l r : Expr) (tl tr : List PTok) : List PTok :=
  match op with
  | .conv => (if l.isCond then withParens l tl else tl) ++ opToks .conv ++ (if r.isCond then withParens r tr else tr)
  | .mul =>
    (match l, r with
     | .num b t, .unit p n => [.num b t, .sp, .unit (p ++ n)]
     | .num b t, .ident n => [.num b t, .sp, .id n]
     | _, _ =>
       (if l.isBinPow || l.isBinMul then tl else withParensLiberal l tl) ++ opToks .mul ++
       (if r.isBinPow || r.isBinMul then tr else withParensLiberal r tr))
  | .div =>
    (if l.isBinPow || l.isBinMul then tl else withParensLiberal l tl) ++ opToks .div ++
    (if r.isBinPow then tr else withParensLiberal r tr)
  | .add =>
    (if l.isBinPow || l.isBinMul || l.isBinAdd then tl else withParensLiberal l tl) ++ opToks .add ++
    (if r.isBinPow || r.isBinMul || r.isBinAdd then tr else withParensLiberal r tr)
  | .sub =>
    (if l.isBinPow || l.isBinMul then tl else withParensLiberal l tl) ++ opToks .sub ++
    (if r.isBinPow || r.isBinMul then tr else withParensLiberal r tr)
  | .pow =>
    (match r with
     | .num b _ =>
       if b = bitsTwo then withParens l tl ++ [.sym .sup2]
       else if b = bitsThree then withParens l tl ++ [.sym .sup3]
       else withParens l tl ++ opToks .pow ++ withParens r tr
     | _ => withParens l tl ++ opToks .pow ++ withParens r tr)
  | o => withParens l tl ++ opToks o ++ withParens r tr

/-- which temperature sugar a function name selects -/
inductive Sugar where
  | fromC | fromF | toC | toF
  deriving DecidableEq, Repr

def degC : List Char := ['°', 'C']
def degF : List Char := ['°', 'F']

/-- names tested in the `FunctionCall` arm -/
def sugarOfCall (name : List Char) : Option Sugar :=
  if name = "from_celsius".toList then some .fromC
  else if name = "from_fahrenheit".toList then some .fromF
  else if name = degC ∨ name = "celsius".toList ∨ name = "degree_celsius".toList then some .toC
  else if name = degF ∨ name = "fahrenheit".toList ∨ name = "degree_fahrenheit".toList then some .toF
  else none

/-- names tested in the `CallableCall` arm (only the `-> °C` / `-> °F` forms) -/
def sugarOfCallable (name : List Char) : Option Sugar :=
  match sugarOfCall name with
  | some .toC => some .toC
  | some .toF => some .toF
  | _ => none

def sugarToks (s : Sugar) (arg : Expr) (targ : List PTok) : List PTok :=
  match s with
  | .fromC => withParensLiberal arg targ ++ [.sp, .unit degC]
  | .fromF => withParensLiberal arg targ ++ [.sp, .unit degF]
  | .toC => withParensLiberal arg targ ++ [.sp, .sym .arrow, .sp, .unit degC]
  | .toF => withParensLiberal arg targ ++ [.sp, .sym .arrow, .sp, .unit degF]

mutual
/-- `impl PrettyPrint for Expression` -/
def ptoks : Expr → List PTok
  | .num b t => [.num b t]
  | .ident s => [.id s]
  | .unit p n => [.unit (p ++ n)]
  | .neg e => .sym .minus :: withParens e (ptoks e)
  | .fact n e => withParens e (ptoks e) ++ List.replicate n (.sym .bang)
  | .not e => .sym .bang :: withParens e (ptoks e)
  | .bin op l r => binopToks op l r (ptoks l) (ptoks r)
  | .binDate op l r => binopToks op l r (ptoks l) (ptoks r)
  | .call name args =>
    -- `args.len() == 1` and a sugar name: the single argument's tokens are `ptoksArgs args`
    (match args, sugarOfCall name with
     | [a], some s => sugarToks s a (ptoksArgs args)
     | _, _ => [.id name, .sym .lp] ++ ptoksArgs args ++ [.sym .rp])
  | .ccall callee args =>
    (match args, callee with
     | [a], .ident name =>
       (match sugarOfCallable name with
        | some s => sugarToks s a (ptoksArgs args)
        | none => withParens callee (ptoks callee) ++ [.sym .lp] ++ ptoksArgs args ++ [.sym .rp])
     | _, _ => withParens callee (ptoks callee) ++ [.sym .lp] ++ ptoksArgs args ++ [.sym .rp])
  | .bool true => [.kwTrue]
  | .bool false => [.kwFalse]
  | .cond c t e =>
    [.kwIf, .sp] ++ withParens c (ptoks c) ++ [.sp, .kwThen, .sp] ++ withParens t (ptoks t) ++
    [.sp, .kwElse, .sp] ++ withParens e (ptoks e)
  | .str parts => [.sym .quote] ++ ptoksParts parts ++ [.sym .quote]
  | .mk name fnames fvals =>
    [.tyid name, .sp, .sym .lcurly] ++
    (match fvals with
     | [] => []
     | _ => [.sp] ++ ptoksFields fnames fvals ++ [.sp]) ++
    [.sym .rcurly]
  | .get e f => withParens e (ptoks e) ++ [.sym .dot, .id f]
  | .list es => [.sym .lbrack] ++ ptoksArgs es ++ [.sym .rbrack]
  | .hole => [.sym .hole]
/-- expressions separated by `,` and a blank -/
def ptoksArgs : List Expr → List PTok
  | [] => []
  | a :: rest => ptoks a ++ ptoksArgsTail rest
def ptoksArgsTail : List Expr → List PTok
  | [] => []
  | a :: rest => [.sym .comma, .sp] ++ ptoks a ++ ptoksArgsTail rest
/-- `name: value` pairs separated by `,` and a blank (the two lists have equal length) -/
def ptoksFields : List (List Char) → List Expr → List PTok
  | _, [] => []
  | ns, a :: rest => [.id (ns.headD []), .sym .colon, .sp] ++ ptoks a ++ ptoksFieldsTail ns.tail rest
def ptoksFieldsTail : List (List Char) → List Expr → List PTok
  | _, [] => []
  | ns, a :: rest =>
    [.sym .comma, .sp, .id (ns.headD []), .sym .colon, .sp] ++ ptoks a ++ ptoksFieldsTail ns.tail rest
/-- `impl PrettyPrint for StringPart`, concatenated -/
def ptoksParts : List StrPart → List PTok
  | [] => []
  | .fixed s :: rest => .strFixed (escape s) :: ptoksParts rest
  | .interp e spec :: rest =>
    [.sym .lcurly] ++ ptoks e ++ (match spec with | some s => [.spec s] | none => []) ++ [.sym .rcurly] ++
    ptoksParts rest
end

/-- the text numbat echoes for an expression -/
def pp (e : Expr) : List Char := render (ptoks e)

end NumbatModel.Printer
