import NumbatModel.Model.SyntaxParser
/-
M-Syn (3): printing — the canonical S-expression of the hook `numbat::verif::c10::parse_sexpr`, including
the conversion of number lexemes to `f64` bit patterns (`str::parse::<f64>` = correctly rounded decimal to
binary64, `i128 as f64` = round to nearest even) and `strip_and_escape` for string literals.
Exact integer arithmetic only (no `Float`).
-/
namespace NumbatModel.Syntax

/-! ## correctly rounded conversion of a positive rational `p/q` to binary64 -/

/-- bit pattern of the binary64 nearest to `p/q` (ties to even); `p, q > 0` -/
def ratToF64Bits (p q : Nat) : Nat :=
  if p == 0 then 0 else
  -- first guess of the exponent `e` with 2^52 ≤ p / (q·2^e) < 2^53
  let e0 : Int := (Int.ofNat p.log2) - (Int.ofNat q.log2) - 52
  let quot (e : Int) : Nat := if e ≥ 0 then p / (q * 2 ^ e.toNat) else (p * 2 ^ (-e).toNat) / q
  let e1 : Int := if quot e0 < 2 ^ 52 then e0 - 1 else if quot e0 ≥ 2 ^ 53 then e0 + 1 else e0
  -- subnormal range: the exponent is pinned at -1074
  let e : Int := if e1 < -1074 then -1074 else e1
  let num : Nat := if e ≥ 0 then p else p * 2 ^ (-e).toNat
  let den : Nat := if e ≥ 0 then q * 2 ^ e.toNat else q
  let qt := num / den
  let rem := num % den
  let qt := if 2 * rem > den || (2 * rem == den && qt % 2 == 1) then qt + 1 else qt
  let (qt, e) := if qt == 2 ^ 53 then (2 ^ 52, e + 1) else (qt, e)
  if qt < 2 ^ 52 then qt            -- subnormal (or zero); e = -1074
  else
    let biased : Int := e + 1075
    if biased ≥ 2047 then 0x7FF0000000000000
    else biased.toNat * 2 ^ 52 + (qt - 2 ^ 52)

def digitsValue (ds : List Char) : Nat :=
  ds.foldl (fun acc c => acc * 10 + (c.toNat - 48)) 0

/-- bits of a decimal literal `int [. frac] [e|E [+|-] exp]` (underscores allowed between digits) -/
def decimalBits (lexeme : List Char) : Nat :=
  let cs := lexeme.filter (· != '_')
  let ip := spanChars isAsciiDigit cs
  let (frac, r1) : List Char × List Char :=
    match ip.2 with
    | c :: r => if c == '.' then spanChars isAsciiDigit r else ([], ip.2)
    | [] => ([], [])
  let exp10 : Int :=
    match r1 with
    | c :: r =>
      if c == 'e' || c == 'E' then
        match r with
        | s :: r' =>
          if s == '-' then - Int.ofNat (digitsValue r')
          else if s == '+' then Int.ofNat (digitsValue r') else Int.ofNat (digitsValue r)
        | [] => 0
      else 0
    | [] => 0
  let m := digitsValue (ip.1 ++ frac)
  let e := exp10 - Int.ofNat frac.length
  if m == 0 then 0 else
  -- magnitude clamp so that no astronomically large power of ten is ever built
  let nd : Int := Int.ofNat (toString m).length
  if e + nd > 320 then 0x7FF0000000000000
  else if e + nd < -340 then 0
  else if e ≥ 0 then ratToF64Bits (m * 10 ^ e.toNat) 1 else ratToF64Bits m (10 ^ (-e).toNat)

def nanBits : Nat := 0x7FF8000000000000
def infBits : Nat := 0x7FF0000000000000

/-- bits of the `Scalar` made from a number-like token -/
def scalarBits (t : Token) : Nat :=
  match t.kind with
  | .number => decimalBits t.lexeme
  | .intBase16 | .intBase8 | .intBase2 => ratToF64Bits (basedValue (baseOfKind t.kind) (t.lexeme.drop 2)) 1
  | .nan => nanBits
  | .inf => infBits
  | _ => 0

/-- `unicode_exponent_to_int` as (negative?, magnitude) -/
def unicodeExponentValue (lexeme : List Char) : Bool × Nat :=
  let digit (c : Char) : Nat :=
    if c.toNat == 0xB9 then 1 else if c.toNat == 0xB2 then 2 else if c.toNat == 0xB3 then 3
    else if 0x2074 ≤ c.toNat && c.toNat ≤ 0x2079 then c.toNat - 0x2070 else 0
  match lexeme with
  | [c] => (false, digit c)
  | [_, c] => (true, digit c)
  | _ => (false, 0)

def unicodeExponentBits (lexeme : List Char) : Nat :=
  let v := unicodeExponentValue lexeme
  ratToF64Bits v.2 1 + (if v.1 then 2 ^ 63 else 0)

def hexDigitChar (d : Nat) : Char := if d < 10 then Char.ofNat (48 + d) else Char.ofNat (87 + d)

def toHexDigits : Nat → Nat → List Char
  | 0, _ => []
  | w + 1, n => toHexDigits w (n / 16) ++ [hexDigitChar (n % 16)]

/-- lower-case hex without leading zeros (`0` for zero) -/
def hexNat (n : Nat) : String :=
  if n == 0 then "0" else String.ofList ((toHexDigits 16 n).dropWhile (· == '0'))

def bits16 (n : Nat) : String := String.ofList (toHexDigits 16 n)

/-- the hook's `hex_text`: code points in hex joined by `.`, `_` for the empty string -/
def hexText (cs : List Char) : String :=
  if cs.isEmpty then "_" else ".".intercalate (cs.map (fun c => hexNat c.toNat))

/-- `strip_and_escape` (the lexeme includes the delimiters) -/
def stripAndEscape (lexeme : List Char) : List Char :=
  let trimmed := (lexeme.drop 1).dropLast
  let step (st : List Char × Option Char) (c : Char) : List Char × Option Char :=
    let (res, last) := st
    if last == some '\\' && (c == 'n' || c == 'r' || c == 't' || c == '"' || c == '0') then
      let r := if c == 'n' then '\n' else if c == 'r' then '\r' else if c == 't' then '\t'
        else if c == '"' then '"' else Char.ofNat 0
      (res ++ [r], some c)
    else if c == '{' || c == '}' || c == '\\' then
      if last == some c then (res ++ [c], none) else (res, some c)
    else if last == some '\\' then (res ++ ['\\', c], some c)
    else (res ++ [c], some c)
  (trimmed.foldl step ([], none)).1

mutual
def Expr.sexpr : Expr → String
  | .scalar t => "(scalar " ++ bits16 (scalarBits t) ++ ")"
  | .ident n => "(id " ++ String.ofList n ++ ")"
  | .hole => "(hole)"
  | .neg e => "(neg " ++ e.sexpr ++ ")"
  | .lnot e => "(not " ++ e.sexpr ++ ")"
  | .fact k e => "(fact " ++ toString k ++ " " ++ e.sexpr ++ ")"
  | .bin op l r => "(" ++ op.name ++ " " ++ l.sexpr ++ " " ++ r.sexpr ++ ")"
  | .imul l r => "(Mul~ " ++ l.sexpr ++ " " ++ r.sexpr ++ ")"
  | .upow b t => "(Power~ " ++ b.sexpr ++ " (scalar " ++ bits16 (unicodeExponentBits t.lexeme) ++ "))"
  | .call f args => "(call " ++ f.sexpr ++ sexprList args ++ ")"
  | .boolean b => if b then "(bool true)" else "(bool false)"
  | .str t => "(str (fixed " ++ hexText (stripAndEscape t.lexeme) ++ "))"
  | .cond c t e => "(if " ++ c.sexpr ++ " " ++ t.sexpr ++ " " ++ e.sexpr ++ ")"
  | .struct n fs => "(struct " ++ String.ofList n ++ sexprFields fs ++ ")"
  | .field e n => "(field " ++ e.sexpr ++ " " ++ String.ofList n ++ ")"
  | .list es => "(list" ++ sexprList es ++ ")"
def sexprList : List Expr → String
  | [] => ""
  | e :: es => " " ++ e.sexpr ++ sexprList es
def sexprFields : List (List Char × Expr) → String
  | [] => ""
  | (n, e) :: fs => " (" ++ String.ofList n ++ " " ++ e.sexpr ++ ")" ++ sexprFields fs
end

def procName : TokKind → String
  | .procedurePrint => "print" | .procedureAssert => "assert" | .procedureAssertEq => "assert_eq"
  | .procedureType => "type" | _ => "?"

def Stmt.sexpr : Stmt → String
  | .expr e => "(expr " ++ e.sexpr ++ ")"
  | .proc k args => "(proc " ++ procName k ++ sexprList args ++ ")"

end NumbatModel.Syntax
