/-! M-Time — numbat's date-time arithmetic (import-free).

Mirrors, as they are:
* `vm.rs` `Op::AddToDateTime` / `Op::SubFromDateTime`: the duration in seconds (an `f64`) is split into
  `to_i64()` (truncation, `None` outside the `i64` range or for NaN) and
  `(fract() * 1e9).round() as i64`; a `jiff::Span` is built with `try_seconds` (limit ±631 107 417 600 s,
  else `DurationOutOfRange`) and `nanoseconds`; `Zoned::checked_add/checked_sub` add the span to the
  timestamp (time-only spans take the timestamp path) with jiff's range check (`DateTimeOutOfRange`);
* `Op::DiffDateTime`: `lhs.since(&rhs)` (largest unit hours, i.e. exact nanosecond difference) and
  `total(Unit::Second)` = `(nanoseconds as f64) / 1e9`;
* `FunctionReference::TzConversion`: `dt.with_time_zone(tz)` keeps the timestamp, replaces the zone.

The part of `jiff` that is modelled is only what these operations use: a timestamp is an integer number
of nanoseconds in `[instantMin, instantMax]`, a span of seconds+nanoseconds has one sign for all units
(`Span::resign`).  jiff's calendar, time-zone database, parsing and formatting are *not* modelled (assumed
external contract).

Numeric operations on the duration are a parameter (`DurOps α`): theorems hold for every instance, the
driver runs the `Float` instance (`floatOps`), and `ratOps` is the exact instance used to say what
"rounded to nanoseconds" means. -/
namespace NumbatModel.Time

def nsPerSec : Int := 1000000000

/-- `jiff::Timestamp::MIN.as_second()` (-9999-01-02T01:59:59Z) -/
def unixSecMin : Int := -377705023201
/-- `jiff::Timestamp::MAX.as_second()` (9999-12-30T22:00:00Z; plus 999 999 999 ns) -/
def unixSecMax : Int := 253402207200
def instantMin : Int := unixSecMin * nsPerSec
def instantMax : Int := unixSecMax * nsPerSec + 999999999
/-- `t::SpanSeconds::MAX` -/
def spanSecMax : Int := 631107417600

inductive Err where
  | durationOutOfRange
  | dateTimeOutOfRange
deriving DecidableEq, Repr

/-- what the VM needs from `f64` -/
structure DurOps (α : Type) where
  /-- `num_traits::ToPrimitive::to_i64`: truncation toward zero; `none` for NaN and outside `[-2^63, 2^63)` -/
  toI64 : α → Option Int
  /-- `(x.fract() * 1_000_000_000f64).round() as i64` -/
  fractNs : α → Int
  /-- `(n as f64) / 1e9` of `Span::total(Unit::Second)` -/
  secondsOfNs : Int → α

/-- the two fields of `jiff::Span` the VM sets, with jiff's single sign (`0`, `1`, `-1`) -/
structure Span where
  sign : Int
  seconds : Nat
  nanos : Nat
deriving DecidableEq, Repr

def Span.zero : Span := ⟨0, 0, 0⟩

def Span.isZero (s : Span) : Bool := s.sign == 0

/-- `Span::resign`: a negative unit makes the whole span negative; setting a unit to zero keeps the sign
    unless everything is zero now; a positive unit gives a zero span its sign, otherwise the sign stays -/
def Span.resign (old : Span) (units : Int) (new : Span) : Int :=
  if units < 0 then -1
  else
    let newIsZero := if units == 0 then (new.seconds == 0 && new.nanos == 0) else false
    if newIsZero then 0
    else if old.isZero then (if units > 0 then 1 else 0)
    else new.sign

/-- `Span::seconds_ranged` -/
def Span.setSeconds (s : Span) (v : Int) : Span :=
  let new : Span := { s with seconds := v.natAbs }
  { new with sign := s.resign v new }

/-- `Span::nanoseconds_ranged` -/
def Span.setNanos (s : Span) (v : Int) : Span :=
  let new : Span := { s with nanos := v.natAbs }
  { new with sign := s.resign v new }

/-- `Span::to_invariant_nanoseconds` for a seconds+nanoseconds span -/
def Span.toNs (s : Span) : Int := s.sign * ((s.seconds : Int) * nsPerSec + (s.nanos : Int))

/-- the span the VM builds from a duration, or `DurationOutOfRange` -/
def spanOf (ops : DurOps α) (d : α) : Except Err Span :=
  match ops.toI64 d with
  | none => .error .durationOutOfRange
  | some s =>
    if s < -spanSecMax || spanSecMax < s then .error .durationOutOfRange
    else .ok ((Span.zero.setSeconds s).setNanos (ops.fractNs d))

/-- the duration rounded to nanoseconds, as the VM does it (`none` = `DurationOutOfRange`) -/
def roundNs (ops : DurOps α) (d : α) : Option Int :=
  match spanOf ops d with
  | .ok sp => some sp.toNs
  | .error _ => none

/-- a `jiff::Zoned` as far as numbat's arithmetic can see it: the instant and the zone attached to it -/
structure Zoned (ζ : Type) where
  instant : Int
  zone : ζ
deriving DecidableEq, Repr

def inRange (ns : Int) : Bool := instantMin ≤ ns && ns ≤ instantMax

def Zoned.valid (t : Zoned ζ) : Prop := inRange t.instant = true

/-- `Timestamp::checked_add(span)` followed by `to_zoned(same zone)` -/
def addSpan (t : Zoned ζ) (off : Int) : Except Err (Zoned ζ) :=
  let ns := t.instant + off
  if inRange ns then .ok { t with instant := ns } else .error .dateTimeOutOfRange

/-- `Op::AddToDateTime` -/
def addDur (ops : DurOps α) (t : Zoned ζ) (d : α) : Except Err (Zoned ζ) :=
  match spanOf ops d with
  | .error e => .error e
  | .ok sp => addSpan t sp.toNs

/-- `Op::SubFromDateTime` (`checked_sub(span)` = `checked_add(-span)`) -/
def subDur (ops : DurOps α) (t : Zoned ζ) (d : α) : Except Err (Zoned ζ) :=
  match spanOf ops d with
  | .error e => .error e
  | .ok sp => addSpan t (-sp.toNs)

/-- exact nanosecond difference `a.since(b)` -/
def diffNs (a b : Zoned ζ) : Int := a.instant - b.instant

/-- `Op::DiffDateTime`: value in seconds -/
def diff (ops : DurOps α) (a b : Zoned ζ) : α := ops.secondsOfNs (diffNs a b)

/-- `TzConversion`: `dt.with_time_zone(tz)` -/
def withTimeZone (t : Zoned ζ) (z : ζ) : Zoned ζ := { t with zone := z }

/-! ### `_unixtime_µs` / `_from_unixtime_µs` (ffi/datetime.rs), used by C23 -/

/-- `Timestamp::as_microsecond`: nanoseconds divided by 1000, truncating toward zero -/
def unixMicros (t : Zoned ζ) : Int :=
  if t.instant < 0 then -((-t.instant) / 1000) else t.instant / 1000

def microMin : Int := unixSecMin * 1000000
def microMax : Int := unixSecMax * 1000000 + 999999

/-- `Timestamp::from_microsecond(us)` then `to_zoned(local zone)` -/
def fromUnixMicros (us : Int) (zone : ζ) : Except Err (Zoned ζ) :=
  if microMin ≤ us && us ≤ microMax then .ok ⟨us * 1000, zone⟩ else .error .dateTimeOutOfRange

/-! ### the `Float` instance the driver executes -/

def two63 : Float := 9223372036854775808.0

/-- Rust `f64::trunc` -/
def ftrunc (x : Float) : Float := if x < 0.0 then x.ceil else x.floor

/-- `f64 as i64` for a value already known to be in range / small -/
def f2i (x : Float) : Int := x.toInt64.toInt

/-- `u128/i128 as f64`: round to nearest, ties to even.  Below 2^64 the hardware conversion is used; above,
    the top 64 bits with a sticky bit are converted (64 > 53 + 2, so the single rounding is correct) and
    scaled by the exact power of two. -/
def natToFloat (n : Nat) : Float :=
  if n < 18446744073709551616 then n.toUInt64.toFloat
  else
    let shift := n.log2 + 1 - 64
    let hi := n >>> shift
    let sticky := if n % (2 ^ shift) == 0 then 0 else 1
    ((hi ||| sticky).toUInt64.toFloat).scaleB (Int.ofNat shift)

def intToFloat (i : Int) : Float :=
  if i < 0 then -(natToFloat i.natAbs) else natToFloat i.natAbs

def floatOps : DurOps Float where
  toI64 x := if x.isNaN then none else if x >= -two63 && x < two63 then some (f2i (ftrunc x)) else none
  fractNs x := f2i (Float.round ((x - ftrunc x) * 1000000000.0))
  secondsOfNs n := intToFloat n / 1000000000.0

/-! ### the exact instance: what "rounded to nanoseconds" means -/

/-- truncation toward zero of a rational -/
def rtrunc (q : Rat) : Int := if q < 0 then q.ceil else q.floor

/-- round half away from zero (Rust `f64::round`) -/
def rround (q : Rat) : Int := if q < 0 then -((-q + 1/2).floor) else (q + 1/2).floor

def ratOps : DurOps Rat where
  toI64 q := if -9223372036854775808 ≤ q ∧ q < 9223372036854775808 then some (rtrunc q) else none
  fractNs q := rround ((q - rtrunc q) * 1000000000)
  secondsOfNs n := (n : Rat) / 1000000000

end NumbatModel.Time
