import NumbatModel.Model.Qty
/-! The `Float` (IEEE binary64) instance of `NumOps`, executed by the drivers. Import-free. -/
namespace NumbatModel.Qty

/-- LLVM compiler-rt `__powidf2`, which `f64::powi` lowers to -/
def powiLoop : Nat → Float → Nat → Float → Float
  | 0, _, _, r => r
  | fuel + 1, a, b, r =>
    let r := if b % 2 == 1 then r * a else r
    let b := b / 2
    if b == 0 then r else powiLoop fuel (a * a) b r

def powi (a : Float) (n : Int) : Float :=
  let r := powiLoop 64 a n.natAbs 1.0
  if n < 0 then 1.0 / r else r

/-- `Ratio<i128>::to_f64` on the fast path (numerator and denominator below 2^53) -/
def ratToFloat (e : Rat) : Float := Float.ofInt e.num / Float.ofNat e.den

instance : NumOps Float where
  zero := 0.0
  one := 1.0
  add := (· + ·)
  sub := (· - ·)
  mul := (· * ·)
  div := (· / ·)
  neg := fun x => -x
  rpow := fun x e => Float.pow x (ratToFloat e)
  pow10 := powi 10.0
  pow2 := powi 2.0
  beq := (· == ·)
  lt := fun x y => x < y
  le := fun x y => x ≤ y
  isNaN := Float.isNaN
  abs := Float.abs
  tol9 := 1e-9
  max := fun x y => if x.isNaN then y else if y.isNaN then x else if x < y then y else x

end NumbatModel.Qty
