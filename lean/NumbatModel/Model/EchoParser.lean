import NumbatModel.Model.Printer
/-!
# Reference parser for echoed expressions (property C15)

A fuel-indexed recursive-descent parser for the operator fragment of the grammar in the module
documentation of `parser.rs`, level by level (`condition`, `conversion`, `logical_or`, `logical_and`,
`logical_neg`, `comparison`, `term`, `factor`, `unary`, `ifactor` (implicit multiplication), `power`,
`factorial`, `unicode_power`, `primary`), over the print tokens of `Model/Printer.lean` without blanks.
`per_factor` coincides with `unary` here because the printer never writes `per`; unary `+`, `|>`, calls,
field access, lists, structs and strings are not part of this parser (a token it cannot read makes it fail).

`canon` is the tree the grammar assigns to the printed form of a tree: the same tree, except that a chain
of `+`, `×` or `➞` whose right operand was printed without parentheses is left-nested, a unit is a single
name, and an exponent 2 / 3 is the literal the superscript stands for.
-/
namespace NumbatModel.Printer

/-- what the tokenizer makes of a print token: blanks vanish, both minus signs are one token, both arrows
are one token, and a negative number text is a minus sign followed by the number -/
def lexTok : PTok → List PTok
  | .sp => []
  | .sym (.bop .sub) => [.sym .minus]
  | .sym .arrow => [.sym (.bop .conv)]
  | .num b ('-' :: t) => [.sym .minus, .num (b - 2 ^ 63) t]
  | t => [t]

/-- the token stream of a printed expression -/
def lexToks : List PTok → List PTok
  | [] => []
  | t :: ts => lexTok t ++ lexToks ts

def toks (e : Expr) : List PTok := lexToks (ptoks e)

/-- `next_token_could_start_power_expression`: Number, Identifier, LeftParen, QuestionMark -/
def isStartPower : PTok → Bool
  | .num _ _ | .id _ | .unit _ | .tyid _ | .sym .lp | .sym .hole => true
  | _ => false

/-- the binary operator a token is at a left-associative level of the grammar
(1 conversion, 2 logical_or, 3 logical_and, 5 comparison, 6 term, 7 factor) -/
def binOpAt : Nat → PTok → Option BinOp
  | 1, .sym (.bop .conv) => some .conv
  | 2, .sym (.bop .or) => some .or
  | 3, .sym (.bop .and) => some .and
  | 5, .sym (.bop .lt) => some .lt
  | 5, .sym (.bop .gt) => some .gt
  | 5, .sym (.bop .le) => some .le
  | 5, .sym (.bop .ge) => some .ge
  | 5, .sym (.bop .eq) => some .eq
  | 5, .sym (.bop .ne) => some .ne
  | 6, .sym (.bop .add) => some .add
  | 6, .sym .minus => some .sub
  | 7, .sym (.bop .mul) => some .mul
  | 7, .sym (.bop .div) => some .div
  | _, _ => none

def isLoopLevel (k : Nat) : Bool := k = 1 || k = 2 || k = 3 || k = 5 || k = 6 || k = 7

inductive Mode where
  /-- parse one expression at grammar level `k` (0 = condition … 13 = primary) -/
  | level (k : Nat)
  /-- the `while` loop of `parse_binop` at level `k`, with the expression read so far -/
  | loop (k : Nat) (acc : Expr)
  /-- the `while` loop of `ifactor` -/
  | ifac (acc : Expr)
  /-- the `while` loop of `factorial`, with the number of `!` read so far -/
  | bangs (acc : Expr) (n : Nat)

def run : Nat → Mode → List PTok → Option (Expr × List PTok)
  | 0, _, _ => none
  | n + 1, .level k, ts =>
    if k = 0 then
      (match ts with
       | .kwIf :: r =>
         (match run n (.level 1) r with
          | some (c, .kwThen :: r1) =>
            (match run n (.level 0) r1 with
             | some (t, .kwElse :: r2) =>
               (match run n (.level 0) r2 with
                | some (e, r3) => some (.cond c t e, r3)
                | none => none)
             | _ => none)
          | _ => none)
       | _ => run n (.level 1) ts)
    else if isLoopLevel k then
      (match run n (.level (k + 1)) ts with
       | some (x, r) => run n (.loop k x) r
       | none => none)
    else if k = 4 then
      (match ts with
       | .sym .bang :: r =>
         (match run n (.level 4) r with
          | some (x, r1) => some (.not x, r1)
          | none => none)
       | _ => run n (.level 5) ts)
    else if k = 8 then
      (match ts with
       | .sym .minus :: r =>
         (match run n (.level 8) r with
          | some (x, r1) => some (.neg x, r1)
          | none => none)
       | _ => run n (.level 9) ts)
    else if k = 9 then
      (match run n (.level 10) ts with
       | some (x, r) => run n (.ifac x) r
       | none => none)
    else if k = 10 then
      (match run n (.level 11) ts with
       | some (x, .sym (.bop .pow) :: .sym .minus :: r) =>
         (match run n (.level 10) r with
          | some (y, r1) => some (.bin .pow x (.neg y), r1)
          | none => none)
       | some (x, .sym (.bop .pow) :: r) =>
         (match run n (.level 10) r with
          | some (y, r1) => some (.bin .pow x y, r1)
          | none => none)
       | other => other)
    else if k = 11 then
      (match run n (.level 12) ts with
       | some (x, r) => run n (.bangs x 0) r
       | none => none)
    else if k = 12 then
      (match run n (.level 13) ts with
       | some (x, .sym .sup2 :: r) => some (.bin .pow x (.num bitsTwo ['2']), r)
       | some (x, .sym .sup3 :: r) => some (.bin .pow x (.num bitsThree ['3']), r)
       | other => other)
    else if k = 13 then
      (match ts with
       | .num b t :: r => some (.num b t, r)
       | .id s :: r => some (.ident s, r)
       | .unit s :: r => some (.unit [] s, r)
       | .kwTrue :: r => some (.bool true, r)
       | .kwFalse :: r => some (.bool false, r)
       | .sym .lp :: r =>
         (match run n (.level 0) r with
          | some (x, .sym .rp :: r1) => some (x, r1)
          | _ => none)
       | _ => none)
    else none
  | n + 1, .loop k acc, ts =>
    (match ts with
     | t :: r =>
       (match binOpAt k t with
        | some o =>
          (match run n (.level (k + 1)) r with
           | some (y, r1) => run n (.loop k (.bin o acc y)) r1
           | none => none)
        | none => some (acc, ts))
     | [] => some (acc, []))
  | n + 1, .ifac acc, ts =>
    (match ts with
     | t :: r =>
       if isStartPower t then
         (match run n (.level 10) (t :: r) with
          | some (y, r1) => run n (.ifac (.bin .mul acc y)) r1
          | none => none)
       else some (acc, ts)
     | [] => some (acc, []))
  | n + 1, .bangs acc k, ts =>
    (match ts with
     | .sym .bang :: r => run n (.bangs acc (k + 1)) r
     | _ => some (if k = 0 then acc else .fact k acc, ts))

/-- parse a whole token list as one expression -/
def parseToks (fuel : Nat) (ts : List PTok) : Option Expr :=
  match run fuel (.level 0) ts with
  | some (e, []) => some e
  | _ => none

/-! ## the tree the grammar assigns to a printed tree -/

def foldBin (op : BinOp) (acc : Expr) : List Expr → Expr
  | [] => acc
  | x :: xs => foldBin op (.bin op acc x) xs

/-- canonical tree of `e` together with the operand sequences it contributes when it is printed, without
parentheses, as the right operand of `+`, of `×` and of `➞` -/
structure Canon where
  e : Expr
  addR : List Expr
  mulR : List Expr
  convR : List Expr

def Canon.single (e : Expr) : Canon := ⟨e, [e], [e], [e]⟩

def canonC : Expr → Canon
  | .num b t => .single (.num b t)
  | .ident s => .single (.ident s)
  | .unit p n => .single (.unit [] (p ++ n))
  | .neg e => .single (.neg (canonC e).e)
  | .fact n e => .single (.fact n (canonC e).e)
  | .not e => .single (.not (canonC e).e)
  | .bool b => .single (.bool b)
  | .cond c t e => .single (.cond (canonC c).e (canonC t).e (canonC e).e)
  | .bin .add l r =>
    let chain := (canonC r).addR
    let e := foldBin .add (canonC l).e chain
    ⟨e, (canonC l).addR ++ chain, [e], [e]⟩
  | .bin .mul l r =>
    (match l, r with
     | .num b t, .unit p n => .single (.bin .mul (.num b t) (.unit [] (p ++ n)))
     | .num b t, .ident s => .single (.bin .mul (.num b t) (.ident s))
     | _, _ =>
       let chain := (canonC r).mulR
       let e := foldBin .mul (canonC l).e chain
       ⟨e, [e], (canonC l).mulR ++ chain, [e]⟩)
  | .bin .conv l r =>
    let chain := (canonC r).convR
    let e := foldBin .conv (canonC l).e chain
    ⟨e, [e], [e], (canonC l).convR ++ chain⟩
  | .bin .pow l r =>
    (match r with
     | .num b t =>
       .single (.bin .pow (canonC l).e
         (if b = bitsTwo then .num bitsTwo ['2'] else if b = bitsThree then .num bitsThree ['3'] else .num b t))
     | _ => .single (.bin .pow (canonC l).e (canonC r).e))
  | .bin o l r => .single (.bin o (canonC l).e (canonC r).e)
  | e => .single e

/-- the tree obtained by re-reading the printed form of `e` (on the fragment of `Frag`) -/
def canon (e : Expr) : Expr := (canonC e).e

end NumbatModel.Printer
