/-!
# M-Html — model of `numbat/src/html_formatter.rs` (+ the part of `markup.rs` / `html_escape` it uses)

Everything is over bytes (`List UInt8`): a Rust `str`/`CompactString` is its UTF-8 bytes, `HtmlWriter`
has a `Vec<u8>` buffer and receives arbitrary byte slices (a partial write may cut a multi-byte
character).  Byte literals are written as numbers with the text in a comment (string literals do not
reduce in the kernel).

Mirrored Rust items
* `html_escape::encode_text` (crate html-escape 0.2.13, macro `escape_text`: `&`→`&amp;`, `<`→`&lt;`,
  `>`→`&gt;`, nothing else; `Cow::Borrowed` when nothing is escaped)            → `encodeText`
* `html_formatter::html_format`                                                   → `htmlFormat`
* `impl Formatter for HtmlFormatter :: format_part` (the class table)             → `cssClass`, `formatPart`
* `markup::Formatter::format` (default method: indentation handling)              → `format`
* `HtmlWriter::{new, write_escaped, write, flush, set_color, reset}`              → `Writer.*`
* the writer **before** commit c2fa8f9 (`self.buffer.write(buf)`, no escaping)   → `Writer.writePrefix`

The second half of the file is the *specification vocabulary* of C20: a reader of HTML text (`lex`) that
recognises only the renderer's own tags and the three entities, used to state the theorems.
-/
namespace NumbatModel.Html

abbrev Bytes := List UInt8

/-! ## byte constants -/

def AMP : UInt8 := 38   -- &
def LT : UInt8 := 60    -- <
def GT : UInt8 := 62    -- >
def SEMI : UInt8 := 59  -- ;
def NL : UInt8 := 10    -- \n
def QUOTE : UInt8 := 34 -- "

/-- `&amp;` -/
def entAmp : Bytes := [38, 97, 109, 112, 59]
/-- `&lt;` -/
def entLt : Bytes := [38, 108, 116, 59]
/-- `&gt;` -/
def entGt : Bytes := [38, 103, 116, 59]

/-- `<span class="numbat-` -/
def spanOpenHead : Bytes := [60, 115, 112, 97, 110, 32, 99, 108, 97, 115, 115, 61, 34, 110, 117, 109, 98, 97, 116, 45]
/-- `">` -/
def spanOpenTail : Bytes := [34, 62]
/-- `</span>` -/
def spanClose : Bytes := [60, 47, 115, 112, 97, 110, 62]

/-- `<span class="numbat-{cls}">` -/
def spanOpen (cls : Bytes) : Bytes := spanOpenHead ++ cls ++ spanOpenTail

/-! ## `html_escape::encode_text` -/

/-- macro `escape_text!`: the replacement of one byte, `none` = copied unchanged -/
def escapeOf (b : UInt8) : Option Bytes :=
  if b = 38 then some entAmp
  else if b = 60 then some entLt
  else if b = 62 then some entGt
  else none

/-- `encode_text_to_vec` appended to an output vector: unescaped runs are copied, escapable bytes replaced.
(The Rust loop copies maximal runs `text[start..end]` at once; byte by byte gives the same vector.) -/
def encodeToVec : Bytes → Bytes
  | [] => []
  | b :: rest =>
    match escapeOf b with
    | some e => e ++ encodeToVec rest
    | none => b :: encodeToVec rest

/-- first loop of `encode_text`: position `p` of the first escapable byte and its replacement -/
def firstEscapable : Bytes → Option (Nat × Bytes)
  | [] => none
  | b :: rest =>
    match escapeOf b with
    | some e => some (0, e)
    | none => (firstEscapable rest).map (fun (p, e) => (p + 1, e))

/-- `html_escape::encode_text`: borrowed input when nothing needs escaping, otherwise
`text[..p] ++ first ++ encode_text_to_vec(text[p+1..])` -/
def encodeText (text : Bytes) : Bytes :=
  match firstEscapable text with
  | none => text
  | some (p, first) => text.take p ++ first ++ encodeToVec (text.drop (p + 1))

/-! ## `HtmlFormatter` -/

inductive FormatType
  | whitespace | emphasized | dimmed | text | string | keyword | value | unit | identifier
  | typeIdentifier | operator | decorator
  deriving DecidableEq, Repr

/-- the class table of `HtmlFormatter::format_part` -/
def cssClass : FormatType → Option Bytes
  | .whitespace => none
  | .emphasized => some [101, 109, 112, 104, 97, 115, 105, 122, 101, 100]          -- emphasized
  | .dimmed => some [100, 105, 109, 109, 101, 100]                                  -- dimmed
  | .text => none
  | .string => some [115, 116, 114, 105, 110, 103]                                  -- string
  | .keyword => some [107, 101, 121, 119, 111, 114, 100]                            -- keyword
  | .value => some [118, 97, 108, 117, 101]                                         -- value
  | .unit => some [117, 110, 105, 116]                                              -- unit
  | .identifier => some [105, 100, 101, 110, 116, 105, 102, 105, 101, 114]          -- identifier
  | .typeIdentifier => some [116, 121, 112, 101, 45, 105, 100, 101, 110, 116, 105, 102, 105, 101, 114] -- type-identifier
  | .operator => some [111, 112, 101, 114, 97, 116, 111, 114]                       -- operator
  | .decorator => some [100, 101, 99, 111, 114, 97, 116, 111, 114]                  -- decorator

/-- `html_format(class, content)` -/
def htmlFormat (cls : Option Bytes) (content : Bytes) : Bytes :=
  if content.isEmpty then []
  else
    let content := encodeText content
    match cls with
    | some c => spanOpen c ++ content ++ spanClose
    | none => content

/-- `FormattedString(_output_type, format_type, s)`; the output type is ignored by the HTML formatter -/
structure Part where
  ft : FormatType
  s : Bytes
  deriving Repr

def formatPart (p : Part) : Bytes := htmlFormat (cssClass p.ft) p.s

/-- `Formatter::format(markup, indent)`: two formatted spaces first and after every part containing a
newline when `indent` is set -/
def format (parts : List Part) (indent : Bool) : Bytes :=
  let spaces := formatPart ⟨.whitespace, [32, 32]⟩
  let rec go : List Part → Bytes → Bytes
    | [], output => output
    | part :: rest, output =>
      let output := output ++ formatPart part
      let output := if indent && part.s.contains NL then output ++ spaces else output
      go rest output
  go parts (if indent then spaces else [])

/-- `PlainTextFormatter.format` (used only to state what the text content of the HTML must be) -/
def plainFormat (parts : List Part) (indent : Bool) : Bytes :=
  (if indent then [32, 32] else []) ++
    parts.flatMap (fun p => p.s ++ if indent && p.s.contains NL then [32, 32] else [])

/-! ## `HtmlWriter` -/

/-- `termcolor::Color`; everything the writer does not look at is `other` -/
inductive Color
  | black | blue | green | red | cyan | magenta | yellow | white | other
  deriving DecidableEq, Repr

/-- the two attributes of `termcolor::ColorSpec` the writer reads -/
structure ColorSpec where
  fg : Option Color
  bold : Bool
  deriving DecidableEq, Repr

structure Writer where
  buffer : Bytes
  color : Option ColorSpec
  deriving Repr

def Writer.new : Writer := ⟨[], none⟩

/-- `diagnostic-red` -/
def clsRed : Bytes := [100, 105, 97, 103, 110, 111, 115, 116, 105, 99, 45, 114, 101, 100]
/-- `diagnostic-blue` -/
def clsBlue : Bytes := [100, 105, 97, 103, 110, 111, 115, 116, 105, 99, 45, 98, 108, 117, 101]
/-- `diagnostic-bold` -/
def clsBold : Bytes := [100, 105, 97, 103, 110, 111, 115, 116, 105, 99, 45, 98, 111, 108, 100]

/-- `write_escaped`: byte-wise loop over `buf` pushing onto the buffer -/
def Writer.writeEscaped (w : Writer) (buf : Bytes) : Writer :=
  { w with buffer := buf.foldl (fun acc byte =>
      if byte = 38 then acc ++ entAmp
      else if byte = 60 then acc ++ entLt
      else if byte = 62 then acc ++ entGt
      else acc ++ [byte]) w.buffer }

/-- verbatim copy: `self.buffer.write(buf)` of the writer before commit c2fa8f9 -/
def Writer.writeRaw (w : Writer) (buf : Bytes) : Writer := { w with buffer := w.buffer ++ buf }

/-- the branch structure of `impl Write for HtmlWriter :: write`, parameterised by how the payload is
copied (`writeEscaped` now, `writeRaw` before the fix) -/
def Writer.writeWith (payload : Writer → Bytes → Writer) (w : Writer) (buf : Bytes) : Writer :=
  let wrap (cls : Bytes) : Writer :=
    let w1 : Writer := { w with buffer := w.buffer ++ spanOpen cls }
    let w2 := payload w1 buf
    { w2 with buffer := w2.buffer ++ spanClose }
  match w.color with
  | some color =>
    if color.fg = some Color.red then wrap clsRed
    else if color.fg = some Color.blue then wrap clsBlue
    else if color.bold then wrap clsBold
    else payload w buf
  | none => payload w buf

/-- `HtmlWriter::write` (current tree) -/
def Writer.write : Writer → Bytes → Writer := Writer.writeWith Writer.writeEscaped

/-- `HtmlWriter::write` before commit c2fa8f9 -/
def Writer.writePrefix : Writer → Bytes → Writer := Writer.writeWith Writer.writeRaw

/-- the calls a `WriteColor` client can make -/
inductive Op
  | setColor (spec : ColorSpec)
  | reset
  | flush
  | write (buf : Bytes)
  deriving Repr

def Writer.stepWith (wr : Writer → Bytes → Writer) (w : Writer) : Op → Writer
  | .setColor spec => { w with color := some spec }
  | .reset => { w with color := none }
  | .flush => w
  | .write buf => wr w buf

def Writer.step : Writer → Op → Writer := Writer.stepWith Writer.write
def Writer.stepPrefix : Writer → Op → Writer := Writer.stepWith Writer.writePrefix

def Writer.run (ops : List Op) (w : Writer) : Writer := ops.foldl Writer.step w
def Writer.runPrefix (ops : List Op) (w : Writer) : Writer := ops.foldl Writer.stepPrefix w

/-! ## specification vocabulary: reading HTML text back

`lex` reads bytes the way a conservative HTML consumer would: `<` always opens a tag which extends to the
next `>` and must be one of the renderer's (`</span>` or `<span class="numbat-[a-z-]+">`), `&` always opens a
character reference which extends to the next `;` and must be `amp`, `lt` or `gt`; a `>` outside a tag is
rejected.  Anything else makes `lex` return `none`. -/

inductive Tok
  | openTag (cls : Bytes)
  | closeTag
  | byte (b : UInt8)
  deriving DecidableEq, Repr

inductive Mode
  | text
  | tag (acc : Bytes)
  | ent (acc : Bytes)
  | fail
  deriving DecidableEq, Repr

def isClassChar (b : UInt8) : Bool := (97 ≤ b && b ≤ 122) || b = 45

/-- `span class="numbat-` -/
def openBody : Bytes := [115, 112, 97, 110, 32, 99, 108, 97, 115, 115, 61, 34, 110, 117, 109, 98, 97, 116, 45]
/-- `/span` -/
def closeBody : Bytes := [47, 115, 112, 97, 110]

/-- the text between `<` and `>` -/
def classifyTag (t : Bytes) : Option Tok :=
  if t = closeBody then some .closeTag
  else if openBody.isPrefixOf t && t.getLast? = some QUOTE then
    let cls := (t.drop openBody.length).dropLast
    if !cls.isEmpty && cls.all isClassChar then some (.openTag cls) else none
  else none

/-- the text between `&` and `;` -/
def decodeEntity (t : Bytes) : Option UInt8 :=
  if t = [97, 109, 112] then some 38        -- amp
  else if t = [108, 116] then some 60       -- lt
  else if t = [103, 116] then some 62       -- gt
  else none

/-- reads `l` starting in mode `m`; result: the mode at the end and the tokens read -/
def lexFrom : Mode → Bytes → Mode × List Tok
  | m, [] => (m, [])
  | .fail, _ :: _ => (.fail, [])
  | .text, b :: l =>
    if b = 60 then lexFrom (.tag []) l
    else if b = 62 then (.fail, [])
    else if b = 38 then lexFrom (.ent []) l
    else let r := lexFrom .text l; (r.1, .byte b :: r.2)
  | .tag acc, b :: l =>
    if b = 62 then
      match classifyTag acc with
      | some t => let r := lexFrom .text l; (r.1, t :: r.2)
      | none => (.fail, [])
    else lexFrom (.tag (acc ++ [b])) l
  | .ent acc, b :: l =>
    if b = 59 then
      match decodeEntity acc with
      | some c => let r := lexFrom .text l; (r.1, .byte c :: r.2)
      | none => (.fail, [])
    else lexFrom (.ent (acc ++ [b])) l

/-- the tokens of an HTML text, `none` if it contains anything but the renderer's tags / entities or
ends inside a tag or entity -/
def lex (l : Bytes) : Option (List Tok) :=
  match lexFrom .text l with
  | (.text, ts) => some ts
  | _ => none

/-- text content: the decoded bytes outside tags -/
def textOf : List Tok → Bytes
  | [] => []
  | .byte b :: r => b :: textOf r
  | _ :: r => textOf r

/-- span nesting depth stays ≥ 0 and ends at `d = 0`: `balancedFrom d toks` -/
def balancedFrom : Nat → List Tok → Bool
  | d, [] => d == 0
  | d, .openTag _ :: r => balancedFrom (d + 1) r
  | 0, .closeTag :: _ => false
  | d + 1, .closeTag :: r => balancedFrom d r
  | d, .byte _ :: r => balancedFrom d r

def balanced (ts : List Tok) : Bool := balancedFrom 0 ts

/-- classes of the opening tags -/
def classesOf : List Tok → List Bytes
  | [] => []
  | .openTag c :: r => c :: classesOf r
  | _ :: r => classesOf r

/-- the classes the renderer owns -/
def rendererClasses : List Bytes :=
  [FormatType.emphasized, .dimmed, .string, .keyword, .value, .unit, .identifier, .typeIdentifier,
    .operator, .decorator].filterMap cssClass ++ [clsRed, clsBlue, clsBold]

end NumbatModel.Html
