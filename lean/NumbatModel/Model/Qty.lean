/-
M-Unit / M-Qty: model of numbat's units and quantities
(`prefix.rs`, `unit.rs`, `product.rs`, `quantity.rs`), written once over a numeric signature `NumOps α`.

* The driver executes these definitions at `α := Float` (bit-exact correspondence with the Rust code).
* The theorems are proved for every lawful `α` (`Lemmas/Qty.lean`).

Units refer to their definitions through a *unit table* (index = unit id); the Rust code stores the
definition inside the unit value, so "recursion over the stored definition" becomes "recursion over the
table with fuel" here.  Import-free.
-/
namespace NumbatModel.Qty

/-- the numeric operations numbat performs on `Number` (f64) -/
class NumOps (α : Type) where
  zero : α
  one : α
  add : α → α → α
  sub : α → α → α
  mul : α → α → α
  div : α → α → α
  neg : α → α
  /-- `Number::pow(x, Number::from_f64(e.to_f64()))` for a rational exponent `e` -/
  rpow : α → Rat → α
  /-- `10.0f64.powi(n)` -/
  pow10 : Int → α
  /-- `2.0f64.powi(n)` -/
  pow2 : Int → α
  /-- f64 `==` -/
  beq : α → α → Bool
  /-- f64 `<` -/
  lt : α → α → Bool
  /-- f64 `<=` -/
  le : α → α → Bool
  isNaN : α → Bool
  /-- f64 `abs` -/
  abs : α → α
  /-- the literal `1e-9` (tolerance used by the registry-based simplification) -/
  tol9 : α
  /-- f64 `max` -/
  max : α → α → α

open NumOps

/-- `Prefix::Metric(n)` / `Prefix::Binary(n)` -/
structure Prefix where
  binary : Bool
  exp : Int
deriving DecidableEq, Repr, Inhabited

def Prefix.none : Prefix := ⟨false, 0⟩

def Prefix.factor {α} [NumOps α] (p : Prefix) : α :=
  if p.binary then pow2 p.exp else pow10 p.exp

/-- derived `Ord` of the Rust enum: `Metric(_) < Binary(_)`, then by the exponent -/
def Prefix.cmp (a b : Prefix) : Ordering :=
  match a.binary, b.binary with
  | false, true => .lt
  | true, false => .gt
  | _, _ => compare a.exp b.exp

/-- `UnitFactor`: unit id (index into the table), prefix, rational exponent -/
structure Factor where
  unit : Nat
  prefix_ : Prefix
  exp : Rat
deriving DecidableEq, Repr, Inhabited

/-- `Unit = Product<UnitFactor, false>`: a list of factors, *not* automatically canonical -/
abbrev Unit := List Factor

/-- one row of the unit table: a base unit, or a derived unit with its direct definition -/
structure UnitDef (α : Type) where
  name : String
  isBase : Bool
  factor : α          -- conversion factor to the defining unit (unused for base units)
  defn : Unit         -- the defining unit exactly as stored
deriving Repr, Inhabited

abbrev Table (α : Type) := List (UnitDef α)

def Unit.power (u : Unit) (e : Rat) : Unit := u.map (fun f => { f with exp := f.exp * e })
def Unit.invert (u : Unit) : Unit := Unit.power u (-1)
/-- `Mul for Product`: concatenation (no canonicalization for `Unit`) -/
def Unit.mul (u v : Unit) : Unit := u ++ v
def Unit.div (u v : Unit) : Unit := u ++ Unit.invert v

section base
variable {α : Type} [NumOps α]

/-- `UnitIdentifier::base_unit_and_factor` (fuel bounds the depth of the definition chain) -/
def baseUnitAndFactor (tbl : Table α) : Nat → Nat → Unit × α
  | 0, _ => ([], one)
  | fuel + 1, id =>
    match tbl[id]? with
    | none => ([], one)
    | some d =>
      if d.isBase then ([⟨id, Prefix.none, 1⟩], one)
      else
        let parts := d.defn.map (fun f =>
          let r := baseUnitAndFactor tbl fuel f.unit
          (Unit.power r.1 f.exp, rpow (mul (Prefix.factor f.prefix_) r.2) f.exp))
        ((parts.map (·.1)).foldl Unit.mul [],
          mul d.factor ((parts.map (·.2)).foldl mul one))

/-- the conversion factor part of `Unit::to_base_unit_representation` -/
def factorOf (tbl : Table α) (u : Unit) : α :=
  u.foldl (fun acc f =>
    mul acc (rpow (mul (Prefix.factor f.prefix_) (baseUnitAndFactor tbl tbl.length f.unit).2) f.exp)) one

/-- the (not yet canonicalized) base-unit part of `Unit::to_base_unit_representation` -/
def baseRepRaw (tbl : Table α) (u : Unit) : Unit :=
  u.foldl (fun acc f => Unit.mul acc (Unit.power (baseUnitAndFactor tbl tbl.length f.unit).1 f.exp)) []

end base

/-! ### Ordering and canonicalization -/

/-- lexicographic comparison of sort keys `Vec<(name, exponent)>` -/
def cmpKey : List (String × Rat) → List (String × Rat) → Ordering
  | [], [] => .eq
  | [], _ :: _ => .lt
  | _ :: _, [] => .gt
  | (n₁, e₁) :: r₁, (n₂, e₂) :: r₂ =>
    if n₁ < n₂ then .lt else if n₂ < n₁ then .gt
    else if e₁ < e₂ then .lt else if e₂ < e₁ then .gt
    else cmpKey r₁ r₂

/-- stable insertion of `x` into a list sorted by `le` -/
def insertBy {β : Type} (le : β → β → Bool) (x : β) : List β → List β
  | [] => [x]
  | y :: ys => if le x y then x :: y :: ys else y :: insertBy le x ys

/-- stable insertion sort (`sort_unstable` on the short slices numbat sorts behaves like this) -/
def sortBy {β : Type} (le : β → β → Bool) : List β → List β
  | [] => []
  | x :: xs => insertBy le x (sortBy le xs)

/-- merge *adjacent* factors with the same merge key `(prefix, unit)`, as `chunk_by` does -/
def mergeAdjacent : Unit → Unit
  | [] => []
  | f :: rest =>
    match mergeAdjacent rest with
    | [] => [f]
    | g :: gs =>
      if f.unit = g.unit ∧ f.prefix_ = g.prefix_ then { f with exp := f.exp + g.exp } :: gs
      else f :: g :: gs

def dropTrivial (u : Unit) : Unit := u.filter (fun f => f.exp != 0)

section canon
variable {α : Type} [NumOps α]

def gcdList : List Int → Nat
  | [] => 0
  | x :: xs => Nat.gcd x.natAbs (gcdList xs)

/-- `UnitIdentifier::sort_key`, given the *canonical* base representation of the unit's definition -/
def sortKeyOfBase (names : Nat → String) (base : Unit) : List (String × Rat) :=
  let key : List (String × Rat) := base.map (fun f => (names f.unit, f.exp))
  match key with
  | [] => []
  | (_, e0) :: _ =>
    let key := if e0 < 0 then key.map (fun p => (p.1, -p.2)) else key
    let factor : Int := key.foldl (fun acc p => acc * (p.2.den : Int)) 1
    let key := key.map (fun p => (p.1, p.2 * (factor : Rat)))
    let g : Nat := gcdList (key.map (fun p => p.2.num))
    key.map (fun p => (p.1, p.2 / ((g : Int) : Rat)))

def unitName (tbl : Table α) (id : Nat) : String := (tbl[id]?.map (·.name)).getD ""

/-- comparison of base-unit factors: by name, then prefix, then exponent (the derived `Ord`) -/
def cmpBaseFactor (tbl : Table α) (a b : Factor) : Ordering :=
  match cmpKey [(unitName tbl a.unit, 1)] [(unitName tbl b.unit, 1)] with
  | .lt => .lt
  | .gt => .gt
  | .eq =>
    match Prefix.cmp a.prefix_ b.prefix_ with
    | .lt => .lt
    | .gt => .gt
    | .eq => if a.exp < b.exp then .lt else if b.exp < a.exp then .gt else .eq

/-- canonicalization of a product of *base* units -/
def canonBase (tbl : Table α) (u : Unit) : Unit :=
  dropTrivial (mergeAdjacent (sortBy (fun a b => cmpBaseFactor tbl a b != .gt) u))

/-- `Unit::to_base_unit_representation().0` -/
def baseRep (tbl : Table α) (u : Unit) : Unit := canonBase tbl (baseRepRaw tbl u)

/-- `UnitIdentifier::sort_key` -/
def sortKey (tbl : Table α) (id : Nat) : List (String × Rat) :=
  match tbl[id]? with
  | none => []
  | some d =>
    if d.isBase then [(d.name, 1)]
    else sortKeyOfBase (unitName tbl) (canonBase tbl (baseRep tbl d.defn))

/-- derived `Ord` of `UnitFactor`: unit (by sort key), prefix, exponent -/
def cmpFactor (tbl : Table α) (a b : Factor) : Ordering :=
  match cmpKey (sortKey tbl a.unit) (sortKey tbl b.unit) with
  | .lt => .lt
  | .gt => .gt
  | .eq =>
    match Prefix.cmp a.prefix_ b.prefix_ with
    | .lt => .lt
    | .gt => .gt
    | .eq => if a.exp < b.exp then .lt else if b.exp < a.exp then .gt else .eq

/-- `Product::canonicalize` on general units -/
def canon (tbl : Table α) (u : Unit) : Unit :=
  dropTrivial (mergeAdjacent (sortBy (fun a b => cmpFactor tbl a b != .gt) u))

/-- `PartialEq for Product`: canonicalized factor lists are equal -/
def unitEq (tbl : Table α) (u v : Unit) : Bool := canon tbl u == canon tbl v

def isScalar (tbl : Table α) (u : Unit) : Bool := unitEq tbl u []

end canon

/-! ### Quantities -/

structure Quantity (α : Type) where
  value : α
  unit : Unit
  canSimplify : Bool := true
deriving Repr, Inhabited

inductive QErr where
  | incompatible
  | nonRational
  | divZero
deriving Repr, DecidableEq

section qty
variable {α : Type} [NumOps α]

def Quantity.isZero (q : Quantity α) : Bool := beq q.value zero

/-- the common-factor heuristic of `convert_to`: for every factor of the canonical source unit that also
occurs (same prefix, same unit) in the canonical target unit with the same sign, the smaller power -/
def commonFactors (src tgt : Unit) : Unit :=
  src.foldl (fun acc f =>
    match tgt.find? (fun g => f.prefix_ = g.prefix_ ∧ f.unit = g.unit) with
    | none => acc
    | some g =>
      if (0 : Rat) < f.exp ∧ (0 : Rat) < g.exp then Unit.mul acc [{ f with exp := if f.exp ≤ g.exp then f.exp else g.exp }]
      else if f.exp < (0 : Rat) ∧ g.exp < (0 : Rat) then Unit.mul acc [{ f with exp := if f.exp ≤ g.exp then g.exp else f.exp }]
      else acc) []

/-- `Quantity::convert_to` -/
def convertTo (tbl : Table α) (q : Quantity α) (target : Unit) : Except QErr (Quantity α) :=
  if unitEq tbl q.unit target || q.isZero then .ok ⟨q.value, target, true⟩
  else
    let common := commonFactors (canon tbl q.unit) (canon tbl target)
    let targetReduced := canon tbl (Unit.div target common)
    let ownReduced := canon tbl (Unit.div q.unit common)
    let targetBase := baseRep tbl targetReduced
    let factor := factorOf tbl targetReduced
    -- `(self.clone() / Quantity::from_unit(common)).to_base_unit_representation()`
    let qUnit := Unit.div q.unit common
    let qBaseValue := mul (div q.value one) (factorOf tbl qUnit)
    let ownBase := baseRep tbl ownReduced
    if ownBase == targetBase then .ok ⟨div qBaseValue factor, target, true⟩
    else .error .incompatible

/-- `Unit::smaller_unit` -/
def smallerUnit (tbl : Table α) (u v : Unit) : Unit :=
  if le (factorOf tbl u) (factorOf tbl v) then u else v

def Quantity.neg (q : Quantity α) : Quantity α := ⟨NumOps.neg q.value, q.unit, true⟩

/-- `impl Add for &Quantity` -/
def qadd (tbl : Table α) (a b : Quantity α) : Except QErr (Quantity α) :=
  if a.isZero then .ok b
  else if b.isZero then .ok a
  else if unitEq tbl a.unit b.unit then .ok ⟨add a.value b.value, a.unit, true⟩
  else
    let u := smallerUnit tbl a.unit b.unit
    match convertTo tbl a u, convertTo tbl b u with
    | .ok a', .ok b' => .ok ⟨add a'.value b'.value, u, true⟩
    | .error e, _ => .error e
    | _, .error e => .error e

/-- `impl Sub for &Quantity` -/
def qsub (tbl : Table α) (a b : Quantity α) : Except QErr (Quantity α) :=
  if a.isZero then .ok b.neg
  else if b.isZero then .ok a
  else if unitEq tbl a.unit b.unit then .ok ⟨sub a.value b.value, a.unit, true⟩
  else
    let u := smallerUnit tbl a.unit b.unit
    match convertTo tbl a u, convertTo tbl b u with
    | .ok a', .ok b' => .ok ⟨sub a'.value b'.value, u, true⟩
    | .error e, _ => .error e
    | _, .error e => .error e

def qmul (a b : Quantity α) : Quantity α := ⟨mul a.value b.value, Unit.mul a.unit b.unit, true⟩
def qdiv (a b : Quantity α) : Quantity α := ⟨div a.value b.value, Unit.div a.unit b.unit, true⟩

/-- `impl PartialEq for Quantity`: the right operand is converted into the left operand's unit -/
def qeq (tbl : Table α) (a b : Quantity α) : Bool :=
  match convertTo tbl b a.unit with
  | .ok b' => beq a.value b'.value
  | .error _ => false

inductive QOrd where
  | incompatible | nan | lt | eq | gt
deriving Repr, DecidableEq

def cmpValues (x y : α) : QOrd :=
  if lt x y then .lt else if lt y x then .gt else if beq x y then .eq else .nan

/-- `Quantity::partial_cmp_preserve_nan` (with the zero-on-the-left repair) -/
def qcmp (tbl : Table α) (a b : Quantity α) : QOrd :=
  if isNaN a.value || isNaN b.value then .nan
  else if a.isZero then
    match convertTo tbl a b.unit with
    | .ok a' => cmpValues a'.value b.value
    | .error _ => .incompatible
  else
    match convertTo tbl b a.unit with
    | .ok b' => cmpValues a.value b'.value
    | .error _ => .incompatible

/-- the four ordering opcodes of the VM -/
inductive CmpOp where
  | lt | gt | le | ge
deriving Repr, DecidableEq

/-- `Op::LessThan | GreaterThan | LessOrEqual | GreatorOrEqual` of the VM -/
def vmCompare (tbl : Table α) (op : CmpOp) (a b : Quantity α) : Except QErr Bool :=
  match qcmp tbl a b with
  | .incompatible => .error .incompatible
  | .nan => .ok false
  | .lt => .ok (op == .lt || op == .le)
  | .eq => .ok (op == .le || op == .ge)
  | .gt => .ok (op == .gt || op == .ge)

/-- `Op::Equal` / `Op::NotEqual` on quantities -/
def vmEq (tbl : Table α) (a b : Quantity α) : Bool := qeq tbl a b
def vmNe (tbl : Table α) (a b : Quantity α) : Bool := !qeq tbl a b

/-- `to_base_unit_representation` of a quantity -/
def toBase (tbl : Table α) (q : Quantity α) : Quantity α :=
  ⟨mul q.value (factorOf tbl q.unit), baseRep tbl q.unit, true⟩

/-- `Quantity::checked_power` with the exponent already turned into a rational by
`Rational::from_f64` (external crate; the harness passes the rational the real code obtained) -/
def checkedPower (a : Quantity α) (r : Rat) : Except QErr (Quantity α) :=
  if r < 0 && a.isZero then .error .divZero
  else .ok ⟨rpow a.value r, Unit.power a.unit r, true⟩

/-- `Quantity::checked_div` -/
def checkedDiv (a b : Quantity α) : Except QErr (Quantity α) :=
  if b.isZero then .error .divZero else .ok (qdiv a b)

/-- expression trees over numbers, units with prefixes, `+ - * /`, negation and rational powers -/
inductive QExpr (α : Type) where
  | num (v : α)
  | unit (f : Factor)
  | neg (a : QExpr α)
  | add (a b : QExpr α)
  | sub (a b : QExpr α)
  | mul (a b : QExpr α)
  | div (a b : QExpr α)
  | pow (a : QExpr α) (r : Rat)
deriving Repr

/-- evaluation as the VM does it (`Op::Add .. Op::Power`; units are constants of value 1) -/
def evalQ (tbl : Table α) : QExpr α → Except QErr (Quantity α)
  | .num v => .ok ⟨v, [], true⟩
  | .unit f => .ok ⟨one, [f], true⟩
  | .neg a => (evalQ tbl a).map Quantity.neg
  | .add a b =>
    match evalQ tbl a, evalQ tbl b with
    | .ok x, .ok y => qadd tbl x y
    | .error e, _ => .error e
    | _, .error e => .error e
  | .sub a b =>
    match evalQ tbl a, evalQ tbl b with
    | .ok x, .ok y => qsub tbl x y
    | .error e, _ => .error e
    | _, .error e => .error e
  | .mul a b =>
    match evalQ tbl a, evalQ tbl b with
    | .ok x, .ok y => .ok (qmul x y)
    | .error e, _ => .error e
    | _, .error e => .error e
  | .div a b =>
    match evalQ tbl a, evalQ tbl b with
    | .ok x, .ok y => checkedDiv x y
    | .error e, _ => .error e
    | _, .error e => .error e
  | .pow a r =>
    match evalQ tbl a with
    | .ok x => checkedPower x r
    | .error e => .error e

/-! ### simplification (`Quantity::full_simplify`, `full_simplify_with_registry`) -/

/-- `unit::is_multiple_of` -/
def isMultipleOf (tbl : Table α) (a b : Unit) : Option Rat :=
  let aBase := baseRep tbl a
  let bBase := baseRep tbl b
  if isScalar tbl (canon tbl (Unit.div aBase bBase)) then some 1
  else if isScalar tbl aBase then none
  else
    match aBase with
    | [] => none       -- "At least one factor in non-scalar unit"
    | aFirst :: _ =>
      match bBase.find? (fun fb => fb.unit = aFirst.unit) with
      | none => none
      | some fb =>
        let alpha := aFirst.exp / fb.exp
        if isScalar tbl (Unit.div aBase (Unit.power bBase alpha)) then some alpha else none

/-- consecutive runs of equal key, as `Itertools::chunk_by` -/
def chunkBy {β κ : Type} [BEq κ] (key : β → κ) : List β → List (List β)
  | [] => []
  | x :: xs =>
    match chunkBy key xs with
    | [] => [[x]]
    | (y :: ys) :: rest => if key x == key y then (x :: y :: ys) :: rest else [x] :: (y :: ys) :: rest
    | [] :: rest => [x] :: rest

/-- `Iterator::max_by` returns the *last* maximal element -/
def maxBy {β : Type} (le : β → β → Bool) : List β → Option β
  | [] => none
  | x :: xs => some (xs.foldl (fun best y => if le best y then y else best) x)

/-- the exponent of the first factor of the canonical base representation of a unit id
(`removed_exponent` of heuristic 3, after the repair that canonicalises first) -/
def removedExponent (tbl : Table α) (f : Factor) : Rat :=
  match canonBase tbl (baseUnitAndFactor tbl tbl.length f.unit).1 with
  | [] => 1
  | g :: _ => g.exp

def isBaseUnit (tbl : Table α) (id : Nat) : Bool := (tbl[id]?.map (·.isBase)).getD false

/-- result of `full_simplify`: `none` = the `unwrap` of heuristic 3 would panic -/
def fullSimplify (tbl : Table α) (q : Quantity α) : Option (Quantity α) :=
  if !q.canSimplify then some q
  else
    -- heuristic 1
    match convertTo tbl q [] with
    | .ok r => some r
    | .error _ =>
      let unit := canon tbl q.unit
      -- heuristic 2
      let h2 : Option (Quantity α) :=
        if unit.length > 1 then
          unit.findSome? (fun f =>
            let factorUnit : Unit := [{ f with exp := 1 }]
            match isMultipleOf tbl unit factorUnit with
            | some alpha =>
              if alpha.den == 1 then
                match convertTo tbl q (Unit.power factorUnit alpha) with
                | .ok r => some r
                | .error _ => none
              else none
            | none => none)
        else none
      match h2 with
      | some r => some r
      | none =>
        -- heuristic 3
        let groups := chunkBy (fun f => sortKey tbl f.unit) unit
        let step := fun (acc : Option (α × Unit)) (group : Unit) =>
          match acc with
          | none => none
          | some (factor, simplified) =>
            match maxBy (fun f1 f2 =>
                -- (is_base, exponent) lexicographic `<=`
                let b1 := isBaseUnit tbl f1.unit
                let b2 := isBaseUnit tbl f2.unit
                if b1 != b2 then (!b1 && b2) else f1.exp ≤ f2.exp) group with
            | none => none
            | some rep =>
              let target : Unit :=
                if isScalar tbl (baseRep tbl group) then []
                else
                  let e := group.foldl (fun s f => s + f.exp * removedExponent tbl f / removedExponent tbl rep) 0
                  [{ rep with exp := e }]
              match convertTo tbl ⟨one, group, true⟩ target with
              | .ok c => some (mul factor c.value, Unit.mul simplified target)
              | .error _ => none
        match groups.foldl step (some (one, [])) with
        | none => none
        | some (factor, simplified) => some ⟨mul q.value factor, canon tbl simplified, true⟩

/-- `Op::ConvertTo` of the VM: `lhs.convert_to(rhs.unit()).map(|q| q.no_simplify().with_conversion_target(rhs))`
(the conversion target only affects how the value is printed) -/
def vmConvertTo (tbl : Table α) (a b : Quantity α) : Except QErr (Quantity α) :=
  match convertTo tbl a b.unit with
  | .ok r => .ok { r with canSimplify := false }
  | .error e => .error e

/-! ### assertions (`ffi/procedures.rs`) -/

inductive AssertRes where
  | ok            -- ControlFlow::Continue
  | failed        -- AssertFailed / AssertEq2Failed / AssertEq3Failed
  | qerr          -- RuntimeErrorKind::QuantityError
deriving Repr, DecidableEq

/-- `assert(c)` -/
def assertBool (c : Bool) : AssertRes := if c then .ok else .failed

/-- `assert_eq(a, b)` on quantities -/
def assertEq2 (tbl : Table α) (a b : Quantity α) : AssertRes :=
  match convertTo tbl a b.unit with
  | .ok c => if qeq tbl c b then .ok else .failed
  | .error _ => .failed

/-- `PartialOrd::le` of `Quantity` (`partial_cmp`: the right operand is converted; NaN or incompatible => false) -/
def qle (tbl : Table α) (a b : Quantity α) : Bool :=
  match convertTo tbl b a.unit with
  | .ok b' => !isNaN a.value && !isNaN b'.value && le a.value b'.value
  | .error _ => false

/-- `assert_eq(a, b, eps)` -/
def assertEq3Core (tbl : Table α) (a b eps : Quantity α) : AssertRes :=
  match convertTo tbl a eps.unit with
  | .error _ => .qerr
  | .ok ac =>
    match convertTo tbl b eps.unit with
    | .error _ => .qerr
    | .ok bc =>
      match qsub tbl ac bc with
      | .error _ => .qerr
      | .ok d => if qle tbl ⟨NumOps.abs d.value, d.unit, true⟩ eps then .ok else .failed

/-- the tolerance as `assert_eq` uses it (numbat 0551bf6): a zero written without a unit (the literal `0` has every
dimension) is first brought into the unit of one of the operands — the left one unless that is a zero too -/
def epsNorm (tbl : Table α) (a b eps : Quantity α) : Quantity α :=
  if eps.isZero && eps.unit.isEmpty then
    match convertTo tbl eps (if a.isZero then b.unit else a.unit) with
    | .ok e => e
    | .error _ => eps
  else eps

/-- `assert_eq(a, b, eps)` -/
def assertEq3 (tbl : Table α) (a b eps : Quantity α) : AssertRes :=
  assertEq3Core tbl a b (epsNorm tbl a b eps)

/-- a value as the front ends display it: the quantity plus the conversion target of `with_conversion_target`
(`6 hours -> 45 min` is displayed as `8 × 45 min`) -/
structure Displayed (α : Type) where
  q : Quantity α
  target : Option (Quantity α)

/-- `Op::ConvertTo` including the display target: it is set iff the right operand's magnitude is not 1, and a
previous target never survives (`convert_to` builds a fresh quantity) -/
def vmConvertDisplay (tbl : Table α) (a b : Quantity α) : Except QErr (Displayed α) :=
  match vmConvertTo tbl a b with
  | .ok r => .ok ⟨r, if beq b.value one then none else some b⟩
  | .error e => .error e

/-- registry information per table row -/
structure RegRow where
  isAbbreviation : Bool
deriving Repr, Inhabited

/-- insertion sort of names (byte-wise `str` order = code-point order) -/
def sortNames (l : List (String × Nat)) : List (String × Nat) := sortBy (fun a b => !(b.1 < a.1)) l

/-- `UnitRegistry::get_matching_unit_names` as unit ids: a single base unit first, then the derived
non-abbreviation units with the same base representation, alphabetically -/
def matchingUnits (tbl : Table α) (reg : List RegRow) (u : Unit) : List Nat :=
  let base := baseRep tbl u
  let baseMatch : List Nat :=
    match base with
    | [f] => if f.exp == 1 && isBaseUnit tbl f.unit then [f.unit] else []
    | _ => []
  let derived := (List.range tbl.length).filterMap (fun id =>
    match tbl[id]?, reg[id]? with
    | some d, some r =>
      if !d.isBase && !r.isAbbreviation && baseRep tbl d.defn == base then some (d.name, id) else none
    | _, _ => none)
  baseMatch ++ (sortNames derived).map (·.2)

/-- `Quantity::full_simplify_with_registry` (every registered unit is a single-factor unit, so the first
candidate whose conversion factor matches is taken) -/
def fullSimplifyReg (tbl : Table α) (reg : List RegRow) (q : Quantity α) : Option (Quantity α) :=
  match fullSimplify tbl q with
  | none => none
  | some s =>
    if !s.canSimplify then some s
    else if s.unit.length ≤ 1 then some s
    else
      let base := baseRep tbl s.unit
      let sf := factorOf tbl s.unit
      let direct : Option (Quantity α) :=
        match base with
        | [f] =>
          if f.exp.den == 1 && lt (NumOps.abs (sub sf one)) tol9 then
            match convertTo tbl s base with
            | .ok c => some c
            | .error _ => none
          else none
        | _ => none
      match direct with
      | some c => some c
      | none =>
        let cands := matchingUnits tbl reg s.unit
        match cands.findSome? (fun id =>
            let target : Unit := [⟨id, Prefix.none, 1⟩]
            let tf := factorOf tbl target
            if lt (NumOps.abs (sub sf tf)) (mul tol9 (NumOps.max (NumOps.abs sf) one)) then
              match convertTo tbl s target with
              | .ok c => some c
              | .error _ => none
            else none) with
        | some c => some c
        | none => some s

end qty

end NumbatModel.Qty
