/-! C24 — the exemption rule for `@example` snippets (import-free; strings are lists of code points so
that the kernel can evaluate the rule on the generated table).

An example is *exempt* from "must run without error" iff it mentions — as an identifier token outside
string literals — a foreign function that reads the process environment.  This mirrors
`identifiers`/`is_exempt` of `harness/src/bin/c24.rs` exactly. -/
namespace NumbatModel.Examples

abbrev Str := List Nat

/-- ASCII letter / digit / `_` / any non-ASCII character -/
def isIdentChar (c : Nat) : Bool :=
  (48 ≤ c && c ≤ 57) || (65 ≤ c && c ≤ 90) || (97 ≤ c && c ≤ 122) || c == 95 || 128 ≤ c

def flush (cur : Str) (acc : List Str) : List Str :=
  if cur.isEmpty then acc else cur.reverse :: acc

/-- identifier tokens outside string literals (`"` = 34 toggles); `cur` is the reversed current token -/
def identsAux : Str → Bool → Str → List Str → List Str
  | [], _, cur, acc => flush cur acc
  | c :: cs, inStr, cur, acc =>
    let inStr' := if c == 34 then !inStr else inStr
    if !inStr' && isIdentChar c then identsAux cs inStr' (c :: cur) acc
    else identsAux cs inStr' [] (flush cur acc)

def idents (text : Str) : List Str := (identsAux text false [] []).reverse

/-- the exemption rule -/
def isExempt (envFns : List Str) (text : Str) : Bool :=
  (idents text).any (fun t => envFns.contains t)

/-- one row of the generated table -/
structure Row where
  module : Str
  function : Str
  index : Nat
  exempt : Bool
  text : Str
deriving DecidableEq, Repr

def Row.key (r : Row) : Str × Str × Nat := (r.module, r.function, r.index)

end NumbatModel.Examples
