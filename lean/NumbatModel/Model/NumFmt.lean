/-!
# M-Fmt — model of `Number::pretty_print_with_dtoa_config` (`numbat/src/number.rs`)

Strings are `List Char`.  The f64 is given by its bit pattern and decoded arithmetically (no `Float`), so that the
theorems can compute with it.

Mirrored
* the integer-branch condition `dtoa_config.is_none() && self.is_integer() && self.0.abs() < 2^53`
  (`is_integer` is `trunc(x) == x`: false for NaN, true for ±inf which then fail the magnitude test; `-0.0` is an
  integer and becomes `0` through `to_i64`)                                                        → `integerValue`
* `use_grouping = !sep.is_empty() && |x| >= 10^(threshold-1)` (f64 `powf`; exact for every power of ten that can be
  ≤ 2^53, and `threshold = 0` gives `10^-1`)                                                         → `useGrouping`
* `num_format` (0.4.4) `to_formatted_string` with `CustomFormat{grouping: Standard|Posix, separator, minus_sign "-"}`:
  `run_core_algorithm` writes the digits right to left and puts the separator before every 4th, 7th, … digit;
  no separator at all if the separator is empty or the grouping is `Posix`                           → `writeDigits`, `fmtInt`
* the post-processing of the string returned by the external crate `pretty_dtoa` (parameter `raw`)   → `postProcess`
* the whole function                                                                                 → `prettyPrint`

The second half is specification vocabulary for C14 (what "a valid numbat number literal" and "its decimal value"
mean): `isNumberLiteral` mirrors the number rule of `tokenizer.rs` (without `_`), `decimalValue` reads a decimal
literal as an exact rational, `removeSep` is `str::replace(sep, "")`.
-/
namespace NumbatModel.NumFmt

/-! ## f64 bit patterns -/

/-- `|x| = mant * 2^exp2` for a finite f64 -/
structure Finite where
  neg : Bool
  mant : Nat
  exp2 : Int
  deriving Repr, DecidableEq

inductive F64Class
  | nan
  | inf (neg : Bool)
  | finite (f : Finite)
  deriving Repr, DecidableEq

def decodeBits (bits : Nat) : F64Class :=
  let neg := bits / 2 ^ 63 % 2 == 1
  let e : Nat := bits / 2 ^ 52 % 2048
  let m : Nat := bits % 2 ^ 52
  if e == 2047 then (if m == 0 then .inf neg else .nan)
  else if e == 0 then .finite ⟨neg, m, -1074⟩
  else .finite ⟨neg, m + 2 ^ 52, (e : Int) - 1075⟩

/-- `some |x|` iff `trunc(x) == x` (the value is an integer) -/
def Finite.absInteger (f : Finite) : Option Nat :=
  if f.exp2 ≥ 0 then some (f.mant * 2 ^ f.exp2.toNat)
  else if f.mant % 2 ^ (-f.exp2).toNat == 0 then some (f.mant / 2 ^ (-f.exp2).toNat)
  else none

/-- `some n` iff `trunc(x) == x && |x| < 2^53`, with `n = x.to_i64()` -/
def integerValue (bits : Nat) : Option Int :=
  match decodeBits bits with
  | .nan => none
  | .inf _ => none
  | .finite f =>
    match f.absInteger with
    | some a => if a < 2 ^ 53 then some (if f.neg then -(a : Int) else (a : Int)) else none
    | none => none

/-! ## options -/

structure FormatOptions where
  digitSeparator : List Char
  digitGroupingThreshold : Nat
  significantDigits : Nat
  deriving Repr

/-! ## integer branch -/

/-- `!options.digit_separator.is_empty() && self.0.abs() >= 10.0_f64.powf(threshold - 1.0)` -/
def useGrouping (n : Int) (opts : FormatOptions) : Bool :=
  !opts.digitSeparator.isEmpty &&
    (if opts.digitGroupingThreshold = 0 then n.natAbs ≥ 1   -- 10^-1
     else n.natAbs ≥ 10 ^ (opts.digitGroupingThreshold - 1))

/-- `run_core_algorithm`: the digits are written right to left into the buffer `acc`; `count` digits have been
written since the last separator (`write_one_byte` puts the separator when the write position reaches `sep.pos`) -/
def writeDigits (sep : List Char) : List Char → Nat → List Char → List Char
  | [], _, acc => acc
  | d :: rest, count, acc =>
    if count = 3 then writeDigits sep rest 1 (d :: (sep ++ acc))
    else writeDigits sep rest (count + 1) (d :: acc)

/-- decimal digits of a natural number (`itoa`) -/
def natDigits (n : Nat) : List Char := Nat.toDigits 10 n

/-- `n.to_formatted_string(&format)` for the `CustomFormat` numbat builds -/
def fmtInt (n : Int) (opts : FormatOptions) : List Char :=
  let digits := natDigits n.natAbs
  let body :=
    -- "Bail out early if we can just use itoa": separator empty or grouping = Posix
    if opts.digitSeparator.isEmpty || !useGrouping n opts then digits
    else writeDigits opts.digitSeparator digits.reverse 0 []
  if n < 0 then '-' :: body else body

/-! ## float branch: post-processing of the `pretty_dtoa` output -/

/-- `str::trim_end_matches('0')`: the longest suffix of `'0'`s is dropped (a character is kept iff something is
kept after it or it is not `'0'`) -/
def trimEndZeros : List Char → List Char
  | [] => []
  | c :: s =>
    let t := trimEndZeros s
    if t.isEmpty && c == '0' then [] else c :: t

/-- `str::contains("e-")` -/
def containsEMinus : List Char → Bool
  | [] => false
  | [_] => false
  | a :: b :: rest => (a == 'e' && b == '-') || containsEMinus (b :: rest)

/-- `str::replace('e', "e+")` -/
def replaceE (s : List Char) : List Char := s.flatMap (fun c => if c == 'e' then ['e', '+'] else [c])

/-- what numbat does with the string `formatted_number` that `dtoa(number, config)` returned;
`maxSigIsSome` = `config.max_sig_digits.is_some()` -/
def postProcess (raw : List Char) (maxSigIsSome : Bool) : List Char :=
  if raw.contains '.' && !raw.contains 'e' then
    let t := if maxSigIsSome then trimEndZeros raw else raw
    if t.getLast? == some '.' then t ++ ['0'] else t
  else if raw.contains 'e' && !containsEMinus raw then replaceE raw
  else raw

/-- `Number::pretty_print_with_dtoa_config(options, dtoa_config)`.
`overrideCfg = dtoa_config.is_some()`; `raw` = the string `pretty_dtoa::dtoa` returns for the configuration in
force (irrelevant in the integer branch); without an override numbat's own configuration sets `max_sig_digits`. -/
def prettyPrint (bits : Nat) (opts : FormatOptions) (overrideCfg : Bool) (maxSigIsSome : Bool)
    (raw : List Char) : List Char :=
  match (if overrideCfg then none else integerValue bits) with
  | some n => fmtInt n opts
  | none => postProcess raw (if overrideCfg then maxSigIsSome else true)

/-! ## specification vocabulary -/

/-- `str::replace(sep, "")`: leftmost non-overlapping occurrences removed (`skip` = characters of a match still
to drop) -/
def removeSepAux (sep : List Char) : Nat → List Char → List Char
  | _, [] => []
  | skip + 1, _ :: s => removeSepAux sep skip s
  | 0, c :: s =>
    if !sep.isEmpty && sep.isPrefixOf (c :: s) then removeSepAux sep (sep.length - 1) s
    else c :: removeSepAux sep 0 s

def removeSep (sep : List Char) (s : List Char) : List Char := removeSepAux sep 0 s

/-- groups joined by the separator -/
def joinGroups (sep : List Char) : List (List Char) → List Char
  | [] => []
  | [g] => g
  | g :: gs => g ++ sep ++ joinGroups sep gs

/-- ASCII digit (`char::is_ascii_digit`) -/
def isDigitChar (c : Char) : Bool := c.isDigit

/-- splits off the longest prefix of digits -/
def spanDigits : List Char → List Char × List Char
  | [] => ([], [])
  | c :: s => if isDigitChar c then let r := spanDigits s; (c :: r.1, r.2) else ([], c :: s)

/-- an optional `+` or `-` in front -/
def stripSign : List Char → Option Char × List Char
  | [] => (none, [])
  | c :: r => if c == '+' || c == '-' then (some c, r) else (none, c :: r)

/-- the exponent part accepted by `Tokenizer::scientific_notation`: `(e|E) (+|-)? digit+`, whole rest -/
def isExponentPart : List Char → Bool
  | c :: rest =>
    (c == 'e' || c == 'E') &&
      (let sp := spanDigits (stripSign rest).2
       !sp.1.isEmpty && sp.2.isEmpty)
  | [] => false

/-- the number rule of `tokenizer.rs` for a literal without `_`: `digit+ ('.' digit*)? ((e|E)(+|-)?digit+)?`,
and the token is the whole string -/
def isNumberLiteral (s : List Char) : Bool :=
  let sp := spanDigits s
  !sp.1.isEmpty &&
    (match sp.2 with
     | [] => true
     | '.' :: r =>
       let sf := spanDigits r
       sf.2.isEmpty || isExponentPart sf.2
     | r => isExponentPart r)

/-- a number literal, possibly under one unary minus -/
def isSignedNumberLiteral : List Char → Bool
  | '-' :: s => isNumberLiteral s
  | s => isNumberLiteral s

/-- value of a digit string (core's reader of decimal digits) -/
def digitsToNat (ds : List Char) : Nat := Nat.ofDigitChars 10 ds 0

/-- `10^e` as a rational -/
def pow10 (e : Int) : Rat := if e ≥ 0 then ((10 ^ e.toNat : Nat) : Rat) else mkRat 1 (10 ^ (-e).toNat)

/-- exponent part `e[+|-]digits` → integer -/
def exponentValue : List Char → Option Int
  | c :: rest =>
    if c == 'e' || c == 'E' then
      let ss := stripSign rest
      let sp := spanDigits ss.2
      if !sp.1.isEmpty && sp.2.isEmpty then
        some (if ss.1 == some '-' then -(digitsToNat sp.1 : Int) else (digitsToNat sp.1 : Int))
      else none
    else none
  | [] => none

/-- exact value of `digits ['.' digits] [exponent]` -/
def unsignedValue (s : List Char) : Option Rat :=
  let sp := spanDigits s
  if sp.1.isEmpty then none else
  let ip : Rat := (digitsToNat sp.1 : Nat)
  match sp.2 with
  | [] => some ip
  | '.' :: r =>
    let sf := spanDigits r
    let m : Rat := ip + mkRat (digitsToNat sf.1) (10 ^ sf.1.length)
    if sf.2.isEmpty then some m else (exponentValue sf.2).map (fun e => m * pow10 e)
  | r => (exponentValue r).map (fun e => ip * pow10 e)

/-- exact decimal value of a (possibly negated) decimal literal -/
def decimalValue : List Char → Option Rat
  | '-' :: s => (unsignedValue s).map (fun v => -v)
  | s => unsignedValue s

/-- an optional `-` in front removed -/
def stripMinus : List Char → List Char
  | '-' :: x => x
  | x => x

/-- exponent part of `pretty_dtoa` output: nothing, or `e` `-`? digit+ -/
def wfExp : List Char → Bool
  | [] => true
  | c :: r => c == 'e' && !(stripMinus r).isEmpty && (spanDigits (stripMinus r)).2.isEmpty

/-- what follows an optional `'.' digit*` -/
def afterFrac : List Char → List Char
  | '.' :: r => (spanDigits r).2
  | r => r

def wellFormedAbs (body : List Char) : Bool :=
  let sp := spanDigits body
  !sp.1.isEmpty && wfExp (afterFrac sp.2)

/-- the contract assumed of `pretty_dtoa` output for a finite value: `-? digit+ ('.' digit*)? ('e' '-'? digit+)?` -/
def wellFormedRaw : List Char → Bool
  | '-' :: r => wellFormedAbs r
  | r => wellFormedAbs r

end NumbatModel.NumFmt
