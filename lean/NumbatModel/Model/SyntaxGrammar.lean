import NumbatModel.Model.SyntaxRender
/-
M-Syn (5): the documented expression grammar — the BNF of the module documentation of numbat/src/parser.rs —
as an inductive relation `Derives L ts e`: the token list `ts` is a sentence of the nonterminal of level `L`
(0 = `postfix_apply` = `expression`, …, 16 = `primary`, see `levelNames`) and `e` is the tree the grammar
assigns.  Every rule is one production of the BNF (left-recursive form of the `( … )*` repetitions).

Deviations from the literal text, all documented in notes/C10.md:
  * `factor ::= per_factor ((*|/) per_factor)*` (the text's first operand `unary` contradicts the book's table);
  * `|>` is followed by a `call` whose tree is an identifier or a call (the book writes `x |> f(a)` throughout);
  * the juxtaposed operand of `ifactor` starts with a number, an identifier, `?` or `(`;
  * argument lists, list expressions and struct expressions may end in a trailing comma;
  * a callee is any `call` expression (the BNF's `primary ( "(" … ")" | "." identifier )*`).
-/
namespace NumbatModel.Syntax

/-- operator list of a `parse_binop` level (2 conversion, 3 logical_or, 4 logical_and, 6 comparison, 7 term,
8 factor, 9 per_factor) -/
def binOpsAt : Nat → List (TokKind × BinOp)
  | 2 => conversionOps | 3 => logicalOrOps | 4 => logicalAndOps | 6 => comparisonOps
  | 7 => termOps | 8 => factorOps | 9 => perFactorOps | _ => []

mutual
inductive Derives : Nat → List Token → Expr → Prop
  /-- every nonterminal derives what the next tighter one derives -/
  | up {L ts e} : L < 16 → Derives (L + 1) ts e → Derives L ts e
  /-- postfix_apply ::= postfix_apply "|>" call -/
  | pipe {xs fs x f} (tok : Token) : Derives 0 xs x → tok.kind = .postfixApply → Derives 15 fs f →
      isPipeTarget f = true → Derives 0 (xs ++ tok :: fs) (pipeResult x f)
  /-- condition ::= "if" conversion "then" condition "else" condition -/
  | cond {cs ts es c t e} (tIf tThen tElse : Token) : tIf.kind = .if_ → Derives 2 cs c → tThen.kind = .then_ →
      Derives 1 ts t → tElse.kind = .else_ → Derives 1 es e →
      Derives 1 (tIf :: cs ++ tThen :: ts ++ tElse :: es) (.cond c t e)
  /-- the left-associative infix levels: X ::= X op Y with Y the next tighter nonterminal -/
  | binop {L ls rs l r op} (tok : Token) : (binOpsAt L).lookup tok.kind = some op → Derives L ls l →
      Derives (L + 1) rs r → Derives L (ls ++ tok :: rs) (.bin op l r)
  /-- logical_neg ::= "!" logical_neg -/
  | lnot {ts e} (tok : Token) : tok.kind = .exclamationMark → Derives 5 ts e → Derives 5 (tok :: ts) (.lnot e)
  /-- unary ::= minus unary | plus unary -/
  | neg {ts e} (tok : Token) : tok.kind = .minus → Derives 10 ts e → Derives 10 (tok :: ts) (.neg e)
  | uplus {ts e} (tok : Token) : tok.kind = .plus → Derives 10 ts e → Derives 10 (tok :: ts) e
  /-- ifactor ::= ifactor power (juxtaposition) -/
  | imul {ls rs l r} : Derives 11 ls l → Derives 12 rs r → couldStartPower (peekKind rs) = true →
      Derives 11 (ls ++ rs) (.imul l r)
  /-- power ::= factorial "^" power | factorial "^" "-" power -/
  | pow {ls rs l r} (tok : Token) : Derives 13 ls l → tok.kind = .power → Derives 12 rs r →
      Derives 12 (ls ++ tok :: rs) (.bin .power l r)
  | powNeg {ls rs l r} (tok tm : Token) : Derives 13 ls l → tok.kind = .power → tm.kind = .minus →
      Derives 12 rs r → Derives 12 (ls ++ tok :: tm :: rs) (.bin .power l (.neg r))
  /-- factorial ::= unicode_power "!"+ -/
  | fact {ts e} (bangs : List Token) : Derives 14 ts e → bangs ≠ [] → (∀ b ∈ bangs, b.kind = .exclamationMark) →
      Derives 13 (ts ++ bangs) (.fact bangs.length e)
  /-- unicode_power ::= call ( "⁻"? "¹…⁹" ) -/
  | upow {ts e} (tok : Token) : Derives 15 ts e → tok.kind = .unicodeExponent → Derives 14 (ts ++ [tok]) (.upow e tok)
  /-- call ::= call "(" arguments? ")" | call "." identifier -/
  | call {fs as f args} (lp : Token) : Derives 15 fs f → lp.kind = .leftParen → DerivesArgs .rightParen as args →
      Derives 15 (fs ++ lp :: as) (.call f args)
  | field {ts e} (dot id : Token) : Derives 15 ts e → dot.kind = .period → id.kind = .identifier →
      Derives 15 (ts ++ [dot, id]) (.field e id.lexeme)
  /-- primary -/
  | scalar (t : Token) : isNumericKind t.kind = true →
      ((t.kind = .intBase16 ∨ t.kind = .intBase8 ∨ t.kind = .intBase2) → basedOverflows t = false) →
      Derives 16 [t] (.scalar t)
  | ident (t : Token) : t.kind = .identifier → Derives 16 [t] (.ident t.lexeme)
  | hole (t : Token) : t.kind = .questionMark → Derives 16 [t] .hole
  | true_ (t : Token) : t.kind = .true_ → Derives 16 [t] (.boolean true)
  | false_ (t : Token) : t.kind = .false_ → Derives 16 [t] (.boolean false)
  | str (t : Token) : t.kind = .stringFixed → Derives 16 [t] (.str t)
  | paren {ts e} (lp rp : Token) : lp.kind = .leftParen → Derives 0 ts e → rp.kind = .rightParen →
      Derives 16 (lp :: ts ++ [rp]) e
  | list {as es} (lb : Token) : lb.kind = .leftBracket → DerivesArgs .rightBracket as es → Derives 16 (lb :: as) (.list es)
  | struct {fs fields} (id lc : Token) : id.kind = .identifier → lc.kind = .leftCurly → DerivesFields fs fields →
      Derives 16 (id :: lc :: fs) (.struct id.lexeme fields)
/-- `arguments? close` (the tokens include the closing token) -/
inductive DerivesArgs : TokKind → List Token → List Expr → Prop
  | empty {close} (c : Token) : c.kind = close → DerivesArgs close [c] []
  | cons {close es rest e more} : Derives 0 es e → DerivesArgsTail close rest more →
      DerivesArgs close (es ++ rest) (e :: more)
inductive DerivesArgsTail : TokKind → List Token → List Expr → Prop
  | close {close} (c : Token) : c.kind = close → DerivesArgsTail close [c] []
  | trailing {close} (comma c : Token) : comma.kind = .comma → c.kind = close → DerivesArgsTail close [comma, c] []
  | more {close es rest e more} (comma : Token) : comma.kind = .comma → Derives 0 es e →
      DerivesArgsTail close rest more → DerivesArgsTail close (comma :: es ++ rest) (e :: more)
/-- struct_expr after the opening brace (the tokens include the closing brace) -/
inductive DerivesFields : List Token → List (List Char × Expr) → Prop
  | empty (c : Token) : c.kind = .rightCurly → DerivesFields [c] []
  | cons {es rest e more} (id col : Token) : id.kind = .identifier → col.kind = .colon → Derives 0 es e →
      DerivesFieldsTail rest more → DerivesFields (id :: col :: es ++ rest) ((id.lexeme, e) :: more)
inductive DerivesFieldsTail : List Token → List (List Char × Expr) → Prop
  | close (c : Token) : c.kind = .rightCurly → DerivesFieldsTail [c] []
  | trailing (comma c : Token) : comma.kind = .comma → c.kind = .rightCurly → DerivesFieldsTail [comma, c] []
  | more {es rest e more} (comma id col : Token) : comma.kind = .comma → id.kind = .identifier → col.kind = .colon →
      Derives 0 es e → DerivesFieldsTail rest more →
      DerivesFieldsTail (comma :: id :: col :: es ++ rest) ((id.lexeme, e) :: more)
end

end NumbatModel.Syntax
