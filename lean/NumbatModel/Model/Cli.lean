/-
M-Cli: the non-interactive run loop of `numbat-cli/src/main.rs`:
`main` → `Cli::new` → `Cli::run` (`initialize_context`, the `code_and_source` loop over `parse_and_evaluate`
with its `ControlFlow`, no REPL because a file or `-e` was given) → exit status.

The library call `Context::interpret_with_settings` is the parameter `eval`: for a session, a text and a source
kind it returns the new session and what the CLI can see of the outcome (`Eval`): success or not, the collected
`print` lines (`to_be_printed`), the rendered result (`InterpreterResult::to_markup`, empty for `Continue`) and
the rendered diagnostic.  Standard output / error are lists of written chunks.

What is mirrored (execution mode `Normal`, pretty-printing off — the defaults for `--no-config`):
  * success: every collected print line is written to stdout followed by a newline (`println!`), then the
    result markup (`print!`, already ends in a newline for a value, empty for `Continue`); `ControlFlow::Continue`;
  * failure (resolver, name resolution, type check, run time): the diagnostic goes to stderr, the collected
    print lines are dropped (they are only written in the `Ok` branch), `ControlFlow::Break(ExitStatus::Error)`;
  * `Cli::run`: a `Break` makes `run` bail out with "Interpreter stopped" before the next input is touched;
  * `main`: an `Err` is written to stderr (`{e:#}` + newline) and the process exits with status 1, else status 0;
  * `initialize_context`: a prelude that fails gives "Interpreter error in Prelude code", exit 1, nothing else runs;
  * inputs: the file (if any) first, then all `-e` expressions joined with `\n` as ONE input (`CodeSource::Text`).
Not modelled: the REPL, `--inspect-interactively`, the user init file, configuration files, colours, the
currency fetch thread, `--generate-config`, I/O errors when reading the file.
Import-free (core only).
-/
namespace NumbatModel.Cli

/-- `resolver::CodeSource` as far as the CLI creates it -/
inductive Source where
  | internal   -- `use prelude`
  | file
  | text       -- the joined `-e` expressions
deriving Repr, DecidableEq

/-- what `parse_and_evaluate` sees of one `interpret_with_settings` call -/
structure Eval where
  ok : Bool
  /-- the lines collected in `to_be_printed` (each without the trailing newline) -/
  prints : List String
  /-- `ansi_format(result.to_markup(..))`: `"<value>\n"` or `""` for `Continue` -/
  result : String
  /-- what `print_diagnostic` writes to stderr -/
  diag : String
deriving Repr, DecidableEq

structure Streams where
  stdout : List String
  stderr : List String
deriving Repr, DecidableEq

def Streams.empty : Streams := ⟨[], []⟩

/-- `ExitStatus` of `ControlFlow::Break` (only `Error` is produced in `Normal` mode) -/
inductive Flow where
  | continue_
  | breakError
deriving Repr, DecidableEq

/-- `Cli::parse_and_evaluate` in `ExecutionMode::Normal` without pretty-printing -/
def parseAndEvaluate (e : Eval) (io : Streams) : Streams × Flow :=
  if e.ok then
    ({ io with stdout := io.stdout ++ e.prints.map (· ++ "\n") ++ [e.result] }, .continue_)
  else
    ({ io with stderr := io.stderr ++ [e.diag] }, .breakError)

section
variable {S κ : Type}

/-- the loop of `Cli::run` over `code_and_source`: `Err` = `bail!("Interpreter stopped")` -/
def runLoop (eval : S → κ → Source → S × Eval) : S → List (κ × Source) → Streams → S × Streams × Bool
  | s, [], io => (s, io, true)
  | s, (code, src) :: rest, io =>
    let (s1, e) := eval s code src
    match parseAndEvaluate e io with
    | (io1, .continue_) => runLoop eval s1 rest io1
    | (io1, .breakError) => (s1, io1, false)

/-- `code_and_source`: the file first, then the `-e` expressions joined by `\n` as one input -/
def inputsOf (joinNl : List κ → κ) (file : Option κ) (exprs : Option (List κ)) : List (κ × Source) :=
  (match file with
    | some c => [(c, Source.file)]
    | none => []) ++
  (match exprs with
    | some es => [(joinNl es, Source.text)]
    | none => [])

/-- the end of `Cli::run` / `main`: `Ok` → status 0; `bail!("Interpreter stopped")` → the message on stderr, status 1 -/
def finish : S × Streams × Bool → Streams × Nat
  | (_, io, true) => (io, 0)
  | (_, io, false) => ({ io with stderr := io.stderr ++ ["Interpreter stopped\n"] }, 1)

/-- `main` for `numbat [FILE] [-e CODE]...` with at least one of them: streams and exit status.
`prelude` is the text `use prelude` (or `none` for `--no-prelude`); `initialize_context` evaluates it with
`parse_and_evaluate` and bails out with its own message if that breaks. -/
def cliMain (eval : S → κ → Source → S × Eval) (s0 : S) (prelude : Option κ) (inputs : List (κ × Source)) :
    Streams × Nat :=
  match prelude with
  | none => finish (runLoop eval s0 inputs Streams.empty)
  | some p =>
    match parseAndEvaluate (eval s0 p .internal).2 Streams.empty with
    | (io, .continue_) => finish (runLoop eval (eval s0 p .internal).1 inputs io)
    | (io, .breakError) => ({ io with stderr := io.stderr ++ ["Interpreter error in Prelude code\n"] }, 1)

end

end NumbatModel.Cli
