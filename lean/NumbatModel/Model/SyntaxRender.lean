import NumbatModel.Model.SyntaxParser
/-
M-Syn (4): the documented precedence table as data, surface syntax trees, and the reference printer.

`Surf` is what a user can write: the AST constructors plus the purely syntactic variations that leave no
trace in the AST (redundant parentheses, unary plus, `per`, `^-`, `|>`), every operator occurrence with its
own lexeme (so all ASCII / Unicode spellings are covered).  `render` inserts parentheses only where the
table demands them; `toExpr` is the AST the documentation says the text denotes.
-/
namespace NumbatModel.Syntax

/-! ## levels (loosest = 0 … tightest = 16), in the order of the BNF of parser.rs -/

def levelNames : List String :=
  ["postfix_apply", "condition", "conversion", "logical_or", "logical_and", "logical_neg", "comparison",
   "term", "factor", "per_factor", "unary", "ifactor", "power", "factorial", "unicode_power", "call", "primary"]

/-- left-associative infix operators: token kind ↦ (level, AST operator).  Operands: left at the level itself,
right one level tighter. -/
def infixTable : List (TokKind × Nat × BinOp) := [
  (.arrow, 2, .convertTo), (.to, 2, .convertTo),
  (.logicalOr, 3, .logicalOr),
  (.logicalAnd, 4, .logicalAnd),
  (.lessThan, 6, .lessThan), (.greaterThan, 6, .greaterThan), (.lessOrEqual, 6, .lessOrEqual),
  (.greaterOrEqual, 6, .greaterOrEqual), (.equalEqual, 6, .equal), (.notEqual, 6, .notEqual),
  (.plus, 7, .add), (.minus, 7, .sub),
  (.multiply, 8, .mul), (.divide, 8, .div),
  (.per, 9, .div)]

def infixInfo (k : TokKind) : Option (Nat × BinOp) := infixTable.lookup k

/-- levels of the other constructs -/
def pipeLevel : Nat := 0        -- `x |> f`
def condLevel : Nat := 1        -- `if … then … else …`
def notLevel : Nat := 5         -- `!x`
def negLevel : Nat := 10        -- `-x`, `+x`
def imulLevel : Nat := 11       -- `x y`
def powLevel : Nat := 12        -- `x^y`, `x**y` (right-associative)
def factLevel : Nat := 13       -- `x!`
def upowLevel : Nat := 14       -- `x²`
def callLevel : Nat := 15       -- `f(x)`, `s.x`
def primaryLevel : Nat := 16

/-! ## surface trees -/

inductive Surf where
  | scalar (t : Token)
  | ident (name : List Char)
  | hole
  | boolean (b : Bool)
  | str (t : Token)
  | neg (lex : List Char) (e : Surf)
  | uplus (lex : List Char) (e : Surf)
  | lnot (e : Surf)
  | fact (order : Nat) (e : Surf)
  | bin (k : TokKind) (lex : List Char) (l r : Surf)      -- left-associative infix operator with token kind `k`
  | pow (lex : List Char) (l r : Surf)                     -- `l ^ r`
  | powNeg (lex lexMinus : List Char) (l r : Surf)         -- `l ^ - r`
  | imul (l r : Surf)
  | upow (base : Surf) (lex : List Char)
  | call (f : Surf) (args : List Surf)
  | field (e : Surf) (name : List Char)
  | list (es : List Surf)
  | struct (name : List Char) (fields : List (List Char × Surf))
  | cond (c t e : Surf)
  | paren (e : Surf)
  | pipe (x f : Surf)                                      -- `x |> f`, `x |> f(args)`
deriving Repr, Inhabited

def Surf.prec : Surf → Nat
  | .pipe .. => 0
  | .cond .. => 1
  | .bin k .. => match infixInfo k with | some (lv, _) => lv | none => 16
  | .lnot .. => 5
  | .neg .. | .uplus .. => 10
  | .imul .. => 11
  | .pow .. | .powNeg .. => 12
  | .fact .. => 13
  | .upow .. => 14
  | .call .. | .field .. => 15
  | _ => 16

def tk (k : TokKind) (lex : List Char) : Token := ⟨k, lex⟩

def tLeftParen : Token := ⟨.leftParen, ['(']⟩
def tRightParen : Token := ⟨.rightParen, [')']⟩
def tComma : Token := ⟨.comma, [',']⟩
def tBang : Token := ⟨.exclamationMark, ['!']⟩

/-- parenthesise iff the construct's level is looser than the position requires -/
def wrap (need p : Nat) (ts : List Token) : List Token :=
  if p < need then tLeftParen :: ts ++ [tRightParen] else ts

mutual
/-- reference printer: the tokens of `s` with the minimal parentheses the table demands -/
def render : Surf → List Token
  | .scalar t => [t]
  | .ident n => [⟨.identifier, n⟩]
  | .hole => [⟨.questionMark, ['?']⟩]
  | .boolean b => if b then [⟨.true_, ['t','r','u','e']⟩] else [⟨.false_, ['f','a','l','s','e']⟩]
  | .str t => [t]
  | .neg lex e => ⟨.minus, lex⟩ :: wrap 10 e.prec (render e)
  | .uplus lex e => ⟨.plus, lex⟩ :: wrap 10 e.prec (render e)
  | .lnot e => tBang :: wrap 5 e.prec (render e)
  | .fact n e => wrap 14 e.prec (render e) ++ List.replicate n tBang
  | .bin k lex l r =>
    match infixInfo k with
    | some (lv, _) => wrap lv l.prec (render l) ++ ⟨k, lex⟩ :: wrap (lv + 1) r.prec (render r)
    | none => []
  | .pow lex l r => wrap 13 l.prec (render l) ++ ⟨.power, lex⟩ :: wrap 12 r.prec (render r)
  | .powNeg lex lm l r =>
    wrap 13 l.prec (render l) ++ ⟨.power, lex⟩ :: ⟨.minus, lm⟩ :: wrap 12 r.prec (render r)
  | .imul l r => wrap 11 l.prec (render l) ++ wrap 12 r.prec (render r)
  | .upow b lex => wrap 15 b.prec (render b) ++ [⟨.unicodeExponent, lex⟩]
  | .call f args => wrap 15 f.prec (render f) ++ tLeftParen :: renderArgs args ++ [tRightParen]
  | .field e n => wrap 15 e.prec (render e) ++ [⟨.period, ['.']⟩, ⟨.identifier, n⟩]
  | .list es => ⟨.leftBracket, ['[']⟩ :: renderArgs es ++ [⟨.rightBracket, [']']⟩]
  | .struct n fs => ⟨.identifier, n⟩ :: ⟨.leftCurly, ['{']⟩ :: renderFields fs ++ [⟨.rightCurly, ['}']⟩]
  | .cond c t e =>
    ⟨.if_, ['i','f']⟩ :: wrap 2 c.prec (render c) ++ ⟨.then_, ['t','h','e','n']⟩ :: wrap 1 t.prec (render t)
      ++ ⟨.else_, ['e','l','s','e']⟩ :: wrap 1 e.prec (render e)
  | .paren e => tLeftParen :: render e ++ [tRightParen]
  | .pipe x f => render x ++ ⟨.postfixApply, ['|','>']⟩ :: wrap 15 f.prec (render f)
/-- comma-separated expressions -/
def renderArgs : List Surf → List Token
  | [] => []
  | [a] => render a
  | a :: b :: rest => render a ++ tComma :: renderArgs (b :: rest)
def renderFields : List (List Char × Surf) → List Token
  | [] => []
  | [(n, e)] => ⟨.identifier, n⟩ :: ⟨.colon, [':']⟩ :: render e
  | (n, e) :: f :: rest => ⟨.identifier, n⟩ :: ⟨.colon, [':']⟩ :: render e ++ tComma :: renderFields (f :: rest)
end

/-- tokens of `s` in a position that requires level `need` -/
def renderAt (need : Nat) (s : Surf) : List Token := wrap need s.prec (render s)

/-- the AST node `x |> f` builds from the parsed target -/
def pipeResult (x : Expr) : Expr → Expr
  | .ident n => .call (.ident n) [x]
  | .call f args => .call f (args ++ [x])
  | other => other

def isPipeTarget : Expr → Bool
  | .ident _ => true
  | .call .. => true
  | _ => false

mutual
/-- the AST the documentation assigns to a surface tree -/
def toExpr : Surf → Expr
  | .scalar t => .scalar t
  | .ident n => .ident n
  | .hole => .hole
  | .boolean b => .boolean b
  | .str t => .str t
  | .neg _ e => .neg (toExpr e)
  | .uplus _ e => toExpr e
  | .lnot e => .lnot (toExpr e)
  | .fact n e => .fact n (toExpr e)
  | .bin k _ l r => .bin (match infixInfo k with | some (_, op) => op | none => .add) (toExpr l) (toExpr r)
  | .pow _ l r => .bin .power (toExpr l) (toExpr r)
  | .powNeg _ _ l r => .bin .power (toExpr l) (.neg (toExpr r))
  | .imul l r => .imul (toExpr l) (toExpr r)
  | .upow b lex => .upow (toExpr b) ⟨.unicodeExponent, lex⟩
  | .call f args => .call (toExpr f) (toExprs args)
  | .field e n => .field (toExpr e) n
  | .list es => .list (toExprs es)
  | .struct n fs => .struct n (toFields fs)
  | .cond c t e => .cond (toExpr c) (toExpr t) (toExpr e)
  | .paren e => toExpr e
  | .pipe x f => pipeResult (toExpr x) (toExpr f)
def toExprs : List Surf → List Expr
  | [] => []
  | a :: rest => toExpr a :: toExprs rest
def toFields : List (List Char × Surf) → List (List Char × Expr)
  | [] => []
  | (n, e) :: rest => (n, toExpr e) :: toFields rest
end

def isNumericKind (k : TokKind) : Bool :=
  k == .number || k == .intBase16 || k == .intBase8 || k == .intBase2 || k == .nan || k == .inf

/-- may the token start the right operand of a juxtaposition (`next_token_could_start_power_expression`
without `(`, which after most left operands would be read as a call) -/
def juxtStart (k : TokKind) : Bool := k == .number || k == .identifier || k == .questionMark

mutual
/-- the surface trees that are expressions of the documented grammar (everything else in `Surf` is junk:
a non-number token as a scalar, an unknown infix kind, a factorial of order 0, a juxtaposition whose right
operand does not start like one, a `|>` whose target is not callable) -/
def Surf.wf : Surf → Bool
  | .scalar t => isNumericKind t.kind && !((t.kind == .intBase16 || t.kind == .intBase8 || t.kind == .intBase2) && basedOverflows t)
  | .ident _ => true
  | .hole => true
  | .boolean _ => true
  | .str t => t.kind == .stringFixed
  | .neg _ e => e.wf
  | .uplus _ e => e.wf
  | .lnot e => e.wf
  | .fact n e => n != 0 && e.wf
  | .bin k _ l r => (infixInfo k).isSome && l.wf && r.wf
  | .pow _ l r => l.wf && r.wf
  | .powNeg _ _ l r => l.wf && r.wf
  | .imul l r =>
    l.wf && r.wf && (match wrap 12 r.prec (render r) with | t :: _ => juxtStart t.kind | [] => false)
  | .upow b _ => b.wf
  | .call f args => f.wf && wfList args
  | .field e _ => e.wf
  | .list es => wfList es
  | .struct _ fs => wfFields fs
  | .cond c t e => c.wf && t.wf && e.wf
  | .paren e => e.wf
  | .pipe x f => x.wf && f.wf && isPipeTarget (toExpr f)
def wfList : List Surf → Bool
  | [] => true
  | a :: rest => a.wf && wfList rest
def wfFields : List (List Char × Surf) → Bool
  | [] => true
  | (_, e) :: rest => e.wf && wfFields rest
end

mutual
/-- fuel that certainly suffices to parse the rendering of `s` at any level -/
def Surf.need : Surf → Nat
  | .neg _ e | .uplus _ e | .lnot e | .fact _ e | .upow e _ | .field e _ | .paren e => e.need + 40
  | .bin _ _ l r | .pow _ l r | .powNeg _ _ l r | .imul l r | .pipe l r => l.need + r.need + 40
  | .call f args => f.need + needList args + 40
  | .list es => needList es + 40
  | .struct _ fs => needFields fs + 40
  | .cond c t e => c.need + t.need + e.need + 40
  | _ => 40
def needList : List Surf → Nat
  | [] => 0
  | a :: rest => a.need + 2 + needList rest
def needFields : List (List Char × Surf) → Nat
  | [] => 0
  | (_, e) :: rest => e.need + 2 + needFields rest
end

mutual
/-- embedding of ASTs into surface trees (no decoration): `toExpr (ofExpr e) = e` -/
def ofExpr : Expr → Surf
  | .scalar t => .scalar t
  | .ident n => .ident n
  | .hole => .hole
  | .neg e => .neg ['-'] (ofExpr e)
  | .lnot e => .lnot (ofExpr e)
  | .fact n e => .fact n (ofExpr e)
  | .bin op l r =>
    match op with
    | .power => .pow ['^'] (ofExpr l) (ofExpr r)
    | .add => .bin .plus ['+'] (ofExpr l) (ofExpr r)
    | .sub => .bin .minus ['-'] (ofExpr l) (ofExpr r)
    | .mul => .bin .multiply ['*'] (ofExpr l) (ofExpr r)
    | .div => .bin .divide ['/'] (ofExpr l) (ofExpr r)
    | .convertTo => .bin .arrow ['-', '>'] (ofExpr l) (ofExpr r)
    | .lessThan => .bin .lessThan ['<'] (ofExpr l) (ofExpr r)
    | .greaterThan => .bin .greaterThan ['>'] (ofExpr l) (ofExpr r)
    | .lessOrEqual => .bin .lessOrEqual ['<', '='] (ofExpr l) (ofExpr r)
    | .greaterOrEqual => .bin .greaterOrEqual ['>', '='] (ofExpr l) (ofExpr r)
    | .equal => .bin .equalEqual ['=', '='] (ofExpr l) (ofExpr r)
    | .notEqual => .bin .notEqual ['!', '='] (ofExpr l) (ofExpr r)
    | .logicalAnd => .bin .logicalAnd ['&', '&'] (ofExpr l) (ofExpr r)
    | .logicalOr => .bin .logicalOr ['|', '|'] (ofExpr l) (ofExpr r)
  | .imul l r => .imul (ofExpr l) (ofExpr r)
  | .upow b t => .upow (ofExpr b) t.lexeme
  | .call f args => .call (ofExpr f) (ofExprs args)
  | .boolean b => .boolean b
  | .str t => .str t
  | .cond c t e => .cond (ofExpr c) (ofExpr t) (ofExpr e)
  | .struct n fs => .struct n (ofFields fs)
  | .field e n => .field (ofExpr e) n
  | .list es => .list (ofExprs es)
def ofExprs : List Expr → List Surf
  | [] => []
  | a :: rest => ofExpr a :: ofExprs rest
def ofFields : List (List Char × Expr) → List (List Char × Surf)
  | [] => []
  | (n, e) :: rest => (n, ofExpr e) :: ofFields rest
end


mutual
/-- every unicode-exponent node carries a unicode-exponent token (what the parser builds) -/
def Expr.canon : Expr → Bool
  | .neg e | .lnot e | .fact _ e | .field e _ => e.canon
  | .bin _ l r | .imul l r => l.canon && r.canon
  | .upow b t => b.canon && t.kind == .unicodeExponent
  | .call f args => f.canon && canonList args
  | .cond c t e => c.canon && t.canon && e.canon
  | .struct _ fs => canonFields fs
  | .list es => canonList es
  | _ => true
def canonList : List Expr → Bool
  | [] => true
  | a :: rest => a.canon && canonList rest
def canonFields : List (List Char × Expr) → Bool
  | [] => true
  | (_, e) :: rest => e.canon && canonFields rest
end

/-- the ASTs the grammar can produce (as the undecorated surface tree `ofExpr e`) -/
def Expr.wf (e : Expr) : Bool := e.canon && (ofExpr e).wf

mutual
/-- remove every explicit parenthesis node (the printer re-inserts the necessary ones) -/
def noParens : Surf → Surf
  | .paren e => noParens e
  | .neg lex e => .neg lex (noParens e)
  | .uplus lex e => .uplus lex (noParens e)
  | .lnot e => .lnot (noParens e)
  | .fact n e => .fact n (noParens e)
  | .bin k lex l r => .bin k lex (noParens l) (noParens r)
  | .pow lex l r => .pow lex (noParens l) (noParens r)
  | .powNeg lex lm l r => .powNeg lex lm (noParens l) (noParens r)
  | .imul l r => .imul (noParens l) (noParens r)
  | .upow b lex => .upow (noParens b) lex
  | .call f args => .call (noParens f) (noParensList args)
  | .field e n => .field (noParens e) n
  | .list es => .list (noParensList es)
  | .struct n fs => .struct n (noParensFields fs)
  | .cond c t e => .cond (noParens c) (noParens t) (noParens e)
  | .pipe x f => .pipe (noParens x) (noParens f)
  | s => s
def noParensList : List Surf → List Surf
  | [] => []
  | a :: rest => noParens a :: noParensList rest
def noParensFields : List (List Char × Surf) → List (List Char × Surf)
  | [] => []
  | (n, e) :: rest => (n, noParens e) :: noParensFields rest
end

def tEof : Token := ⟨.eof, []⟩

end NumbatModel.Syntax
