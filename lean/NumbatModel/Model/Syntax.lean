/-
M-Syn (1): tokens and the tokenizer — model of `numbat/src/tokenizer.rs`
(`Tokenizer::scan`, `scan_single_token`, `consume_stream_of_digits`, `scientific_notation`,
`consume_string`, the scope stack of string interpolations, the identifier character classes).

The input is a `List Char`.  `unicode-ident`'s `XID_Start` / `XID_Continue` are a parameter
(`XidTable`: the non-ASCII code points of the input that are in the class; ASCII is computed).
Everything else is modelled as the Rust code is, quirks included (e.g. the lexeme of the `Newline`
token that ends a comment line contains the comment).  Import-free.
-/
namespace NumbatModel.Syntax

inductive TokKind where
  | leftParen | rightParen | leftBracket | rightBracket | leftCurly | rightCurly
  | plus | minus | multiply | power | divide | comma | arrow | equal | colon | doubleColon
  | postfixApply | unicodeExponent | at | ellipsis | exclamationMark | equalEqual | notEqual
  | lessThan | greaterThan | lessOrEqual | greaterOrEqual | logicalAnd | logicalOr | period | questionMark
  | per | to | let_ | fn_ | where_ | and_ | dimension | unit | use | struct_
  | long | short | both | none_
  | if_ | then_ | else_ | true_ | false_
  | nan | inf
  | bool | string | dateTime | capitalFn | list
  | procedurePrint | procedureAssert | procedureAssertEq | procedureType
  | number | intBase16 | intBase8 | intBase2 | identifier
  | stringFixed | stringInterpolationStart | stringInterpolationMiddle | stringInterpolationSpecifiers
  | stringInterpolationEnd
  | newline | semicolon | eof
deriving Repr, DecidableEq, Inhabited

/-- the `Debug` name of the Rust `TokenKind` (as printed by the hook) -/
def TokKind.name : TokKind → String
  | .leftParen => "LeftParen" | .rightParen => "RightParen" | .leftBracket => "LeftBracket"
  | .rightBracket => "RightBracket" | .leftCurly => "LeftCurly" | .rightCurly => "RightCurly"
  | .plus => "Plus" | .minus => "Minus" | .multiply => "Multiply" | .power => "Power" | .divide => "Divide"
  | .comma => "Comma" | .arrow => "Arrow" | .equal => "Equal" | .colon => "Colon" | .doubleColon => "DoubleColon"
  | .postfixApply => "PostfixApply" | .unicodeExponent => "UnicodeExponent" | .at => "At"
  | .ellipsis => "Ellipsis" | .exclamationMark => "ExclamationMark" | .equalEqual => "EqualEqual"
  | .notEqual => "NotEqual" | .lessThan => "LessThan" | .greaterThan => "GreaterThan"
  | .lessOrEqual => "LessOrEqual" | .greaterOrEqual => "GreaterOrEqual" | .logicalAnd => "LogicalAnd"
  | .logicalOr => "LogicalOr" | .period => "Period" | .questionMark => "QuestionMark"
  | .per => "Per" | .to => "To" | .let_ => "Let" | .fn_ => "Fn" | .where_ => "Where" | .and_ => "And"
  | .dimension => "Dimension" | .unit => "Unit" | .use => "Use" | .struct_ => "Struct"
  | .long => "Long" | .short => "Short" | .both => "Both" | .none_ => "None"
  | .if_ => "If" | .then_ => "Then" | .else_ => "Else" | .true_ => "True" | .false_ => "False"
  | .nan => "NaN" | .inf => "Inf"
  | .bool => "Bool" | .string => "String" | .dateTime => "DateTime" | .capitalFn => "CapitalFn" | .list => "List"
  | .procedurePrint => "ProcedurePrint" | .procedureAssert => "ProcedureAssert"
  | .procedureAssertEq => "ProcedureAssertEq" | .procedureType => "ProcedureType"
  | .number => "Number" | .intBase16 => "IntegerWithBase16" | .intBase8 => "IntegerWithBase8"
  | .intBase2 => "IntegerWithBase2" | .identifier => "Identifier"
  | .stringFixed => "StringFixed" | .stringInterpolationStart => "StringInterpolationStart"
  | .stringInterpolationMiddle => "StringInterpolationMiddle"
  | .stringInterpolationSpecifiers => "StringInterpolationSpecifiers"
  | .stringInterpolationEnd => "StringInterpolationEnd"
  | .newline => "Newline" | .semicolon => "Semicolon" | .eof => "Eof"

structure Token where
  kind : TokKind
  lexeme : List Char
deriving Repr, DecidableEq, Inhabited

inductive TokErr where
  | unexpectedCharacter
  | unexpectedCharacterInNegativeExponent
  | unexpectedCharacterInNumberLiteral
  | unexpectedCharacterInIdentifier
  | expectedDigit
  | expectedDigitInBase
  | unterminatedString
  | unterminatedStringInterpolation
  | unexpectedCurlyInInterpolation
  | unexpectedScopeClosing
  | outOfFuel          -- never returned for fuel = input length + 1
deriving Repr, DecidableEq, Inhabited

def TokErr.name : TokErr → String
  | .unexpectedCharacter => "UnexpectedCharacter"
  | .unexpectedCharacterInNegativeExponent => "UnexpectedCharacterInNegativeExponent"
  | .unexpectedCharacterInNumberLiteral => "UnexpectedCharacterInNumberLiteral"
  | .unexpectedCharacterInIdentifier => "UnexpectedCharacterInIdentifier"
  | .expectedDigit => "ExpectedDigit"
  | .expectedDigitInBase => "ExpectedDigitInBase"
  | .unterminatedString => "UnterminatedString"
  | .unterminatedStringInterpolation => "UnterminatedStringInterpolation"
  | .unexpectedCurlyInInterpolation => "UnexpectedCurlyInInterpolation"
  | .unexpectedScopeClosing => "UnexpectedScopeClosing"
  | .outOfFuel => "OutOfFuel"

/-! ## character classes -/

/-- non-ASCII members of `XID_Start` / `XID_Continue` (by code point); supplied per input by the harness
from the `unicode-ident` crate, which is a parameter of the model -/
structure XidTable where
  start : List Nat
  cont : List Nat
deriving Repr, Inhabited

def isAsciiDigit (c : Char) : Bool := 48 ≤ c.toNat && c.toNat ≤ 57
def isAsciiAlpha (c : Char) : Bool := (65 ≤ c.toNat && c.toNat ≤ 90) || (97 ≤ c.toNat && c.toNat ≤ 122)
def isAsciiHexDigit (c : Char) : Bool :=
  isAsciiDigit c || (65 ≤ c.toNat && c.toNat ≤ 70) || (97 ≤ c.toNat && c.toNat ≤ 102)
def isAsciiOctDigit (c : Char) : Bool := 48 ≤ c.toNat && c.toNat ≤ 55
def isAsciiBinDigit (c : Char) : Bool := c.toNat == 48 || c.toNat == 49

def xidStart (xt : XidTable) (c : Char) : Bool :=
  if c.toNat < 128 then isAsciiAlpha c else xt.start.contains c.toNat

def xidContinue (xt : XidTable) (c : Char) : Bool :=
  if c.toNat < 128 then isAsciiAlpha c || isAsciiDigit c || c.toNat == 95 else xt.cont.contains c.toNat

/-- `¹ ² ³ ⁴ … ⁹` -/
def isExponentChar (c : Char) : Bool :=
  c.toNat == 0xB9 || c.toNat == 0xB2 || c.toNat == 0xB3 || (0x2074 ≤ c.toNat && c.toNat ≤ 0x2079)

/-- `¼ ½ ¾ ⅐ ⅑ ⅒ ⅓ ⅔ ⅕ ⅖ ⅗ ⅘ ⅙ ⅚ ⅛ ⅜ ⅝ ⅞` -/
def isNumericalFractionChar (c : Char) : Bool :=
  c.toNat == 0xBC || c.toNat == 0xBD || c.toNat == 0xBE || (0x2150 ≤ c.toNat && c.toNat ≤ 0x215E)

/-- currency block `U+20A0..=U+20CF`, `£ ¥ $ ฿` -/
def isCurrencyChar (c : Char) : Bool :=
  (0x20A0 ≤ c.toNat && c.toNat ≤ 0x20CF) || c.toNat == 0xA3 || c.toNat == 0xA5 || c.toNat == 0x24
    || c.toNat == 0x0E3F

/-- `%`, `‰` -/
def isOtherAllowedIdentifierChar (c : Char) : Bool := c.toNat == 0x25 || c.toNat == 0x2030

/-- subscript block `U+2080..=U+209C` -/
def isSubscriptChar (c : Char) : Bool := 0x2080 ≤ c.toNat && c.toNat ≤ 0x209C

def isIdentifierStart (xt : XidTable) (c : Char) : Bool :=
  xidStart xt c || isNumericalFractionChar c || isCurrencyChar c || isOtherAllowedIdentifierChar c
    || c.toNat == 0xB0 || c.toNat == 0x2032 || c.toNat == 0x2033 || c.toNat == 0x5F

def isIdentifierContinue (xt : XidTable) (c : Char) : Bool :=
  (xidContinue xt c || isSubscriptChar c || isCurrencyChar c || isOtherAllowedIdentifierChar c)
    && !isExponentChar c && c.toNat != 0xB7 && c.toNat != 0x22C5

/-! ## keywords -/

def keywords : List (List Char × TokKind) := [
  (['p','e','r'], .per), (['t','o'], .to), (['l','e','t'], .let_), (['f','n'], .fn_),
  (['w','h','e','r','e'], .where_), (['a','n','d'], .and_),
  (['d','i','m','e','n','s','i','o','n'], .dimension), (['u','n','i','t'], .unit), (['u','s','e'], .use),
  (['s','t','r','u','c','t'], .struct_), (['l','o','n','g'], .long), (['s','h','o','r','t'], .short),
  (['b','o','t','h'], .both), (['n','o','n','e'], .none_), (['i','f'], .if_), (['t','h','e','n'], .then_),
  (['e','l','s','e'], .else_), (['t','r','u','e'], .true_), (['f','a','l','s','e'], .false_),
  (['N','a','N'], .nan), (['i','n','f'], .inf),
  (['p','r','i','n','t'], .procedurePrint), (['a','s','s','e','r','t'], .procedureAssert),
  (['a','s','s','e','r','t','_','e','q'], .procedureAssertEq), (['t','y','p','e'], .procedureType),
  (['B','o','o','l'], .bool), (['S','t','r','i','n','g'], .string),
  (['D','a','t','e','T','i','m','e'], .dateTime), (['F','n'], .capitalFn), (['L','i','s','t'], .list)]

def lookupKeyword (lex : List Char) : Option TokKind :=
  (keywords.find? (fun p => p.1 == lex)).map (·.2)

/-! ## scanning helpers -/

def peek1 (cs : List Char) : Option Char := cs.head?
def peek2 (cs : List Char) : Option Char := cs.tail.head?

def optIs (o : Option Char) (p : Char → Bool) : Bool := match o with | some c => p c | none => false

/-- longest prefix satisfying `p`, and the rest -/
def spanChars (p : Char → Bool) : List Char → List Char × List Char
  | [] => ([], [])
  | c :: cs => if p c then let r := spanChars p cs; (c :: r.1, r.2) else ([], c :: cs)

/-- `consume_stream_of_digits`: returns the consumed characters and the rest -/
def consumeStreamOfDigits (cs : List Char) (atLeastOneDigit disallowLeadingUnderscore disallowDotAfterStream : Bool) :
    Except TokErr (List Char × List Char) :=
  if atLeastOneDigit && !optIs (peek1 cs) isAsciiDigit then .error .expectedDigit
  else if disallowLeadingUnderscore && optIs (peek1 cs) (· == '_') then .error .unexpectedCharacterInNumberLiteral
  else
    let r := spanChars (fun c => isAsciiDigit c || c == '_') cs
    if r.1.getLast? == some '_' then .error .unexpectedCharacterInNumberLiteral
    else if disallowDotAfterStream && optIs (peek1 r.2) (· == '.') then .error .unexpectedCharacterInNumberLiteral
    else .ok r

/-- `scientific_notation` -/
def scientificNotation (cs : List Char) : Except TokErr (List Char × List Char) :=
  match cs with
  | e :: rest =>
    if optIs (peek2 cs) (fun c => isAsciiDigit c || c == '+' || c == '-') && (e == 'e' || e == 'E') then
      let (sign, rest') := match rest with
        | s :: r => if s == '+' || s == '-' then ([s], r) else ([], rest)
        | [] => ([], rest)
      match consumeStreamOfDigits rest' true true true with
      | .ok (ds, r) => .ok (e :: sign ++ ds, r)
      | .error x => .error x
    else .ok ([], cs)
  | [] => .ok ([], cs)

/-- `consume_string`: the characters up to (not including) the closing `"`, an interpolation `{`/`}`, or the end -/
def consumeString : Bool → List Char → List Char × List Char
  | _, [] => ([], [])
  | escaped, c :: cs =>
    if c == '\\' && !escaped then
      let r := consumeString true cs; (c :: r.1, r.2)
    else if c == '"' && !escaped then ([], c :: cs)
    else if (c == '{' || c == '}') && peek1 cs != some c then ([], c :: cs)
    else if c == '{' || c == '}' then
      -- doubled curly: skip both
      match cs with
      | c2 :: cs2 => let r := consumeString false cs2; (c :: c2 :: r.1, r.2)
      | [] => ([c], [])
    else
      let r := consumeString false cs; (c :: r.1, r.2)

inductive ScopeType where
  | curly | string
deriving Repr, DecidableEq, Inhabited

/-- `is_inside_interpolation`: directly inside a curly scope whose parent is a string scope (head = innermost) -/
def isInsideInterpolation : List ScopeType → Bool
  | .curly :: .string :: _ => true
  | _ => false

/-- `close_scope` -/
def closeScope (scopes : List ScopeType) (t : ScopeType) : Except TokErr (List ScopeType) :=
  match scopes with
  | s :: rest => if s == t then .ok rest else .error .unexpectedScopeClosing
  | [] => .error .unexpectedScopeClosing

structure Scanned where
  /-- `none`: white space or a comment at the end of the input -/
  tok : Option Token
  rest : List Char
  scopes : List ScopeType

abbrev ScanRes := Except TokErr Scanned

def emit (k : TokKind) (lex : List Char) (rest : List Char) (scopes : List ScopeType) : ScanRes :=
  .ok ⟨some ⟨k, lex⟩, rest, scopes⟩

/-- `0x…`, `0o…`, `0b…` after the prefix has been consumed -/
def scanBased (k : TokKind) (isDigit : Char → Bool) (xt : XidTable) (pre : List Char) (cs : List Char)
    (scopes : List ScopeType) : ScanRes :=
  if !optIs (peek1 cs) isDigit then .error .expectedDigitInBase
  else
    let r := spanChars (fun c => isDigit c || c == '_') cs
    if r.1.getLast? == some '_' || optIs (peek1 r.2) (fun c => isIdentifierContinue xt c || c == '.') then
      .error .expectedDigitInBase
    else emit k (pre ++ r.1) r.2 scopes

/-- the string-like tokens: `pre` is what has been consumed so far (`"` or `}`), `cs` what follows -/
def scanStringTail (pre : List Char) (cs : List Char) (scopes : List ScopeType)
    (kEnd kOpen : TokKind) (errKind : TokErr) : ScanRes :=
  let r := consumeString false cs
  match r.2 with
  | c :: rest =>
    if c == '"' then
      match closeScope scopes .string with
      | .ok sc => emit kEnd (pre ++ r.1 ++ [c]) rest sc
      | .error e => .error e
    else if c == '{' then emit kOpen (pre ++ r.1 ++ [c]) rest (.curly :: scopes)
    else .error errKind
  | [] => .error errKind

/-- `scan_single_token` (after the comment skip): `c` is the character returned by `advance` -/
def scanChar (xt : XidTable) (scopes : List ScopeType) (last : Option TokKind) (pre : List Char) (c : Char)
    (cs : List Char) : ScanRes :=
  let one (k : TokKind) : ScanRes := emit k (pre ++ [c]) cs scopes
  let two (k : TokKind) : ScanRes := emit k (pre ++ [c] ++ cs.take 1) (cs.drop 1) scopes
  let inside := isInsideInterpolation scopes
  if c == '(' then one .leftParen
  else if c == ')' then one .rightParen
  else if c == '[' then one .leftBracket
  else if c == ']' then one .rightBracket
  else if c == '{' && !inside then emit .leftCurly (pre ++ [c]) cs (.curly :: scopes)
  else if c == '}' && !inside then
    match closeScope scopes .curly with
    | .ok sc => emit .rightCurly (pre ++ [c]) cs sc
    | .error e => .error e
  else if c == '≤' then one .lessOrEqual
  else if c == '<' && peek1 cs == some '=' then two .lessOrEqual
  else if c == '<' then one .lessThan
  else if c == '≥' then one .greaterOrEqual
  else if c == '>' && peek1 cs == some '=' then two .greaterOrEqual
  else if c == '>' then one .greaterThan
  else if c == '?' then one .questionMark
  else if c == '0' && optIs (peek1 cs) (fun d => d == 'x' || d == 'o' || d == 'b') then
    match cs with
    | d :: rest =>
      if d == 'x' then scanBased .intBase16 isAsciiHexDigit xt (pre ++ [c, d]) rest scopes
      else if d == 'o' then scanBased .intBase8 isAsciiOctDigit xt (pre ++ [c, d]) rest scopes
      else scanBased .intBase2 isAsciiBinDigit xt (pre ++ [c, d]) rest scopes
    | [] => .error .expectedDigitInBase
  else if isAsciiDigit c then
    match consumeStreamOfDigits cs false false false with
    | .error e => .error e
    | .ok (d1, r1) =>
      let frac : Except TokErr (List Char × List Char) :=
        match r1 with
        | p :: r1' =>
          if p == '.' then
            match consumeStreamOfDigits r1' false true true with
            | .ok (d2, r2) => .ok (p :: d2, r2)
            | .error e => .error e
          else .ok ([], r1)
        | [] => .ok ([], r1)
      match frac with
      | .error e => .error e
      | .ok (d2, r2) =>
        match scientificNotation r2 with
        | .error e => .error e
        | .ok (d3, r3) => emit .number (pre ++ [c] ++ d1 ++ d2 ++ d3) r3 scopes
  else if c == '.' && peek1 cs == some '.' && peek2 cs == some '.' then
    emit .ellipsis (pre ++ [c] ++ cs.take 2) (cs.drop 2) scopes
  else if c == '.' && optIs (peek1 cs) (isIdentifierStart xt) then one .period
  else if c == '.' then
    match consumeStreamOfDigits cs true true true with
    | .error e => .error e
    | .ok (d1, r1) =>
      match scientificNotation r1 with
      | .error e => .error e
      | .ok (d2, r2) => emit .number (pre ++ [c] ++ d1 ++ d2) r2 scopes
  else if c == ' ' || c == '\t' || c == '\r' then .ok ⟨none, cs, scopes⟩
  else if c == '\n' then one .newline
  else if c == ';' then one .semicolon
  else if c == '&' && peek1 cs == some '&' then two .logicalAnd
  else if c == '|' && peek1 cs == some '|' then two .logicalOr
  else if c == '|' && peek1 cs == some '>' then two .postfixApply
  else if c == '*' && peek1 cs == some '*' then two .power
  else if c == '+' then one .plus
  else if c == '*' || c == '·' || c == '⋅' || c == '×' then one .multiply
  else if c == '/' then one .divide
  else if c == '÷' then one .divide
  else if c == '^' then one .power
  else if c == ',' then one .comma
  else if c == '⩵' then one .equalEqual
  else if c == '=' && peek1 cs == some '=' then two .equalEqual
  else if c == '=' then one .equal
  else if c == '@' then one .at
  else if c == '→' || c == '➞' then one .arrow
  else if c == '-' && peek1 cs == some '>' then two .arrow
  else if c == '-' || c == '−' then one .minus
  else if c == '≠' then one .notEqual
  else if c == '!' && peek1 cs == some '=' then two .notEqual
  else if c == '!' then one .exclamationMark
  else if c == '⁻' then
    if optIs (peek1 cs) isExponentChar then two .unicodeExponent
    else .error .unexpectedCharacterInNegativeExponent
  else if isExponentChar c then one .unicodeExponent
  else if c == '"' && inside
      && (last == some .stringFixed || last == some .stringInterpolationEnd || last == some .identifier) then
    .error .unterminatedStringInterpolation
  else if c == '"' then
    -- (the Rust code's `else if self.is_inside_interpolation()` branch is dead: the string scope was just pushed)
    scanStringTail (pre ++ [c]) cs (.string :: scopes) .stringFixed .stringInterpolationStart
      (if isInsideInterpolation (.string :: scopes) then .unterminatedStringInterpolation else .unterminatedString)
  else if c == ':' && inside then
    let r := spanChars (fun d => d != '"' && d != '}') cs
    if peek1 r.2 == some '"' then .error .unterminatedStringInterpolation
    else if peek1 r.2 == some '}' then emit .stringInterpolationSpecifiers (pre ++ [c] ++ r.1) r.2 scopes
    else .error .unterminatedString
  else if c == '}' && inside then
    match closeScope scopes .curly with
    | .error e => .error e
    | .ok sc => scanStringTail (pre ++ [c]) cs sc .stringInterpolationEnd .stringInterpolationMiddle .unterminatedString
  else if c == '{' && inside then .error .unexpectedCurlyInInterpolation
  else if c == '…' then one .ellipsis
  else if isIdentifierStart xt c then
    let r := spanChars (isIdentifierContinue xt) cs
    if peek1 r.2 == some '.' && !optIs (peek2 r.2) (isIdentifierStart xt) then
      .error .unexpectedCharacterInIdentifier
    else
      let lex := pre ++ [c] ++ r.1
      match lookupKeyword lex with
      | some k => emit k lex r.2 scopes
      | none => emit .identifier lex r.2 scopes
  else if c == ':' && peek1 cs == some ':' then two .doubleColon
  else if c == ':' then one .colon
  else .error .unexpectedCharacter

/-- `scan_single_token` on a non-empty rest of the input -/
def scanSingleToken (xt : XidTable) (scopes : List ScopeType) (last : Option TokKind) (cs : List Char) : ScanRes :=
  match cs with
  | [] => .ok ⟨none, [], scopes⟩
  | c0 :: _ =>
    if c0 == '#' then
      -- skip over the comment until the newline; the comment stays in the lexeme of the `Newline` token
      let r := spanChars (· != '\n') cs
      match r.2 with
      | [] => .ok ⟨none, [], scopes⟩
      | c :: rest => scanChar xt scopes last r.1 c rest
    else
      match cs with
      | c :: rest => scanChar xt scopes last [] c rest
      | [] => .ok ⟨none, [], scopes⟩

/-- `Tokenizer::scan`: every step consumes at least one character, so `fuel = input length + 1` suffices -/
def scanAll (xt : XidTable) : Nat → List Char → List ScopeType → Option TokKind → Except TokErr (List Token)
  | 0, _, _, _ => .error .outOfFuel
  | fuel + 1, cs, scopes, last =>
    match cs with
    | [] => .ok [⟨.eof, []⟩]
    | _ :: _ =>
      match scanSingleToken xt scopes last cs with
      | .error e => .error e
      | .ok s =>
        match s.tok with
        | some t =>
          match scanAll xt fuel s.rest s.scopes (some t.kind) with
          | .ok ts => .ok (t :: ts)
          | .error e => .error e
        | none => scanAll xt fuel s.rest s.scopes last

/-- `tokenize` -/
def tokenize (xt : XidTable) (cs : List Char) : Except TokErr (List Token) :=
  scanAll xt (cs.length + 1) cs [] none

end NumbatModel.Syntax
