import NumbatModel.Model.SyntaxRender
/-
M-Syn (6): writing tokens back as text.  `unlexBlank` separates all lexemes by one blank (the conservative
printer); `fixedTokens` lists every spelling of every operator, bracket and keyword token of the expression
grammar (ASCII and Unicode); `operatorChars` are the characters operators are made of.
-/
namespace NumbatModel.Syntax

/-- every spelling of the tokens with a fixed lexeme that can occur in an expression -/
def fixedTokens : List Token := [
  ⟨.leftParen, ['(']⟩,
  ⟨.rightParen, [')']⟩,
  ⟨.leftBracket, ['[']⟩,
  ⟨.rightBracket, [']']⟩,
  ⟨.plus, ['+']⟩,
  ⟨.minus, ['-']⟩,
  ⟨.minus, ['−']⟩,
  ⟨.multiply, ['*']⟩,
  ⟨.multiply, ['·']⟩,
  ⟨.multiply, ['⋅']⟩,
  ⟨.multiply, ['×']⟩,
  ⟨.power, ['^']⟩,
  ⟨.power, ['*', '*']⟩,
  ⟨.divide, ['/']⟩,
  ⟨.divide, ['÷']⟩,
  ⟨.comma, [',']⟩,
  ⟨.arrow, ['-', '>']⟩,
  ⟨.arrow, ['→']⟩,
  ⟨.arrow, ['➞']⟩,
  ⟨.postfixApply, ['|', '>']⟩,
  ⟨.exclamationMark, ['!']⟩,
  ⟨.equalEqual, ['=', '=']⟩,
  ⟨.equalEqual, ['⩵']⟩,
  ⟨.notEqual, ['!', '=']⟩,
  ⟨.notEqual, ['≠']⟩,
  ⟨.lessThan, ['<']⟩,
  ⟨.greaterThan, ['>']⟩,
  ⟨.lessOrEqual, ['<', '=']⟩,
  ⟨.lessOrEqual, ['≤']⟩,
  ⟨.greaterOrEqual, ['>', '=']⟩,
  ⟨.greaterOrEqual, ['≥']⟩,
  ⟨.logicalAnd, ['&', '&']⟩,
  ⟨.logicalOr, ['|', '|']⟩,
  ⟨.questionMark, ['?']⟩,
  ⟨.colon, [':']⟩,
  ⟨.per, ['p', 'e', 'r']⟩,
  ⟨.to, ['t', 'o']⟩,
  ⟨.if_, ['i', 'f']⟩,
  ⟨.then_, ['t', 'h', 'e', 'n']⟩,
  ⟨.else_, ['e', 'l', 's', 'e']⟩,
  ⟨.true_, ['t', 'r', 'u', 'e']⟩,
  ⟨.false_, ['f', 'a', 'l', 's', 'e']⟩,
  ⟨.nan, ['N', 'a', 'N']⟩,
  ⟨.inf, ['i', 'n', 'f']⟩,
  ⟨.unicodeExponent, ['¹']⟩,
  ⟨.unicodeExponent, ['⁻', '¹']⟩,
  ⟨.unicodeExponent, ['²']⟩,
  ⟨.unicodeExponent, ['⁻', '²']⟩,
  ⟨.unicodeExponent, ['³']⟩,
  ⟨.unicodeExponent, ['⁻', '³']⟩,
  ⟨.unicodeExponent, ['⁴']⟩,
  ⟨.unicodeExponent, ['⁻', '⁴']⟩,
  ⟨.unicodeExponent, ['⁵']⟩,
  ⟨.unicodeExponent, ['⁻', '⁵']⟩,
  ⟨.unicodeExponent, ['⁶']⟩,
  ⟨.unicodeExponent, ['⁻', '⁶']⟩,
  ⟨.unicodeExponent, ['⁷']⟩,
  ⟨.unicodeExponent, ['⁻', '⁷']⟩,
  ⟨.unicodeExponent, ['⁸']⟩,
  ⟨.unicodeExponent, ['⁻', '⁸']⟩,
  ⟨.unicodeExponent, ['⁹']⟩,
  ⟨.unicodeExponent, ['⁻', '⁹']⟩]

/-- ASCII identifiers that are not keywords -/
def isSimpleIdent (lex : List Char) : Bool :=
  match lex with
  | [] => false
  | c :: cs => (isAsciiAlpha c || c == '_') && cs.all (fun d => isAsciiAlpha d || isAsciiDigit d || d == '_')
      && (lookupKeyword lex).isNone

/-- decimal integer literals -/
def isSimpleNumber (lex : List Char) : Bool := !lex.isEmpty && lex.all isAsciiDigit

/-- the tokens covered by `tokenize_unlex_partial` -/
def simpleTok (t : Token) : Bool :=
  fixedTokens.contains t || (t.kind == .identifier && isSimpleIdent t.lexeme) ||
    (t.kind == .number && isSimpleNumber t.lexeme)

/-- the lexemes separated by single blanks -/
def unlexBlank : List Token → List Char
  | [] => []
  | [t] => t.lexeme
  | t :: u :: rest => t.lexeme ++ ' ' :: unlexBlank (u :: rest)

/-- the characters the operator tokens of the expression grammar are made of -/
def operatorChars : List Char :=
  ['+', '-', '−', '*', '·', '⋅', '×', '/', '÷', '^', '→', '➞', '>', '<', '=', '≤', '≥', '≠', '⩵', '!', '&', '|',
   '(', ')', '[', ']', ',', '?', '.', '⁻', '¹', '²', '³', '⁴', '⁵', '⁶', '⁷', '⁸', '⁹']

end NumbatModel.Syntax
