/-
M-Sess (resolver part): an abstract module system and `Resolver::inlining_pass` of `numbat/src/resolver.rs`.

A module source is a list of items in textual order: `use m`, or any other statement (`defn`), of which only
the names it introduces and the free names it uses matter here.  Modules and names are numbers (the
generator `tools/gen_modules.py` interns the strings; strings do not reduce in the kernel).  The importer
(`ModuleImporter::import`) is an association list: no entry = `None` = "Unknown module".

`inlItems` is the `for statement in program` loop of `inlining_pass`:
  * `use m` with `m` already in `imported_modules`  → nothing;
  * otherwise the importer is asked; unknown → `Err(UnknownModule)` (the partial result is dropped by `?`,
    `imported_modules` keeps what was pushed so far — the resolver does not roll back, `Context` does);
  * otherwise `m` is pushed to `imported_modules` **before** its body is parsed and inlined recursively;
  * any other statement is copied.
The recursion of `inlining_pass` on the imported body is not structural, so it takes fuel (`inlMod`); the
number of table entries is enough (`Lemmas/Modules.lean: resolve_fuel`), `outOfFuel` is an explicit result.

The result is a *trace*: `enter m` (= the push to `imported_modules`), the copied statements with their origin
(module and position, what the `Span` of the real statement says), and `exit m` when the body of `m` is done.
`enter`/`exit` are not part of the Rust result; `enter` is observable as `imported_modules`, `exit` is a ghost
used to state "emitted completely".  `stmts` is the list `inlining_pass` returns.
Import-free (core only).
-/
namespace NumbatModel.Modules

inductive Item where
  | use (m : Nat)
  | defn (names : List Nat) (uses : List Nat)
deriving Repr, DecidableEq, Inhabited

/-- the importer: module ↦ its source, first entry wins -/
abbrev Table := List (Nat × List Item)

def body (t : Table) (m : Nat) : Option (List Item) := t.lookup m

inductive Event where
  | enter (m : Nat)
  | stmt (origin : Option Nat) (idx : Nat) (names : List Nat) (uses : List Nat)
  | exit (m : Nat)
deriving Repr, DecidableEq, Inhabited

inductive Err where
  | unknownModule (m : Nat)
  | outOfFuel
deriving Repr, DecidableEq, Inhabited

/-- (`imported_modules` afterwards, `Ok(trace)` or `Err`) -/
abbrev Res := List Nat × Except Err (List Event)

/-- the loop of `inlining_pass` over the statements `items` (numbered from `i`) of source `o`;
`recur imp m body` inlines the body of a newly imported module. -/
def inlItems (t : Table) (recur : List Nat → Nat → List Item → Res) (o : Option Nat) :
    Nat → List Nat → List Item → Res
  | _, imp, [] => (imp, .ok [])
  | i, imp, .defn ns us :: rest =>
    match inlItems t recur o (i + 1) imp rest with
    | (imp', .ok tr) => (imp', .ok (.stmt o i ns us :: tr))
    | (imp', .error e) => (imp', .error e)
  | i, imp, .use m :: rest =>
    if imp.contains m then inlItems t recur o (i + 1) imp rest
    else
      match body t m with
      | none => (imp, .error (.unknownModule m))
      | some b =>
        match recur (imp ++ [m]) m b with
        | (imp1, .error e) => (imp1, .error e)
        | (imp1, .ok tr1) =>
          match inlItems t recur o (i + 1) imp1 rest with
          | (imp2, .ok tr2) => (imp2, .ok (.enter m :: tr1 ++ .exit m :: tr2))
          | (imp2, .error e) => (imp2, .error e)

/-- `inlining_pass` on the body of module `m`, at most `fuel` nested imports deep -/
def inlMod (t : Table) : Nat → List Nat → Nat → List Item → Res
  | 0, imp, _, _ => (imp, .error .outOfFuel)
  | fuel + 1, imp, m, b => inlItems t (inlMod t fuel) (some m) 0 imp b

/-- `Resolver::resolve` on an input whose statements are `prog`, with `imported_modules = imp` before -/
def resolve (t : Table) (imp : List Nat) (prog : List Item) : Res :=
  inlItems t (inlMod t t.length) none 0 imp prog

/-- a session: inputs resolved one after the other (no failing input; `Context` restores the list then) -/
def resolveAll (t : Table) : List Nat → List (List Item) → List Nat × List (Except Err (List Event))
  | imp, [] => (imp, [])
  | imp, p :: ps =>
    let r := resolve t imp p
    let rs := resolveAll t r.1 ps
    (rs.1, r.2 :: rs.2)

/-! ### views of a trace -/

/-- modules pushed to `imported_modules`, in order -/
def entered : List Event → List Nat
  | [] => []
  | .enter m :: tr => m :: entered tr
  | _ :: tr => entered tr

def exited : List Event → List Nat
  | [] => []
  | .exit m :: tr => m :: exited tr
  | _ :: tr => exited tr

/-- the statements `inlining_pass` returns, in order -/
def stmts : List Event → List Event
  | [] => []
  | .stmt o i ns us :: tr => .stmt o i ns us :: stmts tr
  | _ :: tr => stmts tr

/-- the statements coming from source `o`: (position, names, uses) -/
def stmtsOf (o : Option Nat) : List Event → List (Nat × List Nat × List Nat)
  | [] => []
  | .stmt o' i ns us :: tr => if o' = o then (i, ns, us) :: stmtsOf o tr else stmtsOf o tr
  | _ :: tr => stmtsOf o tr

/-- the non-`use` statements of a source, numbered from `i` -/
def defsOf : Nat → List Item → List (Nat × List Nat × List Nat)
  | _, [] => []
  | i, .defn ns us :: rest => (i, ns, us) :: defsOf (i + 1) rest
  | i, .use _ :: rest => defsOf (i + 1) rest

/-- the same as events -/
def defEvents (o : Option Nat) : Nat → List Item → List Event
  | _, [] => []
  | i, .defn ns us :: rest => .stmt o i ns us :: defEvents o (i + 1) rest
  | i, .use _ :: rest => defEvents o (i + 1) rest

/-- targets of the `use` items of a source -/
def usesOf : List Item → List Nat
  | [] => []
  | .use m :: rest => m :: usesOf rest
  | .defn _ _ :: rest => usesOf rest

/-! ### evaluation of the inlined program (abstract): what "names, types and values" are -/

/-- an environment: most recent binding first -/
abbrev Env (V : Type) := List (Nat × V)

/-- the meaning of a definition: a value computed from the values of the names it uses
(`origin`, `idx` identify the statement) -/
abbrev Sem (V : Type) := Option Nat → Nat → List V → V

def lookupAll (env : Env V) : List Nat → Option (List V)
  | [] => some []
  | u :: us =>
    match env.lookup u, lookupAll env us with
    | some v, some vs => some (v :: vs)
    | _, _ => none

/-- statements evaluated in order; a use of an undefined name is an error (`unknown identifier`) and
reported with the statement; every name of the statement (aliases) is bound to the value -/
def evalStmts (sem : Sem V) : Env V → List Event → Except (Option Nat × Nat) (Env V)
  | env, [] => .ok env
  | env, .stmt o i ns us :: tr =>
    match lookupAll env us with
    | none => .error (o, i)
    | some vs => evalStmts sem (ns.map (fun n => (n, sem o i vs)) ++ env) tr
  | env, _ :: tr => evalStmts sem env tr

end NumbatModel.Modules
