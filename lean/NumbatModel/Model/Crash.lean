/-
M-Crash: the small arithmetic cores behind the panics/hangs named in C08, as partial functions.

* the factorial operator: `n` consecutive `!` are compiled to `Op::Factorial` with operand `n as u16`
  (`bytecode_interpreter.rs`), and `math::factorial(x, order)` loops `while x >= 1 && result != inf
  { result *= x; x -= order }` after `debug_assert!(order >= 1)`;
* exponent arithmetic on `Ratio<i128>`: a product that leaves the `i128` range panics in checked builds.
Import-free.
-/
namespace NumbatModel.Crash

/-- `order.get() as u16` -/
def orderCast (n : Nat) : Nat := n % 65536

/-- value of the running product: a finite natural number, or `inf` once it reaches 2^1024 -/
inductive Acc where
  | fin (r : Nat)
  | inf
deriving Repr, DecidableEq

def Acc.mul (a : Acc) (x : Nat) : Acc :=
  match a with
  | .inf => .inf
  | .fin r => if r * x ≥ 2 ^ 1024 then .inf else .fin (r * x)

/-- the loop of `math::factorial`; `none` = the loop has not ended within `fuel` iterations -/
def factLoop : Nat → Nat → Nat → Acc → Option Acc
  | 0, _, _, _ => none
  | fuel + 1, order, x, acc =>
    if x ≥ 1 ∧ acc ≠ .inf then factLoop fuel order (x - order) (acc.mul x) else some acc

inductive FactOutcome where
  | value (a : Acc)
  | panic          -- `debug_assert!(order >= 1)` (checked build)
  | hang           -- the loop never ends (unchecked build)
deriving Repr, DecidableEq

/-- `x` followed by `n ≥ 1` factorial operators, in a build with debug assertions -/
def vmFactorialChecked (x n : Nat) : FactOutcome :=
  let order := orderCast n
  if order = 0 then .panic
  else match factLoop (x + 1) order x (.fin 1) with
    | some a => .value a
    | none => .hang

/-! ### `Ratio<i128>` products -/

def i128Min : Int := -(2 ^ 127)
def i128Max : Int := 2 ^ 127 - 1

/-- `i128` multiplication in a checked build: `none` = "attempt to multiply with overflow" -/
def mulI128 (a b : Int) : Option Int :=
  if i128Min ≤ a * b ∧ a * b ≤ i128Max then some (a * b) else none

end NumbatModel.Crash
