import NumbatModel.Model.Session
/-
A concrete instance of the stage functions of `Model/Session.lean` at the level of *names*: what the
correspondence of C06/C07 can be told about an input without interpreting it — which modules it imports,
which names (of which kind) each statement introduces, and at which stage which statement fails.

Which kind of definition is registered in which component mirrors the Rust code:
  * `Transformer::transform_statement`: variables, functions, units (every alias), dimensions — not structs;
  * `TypeChecker::check_statement`: everything (environment, dimension registry, structs);
  * `BytecodeInterpreter::compile_statement`: variables (globals), functions, units, structs — not dimensions.
A stage processes the statements in order and stops at the first statement that fails in that stage, leaving
the names of the earlier statements registered (the dirty state `interpret` has to roll back).
`μ` = module names, `ν` = identifier names (strings in the driver, numbers in kernel-evaluated examples).
Import-free (core only).
-/
namespace NumbatModel.Session.Names

inductive Kind where
  | var | fn | unit | dim | struct
deriving Repr, DecidableEq

/-- the stage at which a statement is told to fail -/
inductive FailStage where
  | names | types | run
deriving Repr, DecidableEq

/-- a statement as the harness describes it -/
inductive Item (μ ν : Type) where
  | use (m : μ)
  | defn (names : List (Kind × ν))
  | plain                         -- expression, print, assertion, …: introduces nothing
  | failAt (st : FailStage)       -- a statement that fails when stage `st` reaches it
deriving Repr

/-- source text as the harness describes it -/
structure Code (μ ν : Type) where
  parseFails : Bool
  items : List (Item μ ν)
deriving Repr

def Kind.inTransformer : Kind → Bool
  | .struct => false
  | _ => true

def Kind.inChecker : Kind → Bool := fun _ => true

def Kind.inInterp : Kind → Bool
  | .dim => false
  | _ => true

abbrev Names (ν : Type) := List (Kind × ν)

def toStmt : Item μ ν → Stmt μ (Item μ ν)
  | .use m => .use m
  | i => .other i

/-- one stage: register the names of each statement that passes `keep`, stop at `failAt here` -/
def stage (here : FailStage) (keep : Kind → Bool) :
    Names ν → List (Item μ ν) → Names ν × Except Unit (List (Item μ ν))
  | st, [] => (st, .ok [])
  | st, .defn ns :: rest =>
    match stage here keep (st ++ ns.filter (fun n => keep n.1)) rest with
    | (st', .ok out) => (st', .ok (.defn ns :: out))
    | (st', .error e) => (st', .error e)
  | st, .failAt f :: rest =>
    if f = here then (st, .error ())
    else
      match stage here keep st rest with
      | (st', .ok out) => (st', .ok (.failAt f :: out))
      | (st', .error e) => (st', .error e)
  | st, i :: rest =>
    match stage here keep st rest with
    | (st', .ok out) => (st', .ok (i :: out))
    | (st', .error e) => (st', .error e)

/-- number of `plain` statements: each prints one item in this instance (so outputs are observable) -/
def prints : List (Item μ ν) → List Unit
  | [] => []
  | .plain :: rest => () :: prints rest
  | .failAt .run :: _ => []          -- nothing is printed after the failing statement
  | _ :: rest => prints rest

/-- the stage functions; `table` is the importer -/
def stages (table : List (μ × Code μ ν)) [DecidableEq μ] (depth : Nat) :
    Stages μ (Code μ ν) (Item μ ν) (Item μ ν) (Item μ ν) (Names ν) (Names ν) (Names ν) Unit Unit Unit where
  parse := fun code _id => if code.parseFails then .error () else .ok (code.items.map toStmt)
  importer := fun m => table.lookup m
  transform := stage .names Kind.inTransformer
  check := stage .types Kind.inChecker
  run := fun v _t _c stmts =>
    match stage .run Kind.inInterp v stmts with
    | (v', .ok _) => (v', prints stmts, .ok none)
    | (v', .error e) => (v', prints stmts, .error e)
  depth := depth

abbrev NSession (μ ν : Type) := Session μ (Names ν) (Names ν) (Names ν)

def NSession.init (imported : List μ) : NSession μ ν :=
  ⟨⟨imported, [], 0, 0⟩, [], [], []⟩

end NumbatModel.Session.Names
