import NumbatModel.Model.Types
/-!
# Constraint generation for the body fragment of C16

Model of `TypeChecker::elaborate_expression` / `elaborate_statement(DefineFunction)` / `check_statement` of
`numbat/src/typechecker/mod.rs` for an *unannotated* function whose body is built from non-zero scalar
literals, the literal `0`, unit identifiers (closed dimension type given inline), parameters, unary minus,
`+ - ->` (one elaboration), `* /`, powers with a constant rational exponent, `< <= > >=`, `== !=`,
`if … then … else …`, and calls of functions with a given type scheme.

Mirrored faithfully: the order in which fresh variables `T<n>` are drawn, the order of the constraints, which
constraints `ConstraintSet::add` drops (trivially satisfied) and which make elaboration fail at once
(trivially violated), the closed-type short cut of `* /`, the three cases of `^`, the duplicated
`return type` constraint of a function definition, and after solving: substitution into every node type,
the exponent normalisation (`exponents_for` looks at nodes whose type is a `Dimension`; least common multiple
of the denominators; applied to the statement only, not to the environment) and generalisation.
-/
namespace NumbatModel.Types

mutual
inductive Ex where
  | num
  | zero
  | unit (d : Factors)
  | param (i : Nat)
  | neg (e : Ex)
  /-- `+`, `-`, `->` -/
  | add (a b : Ex)
  | mul (a b : Ex)
  | div (a b : Ex)
  | pow (e : Ex) (q : Rat)
  | lt (a b : Ex)
  | eq (a b : Ex)
  | ite (c a b : Ex)
  | call (nq : Nat) (bounds : List Ty) (fnTy : Ty) (args : ExL)
inductive ExL where
  | nil
  | cons (e : Ex) (es : ExL)
end

structure ESt where
  counter : Nat
  cs : List Constraint
  /-- types of the nodes that carry a type scheme (everything except conditionals) -/
  nodes : List Ty

def ESt.fresh (st : ESt) : TV × ESt :=
  (.named ("T" ++ toString st.counter), { st with counter := st.counter + 1 })

/-- `ConstraintSet::add` -/
def ESt.add (st : ESt) (c : Constraint) : Trivial × ESt :=
  let r := c.trivial
  (r, if r = .satisfied then st else { st with cs := st.cs ++ [c] })

def ESt.node (st : ESt) (t : Ty) : ESt := { st with nodes := st.nodes ++ [t] }

/-- `enforce_dtype`: `none` = `ExpectedDimensionType` -/
def ESt.enforceDType (st : ESt) (t : Ty) : Option ESt :=
  let (r, st') := st.add (.isDType t)
  if r = .violated then none else some st'

/-- `add_equal_constraint(..).is_trivially_violated()` → error -/
def ESt.equalOrFail (st : ESt) (a b : Ty) : Option ESt :=
  let (r, st') := st.add (.equal a b)
  if r = .violated then none else some st'

def scalarTy : Ty := .dim []

mutual
/-- `Type::instantiate` -/
def Ty.instantiate (vs : List TV) : Ty → Ty
  | .tvar (.quant i) => .tvar (vs.getD i (.quant i))
  | .tvar v => .tvar v
  | .tpar n => .tpar n
  | .dim d => .dim (canon (d.map (fun p => match p.1 with
      | .tvar (.quant i) => (DFactor.tvar (vs.getD i (.quant i)), p.2)
      | f => (f, p.2))))
  | .bool => .bool
  | .string => .string
  | .datetime => .datetime
  | .fn ps r => .fn (TyL.instantiate vs ps) (Ty.instantiate vs r)
  | .list e => .list (Ty.instantiate vs e)
def TyL.instantiate (vs : List TV) : TyL → TyL
  | .nil => .nil
  | .cons t ts => .cons (Ty.instantiate vs t) (TyL.instantiate vs ts)
end

def freshN : Nat → ESt → List TV × ESt
  | 0, st => ([], st)
  | n + 1, st =>
    let (v, st1) := st.fresh
    let (vs, st2) := freshN n st1
    (v :: vs, st2)

def addBounds : List Ty → ESt → ESt
  | [], st => st
  | b :: bs, st => addBounds bs (st.add (.isDType b)).2

/-- the parameter/argument loop of `proper_function_call` -/
def unifyArgs : TyL → List Ty → ESt → Option ESt
  | .cons p ps, a :: as, st =>
    match st.equalOrFail p a with
    | none => none
    | some st' => unifyArgs ps as st'
  | _, _, st => some st

/-- the `Mul | Div` arm -/
def elabMulDiv (isMul : Bool) (ta tb : Ty) (st : ESt) : Option (Ty × ESt) :=
  if ta.isClosed && tb.isClosed then
    match ta, tb with
    | .dim da, .dim db =>
      match st.enforceDType ta with
      | none => none
      | some st1 =>
        match st1.enforceDType tb with
        | none => none
        | some st2 =>
          let r := Ty.dim (if isMul then dmul da db else ddiv da db)
          some (r, st2.node r)
    | _, _ => none
  else
    match st.enforceDType ta with
    | none => none
    | some st1 =>
      match st1.enforceDType tb with
      | none => none
      | some st2 =>
        let (vr, st3) := st2.fresh
        let st4 := (st3.add (.isDType (.tvar vr))).2
        let (vl, st5) := st4.fresh
        let (vrh, st6) := st5.fresh
        let st7 := (st6.add (.equal ta (.tvar vl))).2
        let st8 := (st7.add (.equal tb (.tvar vrh))).2
        let st9 := (st8.add (.isDType (.tvar vl))).2
        let st10 := (st9.add (.isDType (.tvar vrh))).2
        let d := if isMul then dmul (dmul (dOfTVar vl) (dOfTVar vrh)) (dinv (dOfTVar vr))
                 else dmul (ddiv (dOfTVar vl) (dOfTVar vrh)) (dinv (dOfTVar vr))
        let st11 := (st10.add (.equalScalar d)).2
        some (.tvar vr, st11.node (.tvar vr))

mutual
/-- `elaborate_expression`; `none` = a type error is reported during elaboration -/
def elabEx (params : List TV) : Ex → ESt → Option (Ty × ESt)
  | .num, st => some (scalarTy, st.node scalarTy)
  | .zero, st =>
    let (v, st1) := st.fresh
    let st2 := (st1.add (.isDType (.tvar v))).2
    some (.tvar v, st2.node (.tvar v))
  | .unit d, st => some (.dim d, st.node (.dim d))
  | .param i, st =>
    match params[i]? with
    | some v => some (.tvar v, st.node (.tvar v))
    | none => none
  | .neg e, st =>
    match elabEx params e st with
    | none => none
    | some (t, st1) =>
      match st1.enforceDType t with
      | none => none
      | some st2 => some (t, st2.node t)
  | .add a b, st =>
    match elabEx params a st with
    | none => none
    | some (ta, st1) =>
      match elabEx params b st1 with
      | none => none
      | some (tb, st2) =>
        match st2.equalOrFail ta tb with
        | none => none
        | some st3 =>
          match st3.enforceDType ta with
          | none => none
          | some st4 =>
            match st4.enforceDType tb with
            | none => none
            | some st5 => some (ta, st5.node ta)
  | .lt a b, st =>
    match elabEx params a st with
    | none => none
    | some (ta, st1) =>
      match elabEx params b st1 with
      | none => none
      | some (tb, st2) =>
        match st2.equalOrFail ta tb with
        | none => none
        | some st3 =>
          match st3.enforceDType ta with
          | none => none
          | some st4 =>
            match st4.enforceDType tb with
            | none => none
            | some st5 => some (.bool, st5.node .bool)
  | .eq a b, st =>
    match elabEx params a st with
    | none => none
    | some (ta, st1) =>
      match elabEx params b st1 with
      | none => none
      | some (tb, st2) =>
        if ta.isClosed && tb.isClosed then
          (match ta, tb with
            | .dim _, .dim _ =>
              (match st2.equalOrFail ta tb with
                | none => none
                | some st3 => some (.bool, st3.node .bool))   -- both closed dimension types: the dtype checks are trivial
            | _, _ =>
              if !(ta.beq tb) then none
              else (match ta with
                | .fn _ _ => none
                | _ => some (.bool, st2.node .bool)))
        else
          some (.bool, ((st2.add (.equal ta tb)).2).node .bool)
  | .mul a b, st =>
    match elabEx params a st with
    | none => none
    | some (ta, st1) =>
      match elabEx params b st1 with
      | none => none
      | some (tb, st2) => elabMulDiv true ta tb st2
  | .div a b, st =>
    match elabEx params a st with
    | none => none
    | some (ta, st1) =>
      match elabEx params b st1 with
      | none => none
      | some (tb, st2) => elabMulDiv false ta tb st2
  | .pow e q, st =>
    match elabEx params e st with
    | none => none
    | some (tb, st1) =>
      -- the exponent is a closed scalar expression: its `enforce_dtype` is trivially satisfied
      match st1.enforceDType tb with
      | none => none
      | some st2 =>
        match tb with
        | .dim d =>
          if d == [] then some (.dim d, st2.node (.dim d))
          else
            let r := Ty.dim (dpow d q)
            some (r, st2.node r)
        | _ =>
          let (vr, st3) := st2.fresh
          let st4 := (st3.add (.isDType (.tvar vr))).2
          let (vb, st5) := st4.fresh
          let st6 := (st5.add (.isDType (.tvar vb))).2
          let st7 := (st6.add (.equal (.tvar vb) tb)).2
          let st8 := (st7.add (.equalScalar (dmul (dOfTVar vr) (dpow (dOfTVar vb) (-q))))).2
          some (.tvar vr, st8.node (.tvar vr))
  | .ite c a b, st =>
    match elabEx params c st with
    | none => none
    | some (tc, st1) =>
      match st1.equalOrFail tc .bool with
      | none => none
      | some st2 =>
        match elabEx params a st2 with
        | none => none
        | some (ta, st3) =>
          match elabEx params b st3 with
          | none => none
          | some (tb, st4) =>
            match st4.equalOrFail ta tb with
            | none => none
            | some st5 => some (ta, st5)
  | .call nq bounds fnTy args, st =>
    match elabArgs params args st with
    | none => none
    | some (tas, st1) =>
      let (vs, st2) := freshN nq st1
      let st3 := addBounds (bounds.map (Ty.instantiate vs)) st2
      match Ty.instantiate vs fnTy with
      | .fn ps r =>
        if ps.length != tas.length then none
        else
          (match unifyArgs ps tas st3 with
            | none => none
            | some st4 => some (r, st4.node r))
      | _ => none
def elabArgs (params : List TV) : ExL → ESt → Option (List Ty × ESt)
  | .nil, st => some ([], st)
  | .cons e es, st =>
    match elabEx params e st with
    | none => none
    | some (t, st1) =>
      match elabArgs params es st1 with
      | none => none
      | some (ts, st2) => some (t :: ts, st2)
end

/-! ## after elaboration: solve, substitute, normalise exponents, generalise -/

def applyTys (s : Subst) : List Ty → Option (List Ty)
  | [] => some []
  | t :: ts =>
    match t.apply s with
    | .error _ => none
    | .ok t' => (match applyTys s ts with
      | none => none
      | some ts' => some (t' :: ts'))

/-- `Statement::exponents_for` -/
def exponentsFor (tv : TV) (nodes : List Ty) : List Rat :=
  nodes.flatMap (fun t => match t with
    | .dim d => d.filterMap (fun p => if p.1 = .tvar tv then some p.2 else none)
    | _ => [])

/-- the exponent-normalisation loop of `check_statement`; `none` = the `unwrap()` panics -/
def lcmLoop : List TV → List Ty → Ty → Option (List Ty × Ty)
  | [], nodes, fnTy => some (nodes, fnTy)
  | tv :: tvs, nodes, fnTy =>
    let s := lcmSubst tv (exponentsFor tv nodes)
    if s.isEmpty then lcmLoop tvs nodes fnTy
    else
      match applyTys s nodes, fnTy.apply s with
      | some nodes', .ok fnTy' => lcmLoop tvs nodes' fnTy'
      | _, _ => none

inductive InferResult where
  /-- scheme of the typed statement (what is printed) and scheme stored in the environment (what calls use) -/
  | ok (stmt env : Scheme)
  | reject
  | panic
  | outOfFuel

/-- `check_statement` on `fn f(p₀, …, pₙ₋₁) = body` with the fresh-name counter at `counter` -/
def inferFn (fuel counter nparams : Nat) (body : Ex) : InferResult :=
  let st0 : ESt := { counter := counter, cs := [], nodes := [] }
  let (ps, st1) := freshN nparams st0
  let (r, st2) := st1.fresh
  match elabEx ps body st2 with
  | none => .reject
  | some (tb, st3) =>
    -- `add_equal_constraint(&return_type_inferred, &return_type)` happens twice
    let st4 := (st3.add (.equal tb (.tvar r))).2
    let st5 := (st4.add (.equal tb (.tvar r))).2
    match solve fuel st5.cs with
    | .couldNotSolve _ => .reject
    | .substError _ => .reject
    | .panic => .panic
    | .outOfFuel => .outOfFuel
    | .ok s dv =>
      let fnTy0 : Ty := .fn (TyL.ofList (ps.map Ty.tvar)) (.tvar r)
      match applyTys s st5.nodes, fnTy0.apply s with
      | some nodes, .ok fnTy =>
        (match lcmLoop dv nodes fnTy with
          | none => .panic
          | some (_, fnTyN) =>
            (match generalize dv fnTyN, generalize dv fnTy with
              | some a, some b => .ok a b
              | _, _ => .panic))
      | _, _ => .reject

end NumbatModel.Types
