/-
M-Sess: the session state machine of `numbat/src/lib.rs` (`Context::interpret_with_settings`) together with
`Resolver::resolve / inlining_pass / add_code_source` of `numbat/src/resolver.rs`, the error clean-up of
`Vm::run` (`numbat/src/vm.rs`) and `SessionHistory::save` (`numbat/src/session_history.rs`).

The session is a product of component states

    resolver     : imported-module list, source-file table, `<input:N>` / `<internal:N>` counters
    transformer  : `prefix_transformer::Transformer`   (type parameter `T`)
    checker      : `typechecker::TypeChecker`          (type parameter `C`)
    interp       : `BytecodeInterpreter` (VM, globals)  (type parameter `V`)

and `interpret` = resolve → transform → check → run.  The three later stages are *parameters* (`Stages`): each
takes the component state and returns the state the Rust code would have left behind **even when it fails**
(the `&mut self` methods stop in the middle of a statement list) together with `Except error output`.  That is
what makes the snapshot/restore structure of `interpret_with_settings` meaningful in the model: the dirty
state is there and `interpret` has to put the old one back, exactly where the Rust code does:

    resolve fails            → `imported_modules` restored                      (files, counters: NOT restored)
    transform fails          → transformer, `imported_modules` restored
    check fails              → transformer, checker, `imported_modules` restored
    run fails                → transformer, checker, interpreter, `imported_modules` restored
                               (print output already emitted stays emitted)

`interpretG false` is the code as it was before the repair `fix: restore the list of imported modules when an
input fails` (nothing restores `imported_modules`); `interpret = interpretG true` is the current tree.

Not modelled: `load_currency_module_on_demand` (off unless the CLI enables it; the retry path re-enters
`interpret_with_settings`), `terminal_width`, the contents of source files (only their labels), spans.
The resolver's `inlining_pass` is concrete; the module nesting depth is bounded by `Stages.depth`
(`Err.fuel` is an explicit result that the Rust code does not have — it would recurse further).
Import-free (core only).
-/
namespace NumbatModel.Session

/-- a parsed statement: a module import or anything else -/
inductive Stmt (μ σ : Type) where
  | use (m : μ)
  | other (s : σ)
deriving Repr

/-- `resolver::CodeSource` (paths dropped) -/
inductive Source (μ : Type) where
  | text
  | internal
  | file
  | module (m : μ)
deriving Repr, DecidableEq

/-- name of an entry of the source-file table, as built by `add_code_source` -/
inductive Label (μ : Type) where
  | input (n : Nat)       -- `<input:n>`
  | internal (n : Nat)    -- `<internal:n>`
  | file
  | module (m : μ)
deriving Repr, DecidableEq

/-- `NumbatError`, plus `fuel` for the nesting bound of the model -/
inductive Err (μ E : Type) where
  | unknownModule (m : μ)   -- ResolverError::UnknownModule
  | parse (e : E)           -- ResolverError::ParseErrors
  | names (e : E)           -- NameResolutionError
  | types (e : E)           -- TypeCheckError
  | runtime (e : E)         -- RuntimeError
  | fuel
deriving Repr, DecidableEq

/-- `resolver::Resolver` without the importer (which is in `Stages`) -/
structure Resolver (μ : Type) where
  imported : List μ
  files : List (Label μ)
  textCount : Nat
  internalCount : Nat
deriving Repr, DecidableEq

def Resolver.empty : Resolver μ := ⟨[], [], 0, 0⟩

/-- `Resolver::add_code_source`: bumps the counter of the source kind, appends to the file table, returns the id -/
def Resolver.addCodeSource (r : Resolver μ) : Source μ → Resolver μ × Nat
  | .text => ({ r with textCount := r.textCount + 1, files := r.files ++ [.input (r.textCount + 1)] }, r.files.length)
  | .internal =>
    ({ r with internalCount := r.internalCount + 1, files := r.files ++ [.internal (r.internalCount + 1)] },
      r.files.length)
  | .file => ({ r with files := r.files ++ [.file] }, r.files.length)
  | .module m => ({ r with files := r.files ++ [.module m] }, r.files.length)

/-- The stage functions and the importer.  `κ` source text, `σ` parsed statement, `τ` transformed statement,
`θ` typed statement, `E` error payload, `ν` value, `ω` printed item. -/
structure Stages (μ κ σ τ θ T C V E ν ω : Type) where
  /-- `parser::parse(code, code_source_id)` -/
  parse : κ → Nat → Except E (List (Stmt μ σ))
  /-- `ModuleImporter::import` -/
  importer : μ → Option κ
  /-- `Transformer::transform`: state left behind, result -/
  transform : T → List σ → T × Except E (List τ)
  /-- `TypeChecker::check` -/
  check : C → List τ → C × Except E (List θ)
  /-- `BytecodeInterpreter::interpret_statements(settings, stmts, &prefix_transformer, &typechecker)`:
      state left behind, what `print_fn` received, result (`none` = `InterpreterResult::Continue`) -/
  run : V → T → C → List θ → V × List ω × Except E (Option ν)
  /-- bound on the nesting depth of module imports (model only) -/
  depth : Nat

section
variable {μ κ σ τ θ T C V E ν ω : Type} [DecidableEq μ]

abbrev ResolveResult (μ σ E : Type) := Resolver μ × Except (Err μ E) (List σ)

/-- the `for statement in program` loop of `Resolver::inlining_pass`; `nested` inlines the body of an
imported module (the recursive call) -/
def inlineAt (P : Stages μ κ σ τ θ T C V E ν ω) (nested : Resolver μ → List (Stmt μ σ) → ResolveResult μ σ E) :
    Resolver μ → List (Stmt μ σ) → ResolveResult μ σ E
  | r, [] => (r, .ok [])
  | r, .other s :: rest =>
    match inlineAt P nested r rest with
    | (r', .ok out) => (r', .ok (s :: out))
    | (r', .error e) => (r', .error e)
  | r, .use m :: rest =>
    if r.imported.contains m then inlineAt P nested r rest
    else
      match P.importer m with
      | none => (r, .error (.unknownModule m))
      | some code =>
        -- `self.imported_modules.push(module_path)` happens before the module is parsed
        let r1 : Resolver μ := { r with imported := r.imported ++ [m] }
        let (r2, id) := r1.addCodeSource (.module m)
        match P.parse code id with
        | .error e => (r2, .error (.parse e))
        | .ok prog =>
          match nested r2 prog with
          | (r3, .error e) => (r3, .error e)
          | (r3, .ok inl) =>
            match inlineAt P nested r3 rest with
            | (r4, .ok out) => (r4, .ok (inl ++ out))
            | (r4, .error e) => (r4, .error e)

/-- `Resolver::inlining_pass` with at most `d` levels of nested imports below this one -/
def inline (P : Stages μ κ σ τ θ T C V E ν ω) : Nat → Resolver μ → List (Stmt μ σ) → ResolveResult μ σ E
  | 0 => inlineAt P (fun r _ => (r, .error .fuel))
  | d + 1 => inlineAt P (inline P d)

/-- `Resolver::resolve` -/
def resolve (P : Stages μ κ σ τ θ T C V E ν ω) (r : Resolver μ) (code : κ) (src : Source μ) : ResolveResult μ σ E :=
  let (r1, id) := r.addCodeSource src
  match P.parse code id with
  | .error e => (r1, .error (.parse e))
  | .ok prog => inline P P.depth r1 prog

/-- `Context` (without `load_currency_module_on_demand`, `terminal_width`) -/
structure Session (μ T C V : Type) where
  resolver : Resolver μ
  transformer : T
  checker : C
  interp : V

/-- what the caller of `interpret_with_settings` gets, and what `print_fn` received meanwhile -/
structure Outcome (μ E ν ω : Type) where
  result : Except (Err μ E) (Option ν)
  output : List ω

/-- `self.resolver.imported_modules = imported_modules_old` — present on every error path since the repair -/
def restoreImports (fix : Bool) (r : Resolver μ) (old : List μ) : Resolver μ :=
  if fix then { r with imported := old } else r

/-- `Context::interpret_with_settings`; `fix = false` is the code before the repair of the import leak -/
def interpretG (fix : Bool) (P : Stages μ κ σ τ θ T C V E ν ω) (s : Session μ T C V) (code : κ) (src : Source μ) :
    Session μ T C V × Outcome μ E ν ω :=
  let importedOld := s.resolver.imported
  match resolve P s.resolver code src with
  | (r1, .error e) =>
    ({ s with resolver := restoreImports fix r1 importedOld }, ⟨.error e, []⟩)
  | (r1, .ok stmts) =>
    let transformerOld := s.transformer
    match P.transform s.transformer stmts with
    | (_dirtyT, .error e) =>
      (⟨restoreImports fix r1 importedOld, transformerOld, s.checker, s.interp⟩, ⟨.error (.names e), []⟩)
    | (t1, .ok transformed) =>
      let checkerOld := s.checker
      match P.check s.checker transformed with
      | (_dirtyC, .error e) =>
        (⟨restoreImports fix r1 importedOld, transformerOld, checkerOld, s.interp⟩, ⟨.error (.types e), []⟩)
      | (c1, .ok typed) =>
        let interpOld := s.interp
        match P.run s.interp t1 c1 typed with
        | (_dirtyV, out, .error e) =>
          (⟨restoreImports fix r1 importedOld, transformerOld, checkerOld, interpOld⟩, ⟨.error (.runtime e), out⟩)
        | (v1, out, .ok res) => (⟨r1, t1, c1, v1⟩, ⟨.ok res, out⟩)

/-- the current tree -/
def interpret (P : Stages μ κ σ τ θ T C V E ν ω) := interpretG true P

/-- the tree before `fix: restore the list of imported modules when an input fails` -/
def interpretPreFix (P : Stages μ κ σ τ θ T C V E ν ω) := interpretG false P

/-- observational equality of sessions: everything except the source-file table and the input counters -/
def ObsEq (a b : Session μ T C V) : Prop :=
  a.resolver.imported = b.resolver.imported ∧ a.transformer = b.transformer ∧ a.checker = b.checker ∧
    a.interp = b.interp

/-- a history of inputs run one after the other (`fix` as in `interpretG`) -/
def runHistG (fix : Bool) (P : Stages μ κ σ τ θ T C V E ν ω) :
    Session μ T C V → List (κ × Source μ) → Session μ T C V × List (Outcome μ E ν ω)
  | s, [] => (s, [])
  | s, i :: rest =>
    let (s1, o) := interpretG fix P s i.1 i.2
    let (s2, os) := runHistG fix P s1 rest
    (s2, o :: os)

def runHist (P : Stages μ κ σ τ θ T C V E ν ω) := runHistG true P

def Outcome.isOk (o : Outcome μ E ν ω) : Bool :=
  match o.result with
  | .ok _ => true
  | .error _ => false

/-- `InterpreterResult` of a multi-statement input: the value of the last expression statement that ran -/
def combineResult (r1 r2 : Option ν) : Option ν :=
  match r2 with
  | some v => some v
  | none => r1

end

/-! ### `Vm::run`: clean-up after a run-time error -/

structure Frame where
  functionIdx : Nat
  ip : Nat
  fp : Nat
deriving Repr, DecidableEq

/-- the part of `vm::Vm` that `run` touches when cleaning up -/
structure Vm (val : Type) where
  stack : List val
  frames : List Frame
  /-- `self.bytecode[0].1.len()` -/
  mainLen : Nat
  lastResult : Option val

/-- `Vm::run`: `run_without_cleanup` is the parameter `raw`; on error the stack is put back, the call stack
is reset to the root frame and its `ip` moved to the end of the main chunk (`last_result` is **not** reset
here — `Context` restores the whole interpreter) -/
def Vm.run {val E R : Type} (raw : Vm val → Vm val × Except E R) (vm : Vm val) : Vm val × Except E R :=
  let oldStack := vm.stack
  match raw vm with
  | (vm', .error e) => ({ vm' with stack := oldStack, frames := [⟨0, vm'.mainLen, 0⟩] }, .error e)
  | (vm', .ok r) => (vm', .ok r)

/-! ### `SessionHistory` -/

/-- `SessionHistory::save` with the options the `save` command uses (`include_err_lines: false`,
`trim_lines: true`): the trimmed inputs whose evaluation succeeded, in order (one per `writeln!`) -/
def savedHistory {κ : Type} (trim : κ → κ) (hist : List (κ × Bool)) : List κ :=
  (hist.filter (·.2)).map (fun i => trim i.1)

end NumbatModel.Session
