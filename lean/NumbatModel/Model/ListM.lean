/-
M-List: model of `numbat/src/list.rs` (`NumbatList<T>`): reference-counted storage, views, copy-on-shared.

A heap of allocations and a table of handle slots.  `strong a` is *derived* (number of live handles on
allocation `a`), exactly what `Arc::strong_count` reports when no weak references exist.
Import-free (core only) so that the driver links as a `lean_exe`.
-/
namespace NumbatModel.ListM

structure Handle where
  alloc : Nat
  view : Option (Nat × Nat)
deriving Repr, DecidableEq, Inhabited

structure Heap (α : Type) where
  allocs : List (List α)
  live : List (Option Handle)
deriving Repr, Inhabited

inductive Op (α : Type) where
  | new
  | cap (n : Nat)
  | clone (k : Nat)
  | drop (k : Nat)
  | pf (k : Nat) (x : α)
  | pb (k : Nat) (x : α)
  | tail (k : Nat)
  | head (k : Nat)
deriving Repr

inductive Res (α : Type) where
  | ok
  | err            -- RuntimeErrorKind::EmptyList
  | some (x : α)
  | none
  | badOp          -- the slot is not live (harness never does this on purpose)
  | panic          -- the Rust code would index out of bounds / underflow
deriving Repr, DecidableEq

def Heap.empty : Heap α := ⟨[], []⟩

def isOn (a : Nat) : Option Handle → Bool
  | some hd => hd.alloc == a
  | none => false

/-- `Arc::strong_count` of allocation `a`: the number of live handles pointing at it. -/
def Heap.strong (h : Heap α) (a : Nat) : Nat := h.live.countP (isOn a)

def allocOf (allocs : List (List α)) (a : Nat) : List α := allocs[a]?.getD []

/-- `NumbatList::iter`: `alloc.iter().skip(start).take(end - start)` -/
def contents (allocs : List (List α)) (hd : Handle) : List α :=
  match hd.view with
  | none => allocOf allocs hd.alloc
  | some (s, e) => ((allocOf allocs hd.alloc).drop s).take (e - s)

/-- `NumbatList::len` -/
def lenOf (allocs : List (List α)) (hd : Handle) : Nat :=
  match hd.view with
  | none => (allocOf allocs hd.alloc).length
  | some (s, e) => e - s

def Heap.get (h : Heap α) (k : Nat) : Option Handle := (h.live[k]?).join

/-- `make_mut`: copy the visible elements into a fresh allocation iff the storage is shared. -/
def makeMut (h : Heap α) (k : Nat) (hd : Handle) : Heap α × Handle :=
  if h.strong hd.alloc != 1 then
    let hd' : Handle := ⟨h.allocs.length, none⟩
    (⟨h.allocs ++ [contents h.allocs hd], h.live.set k (some hd')⟩, hd')
  else (h, hd)

def step (h : Heap α) : Op α → Heap α × Res α
  | .new => (⟨h.allocs ++ [[]], h.live ++ [some ⟨h.allocs.length, none⟩]⟩, .ok)
  | .cap _ => (⟨h.allocs ++ [[]], h.live ++ [some ⟨h.allocs.length, none⟩]⟩, .ok)
  | .clone k =>
    match h.get k with
    | some hd => (⟨h.allocs, h.live ++ [some hd]⟩, .ok)
    | none => (h, .badOp)
  | .drop k =>
    match h.get k with
    | some _ => (⟨h.allocs, h.live.set k none⟩, .ok)
    | none => (h, .badOp)
  | .pf k x =>
    match h.get k with
    | none => (h, .badOp)
    | some hd0 =>
      let (h1, hd) := makeMut h k hd0
      let al := allocOf h1.allocs hd.alloc
      match hd.view with
      | none => (⟨h1.allocs.set hd.alloc (x :: al), h1.live⟩, .ok)
      | some (s, e) =>
        if s == 0 then
          (⟨h1.allocs.set hd.alloc (x :: al), h1.live.set k (some ⟨hd.alloc, some (0, e + 1)⟩)⟩, .ok)
        else if s - 1 < al.length then
          (⟨h1.allocs.set hd.alloc (al.set (s - 1) x), h1.live.set k (some ⟨hd.alloc, some (s - 1, e)⟩)⟩, .ok)
        else (h1, .panic)
  | .pb k x =>
    match h.get k with
    | none => (h, .badOp)
    | some hd0 =>
      let (h1, hd) := makeMut h k hd0
      let al := allocOf h1.allocs hd.alloc
      match hd.view with
      | none => (⟨h1.allocs.set hd.alloc (al ++ [x]), h1.live⟩, .ok)
      | some (s, e) =>
        if e == al.length then
          (⟨h1.allocs.set hd.alloc (al ++ [x]), h1.live.set k (some ⟨hd.alloc, some (s, e + 1)⟩)⟩, .ok)
        else if e + 1 < al.length then
          -- the code's "overwrite the end+1 element" branch (`*end += 1; inner[*end] = element`)
          (⟨h1.allocs.set hd.alloc (al.set (e + 1) x), h1.live.set k (some ⟨hd.alloc, some (s, e + 1)⟩)⟩, .ok)
        else (h1, .panic)
  | .tail k =>
    match h.get k with
    | none => (h, .badOp)
    | some hd =>
      match hd.view with
      | some (s, e) =>
        if e < s then (h, .panic)            -- `view.1 - view.0` underflows
        else if e - s == 0 then (h, .err)
        else (⟨h.allocs, h.live.set k (some ⟨hd.alloc, some (s + 1, e)⟩)⟩, .ok)
      | none =>
        let n := (allocOf h.allocs hd.alloc).length
        if n == 0 then (h, .err)
        else (⟨h.allocs, h.live.set k (some ⟨hd.alloc, some (1, n)⟩)⟩, .ok)
  | .head k =>
    match h.get k with
    | none => (h, .badOp)
    | some hd =>
      let front := match hd.view with | some (s, _) => s | none => 0
      let r := match (allocOf h.allocs hd.alloc)[front]? with
        | some x => Res.some x
        | none => Res.none
      (⟨h.allocs, h.live.set k none⟩, r)

/-- `impl PartialEq for NumbatList` (as repaired by numbat 2bb906d): equal lengths and element-wise equal elements —
whatever the two handles share.  `beq` is the equality of the elements, which need not be reflexive (NaN). -/
def eqHandles (beq : α → α → Bool) (allocs : List (List α)) (a b : Handle) : Bool :=
  lenOf allocs a == lenOf allocs b &&
    ((contents allocs a).zip (contents allocs b)).all (fun p => beq p.1 p.2)

/-- equality of plain sequences under an element equality -/
def seqEq (beq : α → α → Bool) : List α → List α → Bool
  | [], [] => true
  | x :: xs, y :: ys => beq x y && seqEq beq xs ys
  | _, _ => false

/-- what each slot holds, as plain sequences -/
def Heap.abs (h : Heap α) : List (Option (List α)) := h.live.map (Option.map (contents h.allocs))

/-! ### The specification: plain immutable sequences, one per slot -/

abbrev Spec (α : Type) := List (Option (List α))

def Spec.get (s : Spec α) (k : Nat) : Option (List α) := (s[k]?).join

def Spec.step (s : Spec α) : Op α → Spec α × Res α
  | .new => (s ++ [some []], .ok)
  | .cap _ => (s ++ [some []], .ok)
  | .clone k =>
    match Spec.get s k with
    | some l => (s ++ [some l], .ok)
    | none => (s, .badOp)
  | .drop k =>
    match Spec.get s k with
    | some _ => (s.set k none, .ok)
    | none => (s, .badOp)
  | .pf k x =>
    match Spec.get s k with
    | some l => (s.set k (some (x :: l)), .ok)
    | none => (s, .badOp)
  | .pb k x =>
    match Spec.get s k with
    | some l => (s.set k (some (l ++ [x])), .ok)
    | none => (s, .badOp)
  | .tail k =>
    match Spec.get s k with
    | some [] => (s, .err)
    | some (_ :: l) => (s.set k (some l), .ok)
    | none => (s, .badOp)
  | .head k =>
    match Spec.get s k with
    | some l => (s.set k none, match l.head? with | some x => .some x | none => .none)
    | none => (s, .badOp)

/-- run a whole operation sequence, collecting results -/
def run (h : Heap α) : List (Op α) → Heap α × List (Res α)
  | [] => (h, [])
  | op :: ops =>
    let (h1, r) := step h op
    let (h2, rs) := run h1 ops
    (h2, r :: rs)

def Spec.run (s : Spec α) : List (Op α) → Spec α × List (Res α)
  | [] => (s, [])
  | op :: ops =>
    let (s1, r) := Spec.step s op
    let (s2, rs) := Spec.run s1 ops
    (s2, r :: rs)

end NumbatModel.ListM
