import NumbatModel.Model.Core
/-
M-VM: byte-level model of numbat's bytecode compiler (`bytecode_interpreter.rs`:
`compile_expression`, `compile_define_variable`, `compile_statement`) and of its stack machine
(`vm.rs`: `Op`, `add_op*`, `patch_u16_value_at`, `run_without_cleanup`, `run`).

* code is `List UInt8`; operands are u16 little-endian; jump operands are written as `0xffff`
  and patched afterwards at the same byte offsets as in the Rust code;
* locals are resolved by *last* position (`rposition`) in the current scope, then in the global
  scope (`GetUpvalue`), then `ans`/`_`, then the function map;
* constants are appended without de-duplication, so indices depend on the compilation order;
* struct fields are compiled in reversed definition order, `BuildStructInstance` pops them into
  definition order, `AccessStructField` takes the element at the definition index;
* `JoinString n` pops `n` parts (an interpolation is two stack entries) and prepends each;
* `Call` pushes a frame with `fp = stack.len - num_args`; `Return` with one frame left pops the
  statement's value into `last_result`, otherwise it drops the frame's slots below the result.

Mutation through `&mut self` is rendered as returning the new state. The chunk being compiled is the
field `code` of the compiler view `CS` (`bytecode[current_chunk_index].1`); `compileStmt` copies it
in and out of the chunk list, which is what `begin_function`/`end_function` do with
`current_chunk_index`. Spans are dropped. Operations outside the fragment (units, prefixes,
date-times, `type`) stop with `panic "unsupported: …"`.
-/
namespace NumbatModel.VM
open NumbatModel.Core

/-! ### Opcodes and byte encoding -/

/-- `vm::Op` in declaration order (`#[repr(u8)]`: the position is the opcode). -/
inductive Op where
  | loadConstant | applyPrefix | setUnitConstant | getLocal | getUpvalue | getLastResult
  | negate | factorial | add | subtract | multiply | divide | power | convertTo
  | lessThan | greaterThan | lessOrEqual | greatorOrEqual | equal | notEqual
  | logicalAnd | logicalOr | logicalNeg
  | addToDateTime | subFromDateTime | diffDateTime
  | jumpIfFalse | jump | call | ffiCallFunction | ffiCallProcedure | callCallable
  | printString | joinString | buildStructInstance | accessStructField | buildList | return_
deriving Repr, DecidableEq, Inhabited

def Op.all : List Op :=
  [.loadConstant, .applyPrefix, .setUnitConstant, .getLocal, .getUpvalue, .getLastResult,
   .negate, .factorial, .add, .subtract, .multiply, .divide, .power, .convertTo,
   .lessThan, .greaterThan, .lessOrEqual, .greatorOrEqual, .equal, .notEqual,
   .logicalAnd, .logicalOr, .logicalNeg,
   .addToDateTime, .subFromDateTime, .diffDateTime,
   .jumpIfFalse, .jump, .call, .ffiCallFunction, .ffiCallProcedure, .callCallable,
   .printString, .joinString, .buildStructInstance, .accessStructField, .buildList, .return_]

/-- `op as u8` -/
def Op.code (op : Op) : UInt8 := UInt8.ofNat (Op.all.idxOf op)

/-- `transmute::<u8, Op>` (undefined behaviour in Rust for a byte that is no opcode: `none`) -/
def Op.ofCode (b : UInt8) : Option Op := Op.all[b.toNat]?

/-- Number of u16 operands the compiler writes and the VM reads for each instruction.
    (`Op::num_operands`, which only the disassembler uses, says 2 for `FFICallFunction` and 1 for
    `CallCallable`; `add_op3`/`add_op2` write and `run_without_cleanup` reads 3 and 2. The model
    follows the compiler and the VM.) -/
def Op.numOperands : Op → Nat
  | .ffiCallProcedure | .ffiCallFunction => 3
  | .setUnitConstant | .call | .buildStructInstance | .callCallable => 2
  | .loadConstant | .applyPrefix | .getLocal | .getUpvalue | .printString | .joinString
  | .jumpIfFalse | .jump | .accessStructField | .buildList | .factorial => 1
  | _ => 0

/-- `Vm::push_u16`: `(data as u16).to_le_bytes()` -/
def encU16 (n : Nat) : List UInt8 := [UInt8.ofNat (n % 256), UInt8.ofNat (n / 256 % 256)]

def encArgs : List Nat → List UInt8
  | [] => []
  | a :: as => encU16 a ++ encArgs as

/-- `add_op` / `add_op1` / `add_op2` / `add_op3` -/
def encode (op : Op) (args : List Nat) : List UInt8 := op.code :: encArgs args

/-- `Vm::read_u16` -/
def readU16 (code : List UInt8) (ip : Nat) : Option Nat :=
  match code[ip]?, code[ip + 1]? with
  | some lo, some hi => some (lo.toNat + 256 * hi.toNat)
  | _, _ => none

def readArgs (code : List UInt8) : Nat → Nat → Option (List Nat)
  | _, 0 => some []
  | ip, k + 1 =>
    match readU16 code ip, readArgs code (ip + 2) k with
    | some a, some as => some (a :: as)
    | _, _ => none

/-- opcode, operands and the position of the next instruction -/
def decode (code : List UInt8) (ip : Nat) : Option (Op × List Nat × Nat) :=
  match code[ip]? with
  | none => none
  | some b =>
    match Op.ofCode b with
    | none => none
    | some op =>
      match readArgs code (ip + 1) op.numOperands with
      | none => none
      | some args => some (op, args, ip + 1 + 2 * op.numOperands)

/-- `Vm::patch_u16_value_at` -/
def patchU16 (code : List UInt8) (offset v : Nat) : List UInt8 :=
  (code.set offset (UInt8.ofNat (v % 256))).set (offset + 1) (UInt8.ofNat (v / 256 % 256))

/-- subtraction of `u16` values (wrapping, as in a release build) -/
def subU16 (a b : Nat) : Nat := (a + 65536 - b % 65536) % 65536

/-! ### Constants, chunks, compiler view -/

/-- `vm::Constant` (units are outside the fragment) -/
inductive Constant (ν : Type) where
  | scalar (x : ν)
  | boolean (b : Bool)
  | string (s : String)
  | fnref (foreign : Bool) (name : Name) (idx : Nat)
  | fmtspec (s : Option String)

/-- `Constant::to_value` -/
def Constant.toValue {ν : Type} : Constant ν → Value ν
  | .scalar x => .num x
  | .boolean b => .bool b
  | .string s => .str s
  | .fnref f n i => .fnref f n i
  | .fmtspec s => .fmtspec s

structure Chunk where
  name : Name
  code : List UInt8
deriving Repr, Inhabited

/-- What `compile_expression` reads and writes. -/
structure CS (ν : Type) where
  /-- code of the chunk being compiled -/
  code : List UInt8
  constants : List (Constant ν)
  /-- `ffi_call_args.len()` -/
  nCallArgs : Nat
  /-- `locals[current_depth]` (identifiers of each local) -/
  scopeCur : List (List Name)
  /-- `locals[0]` -/
  scopeGlob : List (List Name)
  /-- the map `functions` as an association list, later entries win -/
  functions : List (Name × Bool)
  /-- names of all chunks (`get_function_idx`) -/
  chunkNames : List Name
  /-- keys of `ffi_callables` in index order -/
  ffiNames : List Name
  /-- keys of `struct_infos` in index order -/
  structNames : List Name

variable {ν : Type}

def CS.emit (cs : CS ν) (op : Op) (args : List Nat) : CS ν :=
  { cs with code := cs.code ++ encode op args }

/-- `Vm::current_offset` -/
def CS.offset (cs : CS ν) : Nat := cs.code.length % 65536

/-- `Vm::add_constant` followed by `add_op1(LoadConstant, index)` -/
def CS.loadConst (cs : CS ν) (c : Constant ν) : Res (CS ν) :=
  if cs.constants.length + 1 ≤ 65535 then
    .ok ({ cs with constants := cs.constants ++ [c] }.emit .loadConstant [cs.constants.length])
  else .panic "assertion failed: self.constants.len() <= u16::MAX as usize"

/-- `Vm::add_ffi_call_args`: the index of the new entry -/
def CS.addCallArgs (cs : CS ν) : Res (CS ν × Nat) :=
  if cs.nCallArgs + 1 ≤ 65535 then .ok ({ cs with nCallArgs := cs.nCallArgs + 1 }, cs.nCallArgs)
  else .panic "assertion failed: self.ffi_call_args.len() <= u16::MAX as usize"

/-- `patch_u16_value_at` on the chunk being compiled -/
def CS.patch (cs : CS ν) (offset v : Nat) : CS ν := { cs with code := patchU16 cs.code offset v }

/-- state of the compiler of a conditional after the `then` branch (`cs3`, compiled from `cs1` + `JumpIfFalse`):
    `Jump 0xffff` appended and the operand of the `JumpIfFalse` patched to point behind it -/
def condPatch1 (cs1 cs3 : CS ν) : CS ν :=
  let ifJumpOffset := (cs1.offset + 1) % 65536
  let cs4 := cs3.emit .jump [0xffff]
  cs4.patch ifJumpOffset (subU16 cs4.offset (ifJumpOffset + 2))

def binOpcode : BinOp → Op
  | .arith .add => .add
  | .arith .sub => .subtract
  | .arith .mul => .multiply
  | .arith .div => .divide
  | .arith .pow => .power
  | .arith .conv => .convertTo
  | .cmp .lt => .lessThan
  | .cmp .gt => .greaterThan
  | .cmp .le => .lessOrEqual
  | .cmp .ge => .greatorOrEqual
  | .eq => .equal
  | .ne => .notEqual
  | .and => .logicalAnd
  | .or => .logicalOr

/-- run compile actions one after the other -/
def runAll (acts : List (CS ν → Res (CS ν))) (cs : CS ν) : Res (CS ν) :=
  match acts with
  | [] => .ok cs
  | a :: as => (a cs).bind (runAll as)

/-! ### The compiler -/

mutual
/-- `BytecodeInterpreter::compile_expression` -/
def compileExpr : Expr ν → CS ν → Res (CS ν)
  | .num x, cs => cs.loadConst (.scalar x)
  | .bool b, cs => cs.loadConst (.boolean b)
  | .ident x, cs =>
    match lastIdx (fun l => l.contains x) cs.scopeCur with
    | some p => .ok (cs.emit .getLocal [p])
    | none =>
      match lastIdx (fun l => l.contains x) cs.scopeGlob with
      | some p => .ok (cs.emit .getUpvalue [p])
      | none =>
        if lastResultIdentifiers.contains x then .ok (cs.emit .getLastResult [])
        else
          match assocLast x cs.functions with
          | some true => cs.loadConst (.fnref true x 0)
          | some false =>
            -- `Vm::get_function_idx` at compile time: the newest chunk with that name
            (match lastIdx (fun n => n == x) cs.chunkNames with
             | some idx => cs.loadConst (.fnref false x idx)
             | none => .panic "called `Option::unwrap()` on a `None` value (get_function_idx)")
          | none => .panic "internal error: entered unreachable code: Unknown identifier"
  | .neg e, cs => (compileExpr e cs).bind fun cs => .ok (cs.emit .negate [])
  | .fact k e, cs => (compileExpr e cs).bind fun cs => .ok (cs.emit .factorial [k])
  | .not e, cs => (compileExpr e cs).bind fun cs => .ok (cs.emit .logicalNeg [])
  | .bin op l r, cs =>
    (compileExpr l cs).bind fun cs => (compileExpr r cs).bind fun cs => .ok (cs.emit (binOpcode op) [])
  | .call f args, cs =>
    (compileList args cs).bind fun cs =>
      match idxOf? f cs.ffiNames with
      | some idx =>
        cs.addCallArgs.bind fun (cs, a) => .ok (cs.emit .ffiCallFunction [idx, args.length, a])
      | none =>
        match lastIdx (fun n => n == f) cs.chunkNames with
        | some idx => .ok (cs.emit .call [idx, args.length])
        | none => .panic "called `Option::unwrap()` on a `None` value (get_function_idx)"
  | .callc callee args, cs =>
    (compileList args cs).bind fun cs =>
      (compileExpr callee cs).bind fun cs =>
        cs.addCallArgs.bind fun (cs, a) => .ok (cs.emit .callCallable [args.length, a])
  | .cond c t e, cs =>
    (compileExpr c cs).bind fun cs1 =>
      -- if_jump_offset = current_offset() + 1; JumpIfFalse 0xffff
      (compileExpr t (cs1.emit .jumpIfFalse [0xffff])).bind fun cs3 =>
        -- else_jump_offset = current_offset() + 1; Jump 0xffff; else_block_offset = current_offset();
        -- patch_u16_value_at(if_jump_offset, else_block_offset - (if_jump_offset + 2))
        (compileExpr e (condPatch1 cs1 cs3)).bind fun cs6 =>
          -- end_offset = current_offset(); patch_u16_value_at(else_jump_offset, end_offset - (else_jump_offset + 2))
          .ok (cs6.patch ((cs3.offset + 1) % 65536) (subU16 cs6.offset ((cs3.offset + 1) % 65536 + 2)))
  | .str parts, cs => (compileParts parts cs).bind fun cs => .ok (cs.emit .joinString [parts.length])
  | .mk info fields, cs =>
    if fields.all (fun f => (fieldIdx info f.name).isSome) then
      (runAll ((fieldOrder info Prod.fst (compileFields fields)).map Prod.snd) cs).bind fun cs =>
        match idxOf? info.name cs.structNames with
        | some idx => .ok (cs.emit .buildStructInstance [idx, fields.length])
        | none => .panic "called `Option::unwrap()` on a `None` value (get_structinfo_idx)"
    else .panic "called `Option::unwrap()` on a `None` value (get_index_of)"
  | .fld e field info, cs =>
    (compileExpr e cs).bind fun cs =>
      match fieldIdx info field with
      | some idx => .ok (cs.emit .accessStructField [idx])
      | none => .panic "called `Option::unwrap()` on a `None` value (get_index_of)"
  | .list es, cs => (compileList es cs).bind fun cs => .ok (cs.emit .buildList [es.length])
def compileList : List (Expr ν) → CS ν → Res (CS ν)
  | [], cs => .ok cs
  | e :: es, cs => (compileExpr e cs).bind fun cs => compileList es cs
def compileParts : List (Part ν) → CS ν → Res (CS ν)
  | [], cs => .ok cs
  | .fixed s :: ps, cs => (cs.loadConst (.string s)).bind fun cs => compileParts ps cs
  | .interp fmt e :: ps, cs =>
    (compileExpr e cs).bind fun cs => (cs.loadConst (.fmtspec fmt)).bind fun cs => compileParts ps cs
/-- the compile action of every field of a struct literal, in source order -/
def compileFields : List (Field ν) → List (Name × (CS ν → Res (CS ν)))
  | [] => []
  | .mk n e :: fs => (n, compileExpr e) :: compileFields fs
end

/-- `compile_define_variable`: the value stays on the stack and becomes the next local -/
def compileDef (d : Def ν) (cs : CS ν) : Res (CS ν) :=
  (compileExpr d.expr cs).bind fun cs => .ok { cs with scopeCur := cs.scopeCur ++ [d.names] }

def compileDefs : List (Def ν) → CS ν → Res (CS ν)
  | [], cs => .ok cs
  | d :: ds, cs => (compileDef d cs).bind fun cs => compileDefs ds cs

/-- body of `Statement::DefineFunction`: `where` variables, the result expression, `Return` -/
def compileFnBody (d : FunDecl ν) (cs : CS ν) : Res (CS ν) :=
  (compileDefs d.wheres cs).bind fun cs => (compileExpr d.body cs).bind fun cs => .ok (cs.emit .return_ [])

/-! ### Interpreter state between statements -/

/-- `BytecodeInterpreter` with its `Vm` (between statements: one scope of locals, current chunk 0,
    one root frame). -/
structure Interp (ν : Type) where
  chunks : List Chunk
  constants : List (Constant ν)
  structInfos : List StructInfo
  ffiNames : List Name
  nCallArgs : Nat
  /-- `locals[0]` -/
  locals0 : List (List Name)
  functions : List (Name × Bool)
  /-- `frames[0].ip` -/
  ip : Nat
  stack : List (Value ν)
  last : Option (Value ν)

/-- `BytecodeInterpreter::new()`; the order of the three procedures in `ffi_callables` comes from a
    `HashMap` iteration and is an input of the model -/
def Interp.new (procs : List Name) : Interp ν :=
  { chunks := [{ name := "<main>", code := [] }], constants := [], structInfos := [], ffiNames := procs,
    nCallArgs := 0, locals0 := [], functions := [], ip := 0, stack := [], last := none }

def Interp.mainCode (I : Interp ν) : List UInt8 := (I.chunks.head?.map Chunk.code).getD []

/-- the compiler's view while chunk 0 is current -/
def Interp.view (I : Interp ν) : CS ν :=
  { code := I.mainCode, constants := I.constants, nCallArgs := I.nCallArgs, scopeCur := I.locals0,
    scopeGlob := I.locals0, functions := I.functions, chunkNames := I.chunks.map Chunk.name,
    ffiNames := I.ffiNames, structNames := I.structInfos.map StructInfo.name }

def Interp.commitMain (I : Interp ν) (cs : CS ν) : Interp ν :=
  { I with chunks := I.chunks.set 0 { name := "<main>", code := cs.code }, constants := cs.constants,
           nCallArgs := cs.nCallArgs }

def ProcKind.name : ProcKind → Name
  | .print => "print"
  | .assert => "assert"
  | .assertEq => "assert_eq"
  | .type => "type"

/-- `BytecodeInterpreter::compile_statement` -/
def compileStmt (I : Interp ν) : Stmt ν → Res (Interp ν)
  | .expr e =>
    (compileExpr e I.view).bind fun cs => .ok (I.commitMain (cs.emit .return_ []))
  | .letv d =>
    (compileExpr d.expr I.view).bind fun cs =>
      .ok { I.commitMain cs with locals0 := I.locals0 ++ [d.names] }
  | .fn d =>
    -- begin_function pushes an empty chunk and makes it current; a new scope holds the parameters
    let cs0 : CS ν :=
      { I.view with code := [], scopeCur := d.params.map fun p => [p],
                    chunkNames := I.chunks.map Chunk.name ++ [d.name],
                    -- the name is registered before the body is compiled (usable as a value in it)
                    functions := I.functions ++ [(d.name, false)] }
    (compileFnBody d cs0).bind fun cs =>
      .ok { I with chunks := I.chunks ++ [{ name := d.name, code := cs.code }], constants := cs.constants,
                   nCallArgs := cs.nCallArgs, functions := I.functions ++ [(d.name, false)] }
  | .ffn name _ =>
    .ok { I with ffiNames := insertNew id name I.ffiNames, functions := I.functions ++ [(name, true)] }
  | .structDef info => .ok { I with structInfos := insertNew StructInfo.name info I.structInfos }
  | .dim => .ok I
  | .proc .type _ => .panic "unsupported: type"
  | .proc kind args =>
    (compileList args I.view).bind fun cs =>
      match idxOf? (ProcKind.name kind) cs.ffiNames with
      | none => .panic "called `Option::unwrap()` on a `None` value (get_ffi_callable_idx)"
      | some idx =>
        cs.addCallArgs.bind fun (cs, a) =>
          .ok (I.commitMain (cs.emit .ffiCallProcedure [idx, args.length, a]))
  | .unsupported w => .panic ("unsupported: " ++ w)

def compileStmts : Interp ν → List (Stmt ν) → Res (Interp ν)
  | I, [] => .ok I
  | I, s :: ss => (compileStmt I s).bind fun I => compileStmts I ss

/-! ### The machine -/

/-- The compiled program the machine executes. -/
structure Prog (ν : Type) where
  chunks : List Chunk
  constants : List (Constant ν)
  structInfos : List StructInfo
  ffiNames : List Name

def Interp.prog (I : Interp ν) : Prog ν :=
  { chunks := I.chunks, constants := I.constants, structInfos := I.structInfos, ffiNames := I.ffiNames }

/-- `CallFrame` -/
structure Frame where
  fn : Nat
  ip : Nat
  fp : Nat
deriving Repr, DecidableEq, Inhabited

structure Machine (ν : Type) where
  /-- call stack, innermost frame first (the Rust `Vec` has it last) -/
  frames : List Frame
  /-- value stack, bottom first -/
  stack : List (Value ν)
  last : Option (Value ν)
  /-- lines handed to `print_fn` -/
  out : List String
  /-- `result_last_statement` -/
  result : Option (Value ν)

inductive Step (ν : Type) where
  /-- one instruction executed -/
  | next (m : Machine ν)
  /-- `is_at_the_end()` -/
  | halt
  | err (e : Err)
  | panic (msg : String)

/-- pop `n` values: the remaining stack and the popped values in pop order -/
def popN {α : Type} : Nat → List α → Option (List α × List α)
  | 0, s => some (s, [])
  | n + 1, s =>
    match s.getLast? with
    | none => none
    | some v =>
      match popN n s.dropLast with
      | none => none
      | some (s', vs) => some (s', v :: vs)

def pop {α : Type} (s : List α) : Option (List α × α) :=
  match s.getLast? with
  | none => none
  | some v => some (s.dropLast, v)

/-- the loop of `Op::JoinString`: pops `n` parts, prepending each to `acc` -/
def joinLoop (S : Sem ν) : Nat → List (Value ν) → String → Res (List (Value ν) × String)
  | 0, s, acc => .ok (s, acc)
  | n + 1, s, acc =>
    match pop s with
    | none => .panic "stack should not be empty"
    | some (s, .fmtspec (some spec)) =>
      (match pop s with
       | none => .panic "stack should not be empty"
       | some (s, v) => (Res.ofExcept (S.fmtSpec spec v)).bind fun part => joinLoop S n s (part ++ acc))
    | some (s, .fmtspec none) =>
      (match pop s with
       | none => .panic "stack should not be empty"
       | some (s, v) =>
         match v.toStr S with
         | some part => joinLoop S n s (part ++ acc)
         | none => .panic "internal error: entered unreachable code")
    | some (s, v) =>
      match v.toStr S with
      | some part => joinLoop S n s (part ++ acc)
      | none => .panic "internal error: entered unreachable code"

def arithOfOp : Op → Option ArithOp
  | .add => some .add
  | .subtract => some .sub
  | .multiply => some .mul
  | .divide => some .div
  | .power => some .pow
  | .convertTo => some .conv
  | _ => none

def binOfOp : Op → Option BinOp
  | .add => some (.arith .add)
  | .subtract => some (.arith .sub)
  | .multiply => some (.arith .mul)
  | .divide => some (.arith .div)
  | .power => some (.arith .pow)
  | .convertTo => some (.arith .conv)
  | .lessThan => some (.cmp .lt)
  | .greaterThan => some (.cmp .gt)
  | .lessOrEqual => some (.cmp .le)
  | .greatorOrEqual => some (.cmp .ge)
  | .equal => some .eq
  | .notEqual => some .ne
  | .logicalAnd => some .and
  | .logicalOr => some .or
  | _ => none

/-- a foreign callable applied to arguments popped from the stack (`FFICallFunction`,
    `FFICallProcedure` and the foreign branch of `CallCallable`) -/
def callForeign (S : Sem ν) (name : Name) (args : List (Value ν)) (m : Machine ν) : Step ν :=
  if name == "print" then
    match args with
    | [] => .next { m with out := m.out ++ [""] }
    | [v] =>
      (match v.printText S with
       | some t => .next { m with out := m.out ++ [t] }
       | none => .panic "print of format specifiers")
    | _ => .panic "assertion failed: args.len() <= 1"
  else if name == "assert" then
    match args with
    | [.bool true] => .next m
    | [.bool false] => .err .assertFailed
    | _ => .panic "Expected value to be a bool"
  else if name == "assert_eq" then .panic "unsupported: assert_eq"
  else
    match S.ffi name args with
    | .ok v => .next { m with stack := m.stack ++ [v] }
    | .err e => .err e
    | .panic msg => .panic msg
    | .timeout => .panic "foreign function timed out"

/-- one instruction; `f` is the current frame with `ip` already behind the operands -/
def exec (S : Sem ν) (P : Prog ν) (m : Machine ν) (f : Frame) (fs : List Frame) (op : Op) (args : List Nat) :
    Step ν :=
  let m : Machine ν := { m with frames := f :: fs }
  match op, args with
  | .loadConstant, [i] =>
    (match P.constants[i]? with
     | some c => .next { m with stack := m.stack ++ [c.toValue] }
     | none => .panic "index out of bounds (constants)")
  | .getLocal, [slot] =>
    (match m.stack[f.fp + slot]? with
     | some v => .next { m with stack := m.stack ++ [v] }
     | none => .panic "index out of bounds (stack)")
  | .getUpvalue, [i] =>
    (match m.stack[i]? with
     | some v => .next { m with stack := m.stack ++ [v] }
     | none => .panic "index out of bounds (stack)")
  | .getLastResult, [] =>
    (match m.last with
     | some v => .next { m with stack := m.stack ++ [v] }
     | none => .panic "called `Option::unwrap()` on a `None` value (last_result)")
  | .negate, [] =>
    (match pop m.stack with
     | some (s, .num x) => .next { m with stack := s ++ [.num (S.neg x)] }
     | some _ => .panic "Expected quantity to be on the top of the stack"
     | none => .panic "stack should not be empty")
  | .factorial, [k] =>
    (match pop m.stack with
     | some (s, .num x) =>
       (match S.fact k x with
        | .ok y => .next { m with stack := s ++ [.num y] }
        | .error e => .err e)
     | some _ => .panic "Expected quantity to be on the top of the stack"
     | none => .panic "stack should not be empty")
  | .logicalNeg, [] =>
    (match pop m.stack with
     | some (s, .bool b) => .next { m with stack := s ++ [.bool (!b)] }
     | some _ => .panic "Expected value to be a bool"
     | none => .panic "stack should not be empty")
  | .jumpIfFalse, [off] =>
    (match pop m.stack with
     | some (s, .bool b) =>
       .next { m with stack := s, frames := { f with ip := if b then f.ip else f.ip + off } :: fs }
     | some _ => .panic "Expected value to be a bool"
     | none => .panic "stack should not be empty")
  | .jump, [off] => .next { m with frames := { f with ip := f.ip + off } :: fs }
  | .call, [idx, nargs] =>
    if nargs ≤ m.stack.length then
      .next { m with frames := { fn := idx, ip := 0, fp := m.stack.length - nargs } :: f :: fs }
    else .panic "attempt to subtract with overflow"
  | .ffiCallFunction, [idx, nargs, _] | .ffiCallProcedure, [idx, nargs, _] =>
    (match P.ffiNames[idx]? with
     | none => .panic "index out of bounds (ffi_callables)"
     | some name =>
       match popN nargs m.stack with
       | none => .panic "stack should not be empty"
       | some (s, vs) => callForeign S name vs.reverse { m with stack := s })
  | .callCallable, [nargs, _] =>
    (match pop m.stack with
     | none => .panic "stack should not be empty"
     | some (s, .fnref false _ idx) =>
       if nargs ≤ s.length then
         .next { m with stack := s, frames := { fn := idx, ip := 0, fp := s.length - nargs } :: f :: fs }
       else .panic "attempt to subtract with overflow"
     | some (s, .fnref true name _) =>
       if P.ffiNames.contains name then
         (match popN nargs s with
          | none => .panic "stack should not be empty"
          | some (s, vs) => callForeign S name vs.reverse { m with stack := s })
       else .panic "Foreign function exists"
     | some _ => .panic "Expected value to be a string")
  | .joinString, [n] =>
    (match joinLoop S n m.stack "" with
     | .ok (s, str) => .next { m with stack := s ++ [.str str] }
     | .err e => .err e
     | .panic msg => .panic msg
     | .timeout => .panic "timeout")
  | .return_, [] =>
    (match fs with
     | [] =>
       (match pop m.stack with
        | none => .panic "stack should not be empty"
        | some (s, v) => .next { m with stack := s, last := some v, result := some v })
     | _ :: _ =>
       (match pop m.stack with
        | none => .panic "called `Option::unwrap()` on a `None` value (return value)"
        | some (s, v) => .next { m with frames := fs, stack := s.take f.fp ++ [v] }))
  | .buildStructInstance, [idx, n] =>
    (match P.structInfos[idx]? with
     | none => .panic "Missing struct metadata"
     | some info =>
       match popN n m.stack with
       | none => .panic "stack should not be empty"
       | some (s, vs) => .next { m with stack := s ++ [.struct info vs] })
  | .accessStructField, [idx] =>
    (match pop m.stack with
     | some (s, .struct _ vs) =>
       (match vs[idx]? with
        | some v => .next { m with stack := s ++ [v] }
        | none => .panic "swap_remove index out of bounds")
     | some _ => .panic "Expected value to be a struct"
     | none => .panic "stack should not be empty")
  | .buildList, [n] =>
    (match popN n m.stack with
     | none => .panic "stack should not be empty"
     | some (s, vs) => .next { m with stack := s ++ [.list vs.reverse] })
  | op, _ =>
    match binOfOp op with
    | some b =>
      (match popN 2 m.stack with
       | some (s, [y, x]) =>
         (match applyBin S b x y with
          | .ok v => .next { m with stack := s ++ [v] }
          | .err e => .err e
          | .panic msg => .panic msg
          | .timeout => .panic "timeout")
       | _ => .panic "stack should not be empty")
    | none => .panic "unsupported: instruction outside the modelled fragment"

/-- one turn of the loop in `run_without_cleanup` -/
def step (S : Sem ν) (P : Prog ν) (m : Machine ν) : Step ν :=
  match m.frames with
  | [] => .panic "Call stack is not empty"
  | f :: fs =>
    match P.chunks[f.fn]? with
    | none => .panic "index out of bounds (bytecode)"
    | some ch =>
      if ch.code.length ≤ f.ip then .halt
      else
        match decode ch.code f.ip with
        | none => .panic "index out of bounds (code) / invalid opcode"
        | some (op, args, ip') => exec S P m { f with ip := ip' } fs op args

/-- the machine after `n` instructions (`next m` = still running, in state `m`) -/
def runN (S : Sem ν) (P : Prog ν) : Nat → Machine ν → Step ν
  | 0, m => .next m
  | n + 1, m =>
    match step S P m with
    | .next m' => runN S P n m'
    | r => r

inductive RunRes (ν : Type) where
  | done (m : Machine ν)
  /-- run-time error; the lines printed before it stay printed -/
  | err (e : Err) (out : List String)
  /-- panic; what was printed before it stays printed -/
  | panic (msg : String) (out : List String)
  | timeout

/-- `run_without_cleanup` with a step budget -/
def run (S : Sem ν) (P : Prog ν) : Nat → Machine ν → RunRes ν
  | 0, _ => .timeout
  | n + 1, m =>
    match step S P m with
    | .next m' => run S P n m'
    | .halt => .done m
    | .err e => .err e m.out
    | .panic msg => .panic msg m.out

inductive Outcome (ν : Type) where
  /-- `InterpreterResult::Value` -/
  | value (v : Value ν)
  /-- `InterpreterResult::Continue` -/
  | continue_
  | error (e : Err)
  | panic (msg : String)
  | timeout

/-- `interpret_statements`: compile every statement, then run. On a run-time error the caller
    (`Context::interpret_with_settings`) puts the previous interpreter back. -/
def interpret (S : Sem ν) (fuel : Nat) (I : Interp ν) (stmts : List (Stmt ν)) :
    Interp ν × Outcome ν × List String :=
  match compileStmts I stmts with
  | .ok I' =>
    let m0 : Machine ν :=
      { frames := [{ fn := 0, ip := I'.ip, fp := 0 }], stack := I'.stack, last := I'.last, out := [],
        result := none }
    (match run S I'.prog fuel m0 with
     | .done m =>
       let ip := (m.frames.head?.map Frame.ip).getD 0
       ({ I' with ip := ip, stack := m.stack, last := m.last },
        (match m.result with
         | some v => .value v
         | none => .continue_), m.out)
     | .err e out => (I, .error e, out)
     | .panic msg out => (I, .panic msg, out)
     | .timeout => (I, .timeout, []))
  | .err e => (I, .error e, [])
  | .panic msg => (I, .panic msg, [])
  | .timeout => (I, .timeout, [])

end NumbatModel.VM
