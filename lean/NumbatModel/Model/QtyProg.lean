import NumbatModel.Model.Qty
/-!
# A typed core of numbat programs over quantities and booleans (C01)

Sequences of `let` and `fn` definitions.  Expressions are built from numbers, units with prefixes,
earlier globals, parameters of the enclosing function, `+ − × ÷`, negation, powers with compile-time
exponents, conversions `a -> u`, the six comparison operators, `&&`, `||`, `!`, boolean literals,
`if … then … else …` and calls of user functions (first-order, possibly recursive).
`evalP` is what the VM does for the compiled expression: every operator is one opcode applied to the
values of the operands (`&&`/`||` are *not* short-circuiting: `Op::LogicalAnd`/`Op::LogicalOr` take
both operands from the stack); a conditional evaluates only the branch taken (`Op::JumpIfFalse`);
a global is read back as the raw value that was stored; a call evaluates the arguments left to right,
binds them to the parameters, evaluates the `where` clauses in order (each value is one more local) and then
the body (`Op::Call`, no simplification of the result).
Evaluation takes a fuel argument that bounds the nesting depth of expressions plus calls (recursive
functions need not terminate); `outOfFuel` is not an outcome of the real interpreter.
-/
namespace NumbatModel.Qty
open NumOps

/-- run-time values of the fragment -/
inductive PVal (α : Type) where
  | q (x : Quantity α)
  | b (x : Bool)
  | list (vs : List (PVal α))
  /-- a struct instance: the field values in the order of the struct definition -/
  | struct (vs : List (PVal α))
deriving Inhabited

/-- run-time failures: a quantity error of the VM, or an ill-typed operand (`stuck`: the VM would panic
in `pop_quantity`/`pop_bool`; the type checker is there to exclude it) -/
inductive PErr where
  | q (e : QErr)
  /-- `head`/`tail` of an empty list (`RuntimeErrorKind::EmptyList`) -/
  | emptyList
  | stuck
  | outOfFuel
deriving Repr, DecidableEq

inductive PExpr (α : Type) where
  | num (v : α)
  | unit (f : Factor)
  | var (i : Nat)
  | neg (a : PExpr α)
  | add (a b : PExpr α)
  | sub (a b : PExpr α)
  | mul (a b : PExpr α)
  | div (a b : PExpr α)
  | pow (a : PExpr α) (r : Rat)
  | conv (a t : PExpr α)
  | cmp (op : CmpOp) (a b : PExpr α)
  | eq (a b : PExpr α)
  | ne (a b : PExpr α)
  | and (a b : PExpr α)
  | or (a b : PExpr α)
  | not (a : PExpr α)
  | blit (v : Bool)
  | ite (c t e : PExpr α)
  /-- parameter `i` of the enclosing function -/
  | loc (i : Nat)
  /-- `f(a₁, …, aₙ)`: `args` is a chain `arg a₁ (arg a₂ … noarg)` -/
  | call (f : Nat) (args : PExpr α)
  | noarg
  | arg (a rest : PExpr α)
  /-- list literal `[a₁, …, aₙ]`: `elems` is a chain like the arguments of a call -/
  | lst (elems : PExpr α)
  /-- the foreign functions `head`, `tail`, `cons`, `len` of core::lists -/
  | head (l : PExpr α)
  | tail (l : PExpr α)
  | cons (a l : PExpr α)
  | len (l : PExpr α)
  /-- struct literal: `fields` is the chain of the field expressions in the order in which the compiler
  evaluates them — the *reverse* of the definition order, whatever the order in the source -/
  | mk (fields : PExpr α)
  /-- field access by the index of the field in the struct definition -/
  | get (e : PExpr α) (i : Nat)
deriving Repr

/-- a user function: number of parameters, the right-hand sides of its `where` clauses (each may refer to the
parameters and to the earlier clauses: they become further locals, in order) and body -/
structure FnDef (α : Type) where
  arity : Nat
  wheres : List (PExpr α) := []
  body : PExpr α
deriving Repr

section
variable {α : Type} [NumOps α]

/-- `n as f64` for a list length -/
def natToNum : Nat → α
  | 0 => zero
  | n + 1 => add (natToNum n) one

def liftQ (r : Except QErr (Quantity α)) : Except PErr (PVal α) :=
  match r with
  | .ok x => .ok (.q x)
  | .error e => .error (.q e)

def liftB (r : Except QErr Bool) : Except PErr (PVal α) :=
  match r with
  | .ok x => .ok (.b x)
  | .error e => .error (.q e)

/-- both operands are evaluated (left first), then the opcode is applied to two quantities -/
def binQ (x y : Except PErr (PVal α)) (f : Quantity α → Quantity α → Except PErr (PVal α)) :
    Except PErr (PVal α) :=
  match x, y with
  | .ok (.q a), .ok (.q b) => f a b
  | .ok (.q _), .ok _ => .error .stuck
  | .ok _, .ok _ => .error .stuck
  | .error e, _ => .error e
  | .ok _, .error e => .error e

def binB (x y : Except PErr (PVal α)) (f : Bool → Bool → Bool) : Except PErr (PVal α) :=
  match x, y with
  | .ok (.b a), .ok (.b b) => .ok (.b (f a b))
  | .ok (.b _), .ok _ => .error .stuck
  | .ok _, .ok _ => .error .stuck
  | .error e, _ => .error e
  | .ok _, .error e => .error e

/-- one `where` clause: its right-hand side is evaluated (by `ev`) with the locals so far and becomes the next
local; a failure ends the call -/
def whereStep (ev : List (PVal α) → PExpr α → Except PErr (PVal α))
    (acc : Except PErr (List (PVal α))) (w : PExpr α) : Except PErr (List (PVal α)) :=
  match acc with
  | .error err => .error err
  | .ok l =>
    match ev l w with
    | .ok v => .ok (l ++ [v])
    | .error err => .error err

mutual
/-- evaluation as the VM does it; `glob` holds the raw values of the globals defined so far, `loc` the
arguments of the current call, `fns` the functions defined so far -/
def evalP (tbl : Table α) (fns : List (FnDef α)) (glob : List (PVal α)) :
    Nat → List (PVal α) → PExpr α → Except PErr (PVal α)
  | 0, _, _ => .error .outOfFuel
  | fuel + 1, loc, e =>
    match e with
    | .num v => .ok (.q ⟨v, [], true⟩)
    | .unit f => .ok (.q ⟨one, [f], true⟩)
    | .var i =>
      match glob[i]? with
      | some v => .ok v
      | none => .error .stuck
    | .loc i =>
      match loc[i]? with
      | some v => .ok v
      | none => .error .stuck
    | .neg a =>
      match evalP tbl fns glob fuel loc a with
      | .ok (.q x) => .ok (.q x.neg)
      | .ok _ => .error .stuck
      | .error e => .error e
    | .add a b => binQ (evalP tbl fns glob fuel loc a) (evalP tbl fns glob fuel loc b) (fun x y => liftQ (qadd tbl x y))
    | .sub a b => binQ (evalP tbl fns glob fuel loc a) (evalP tbl fns glob fuel loc b) (fun x y => liftQ (qsub tbl x y))
    | .mul a b => binQ (evalP tbl fns glob fuel loc a) (evalP tbl fns glob fuel loc b) (fun x y => .ok (.q (qmul x y)))
    | .div a b => binQ (evalP tbl fns glob fuel loc a) (evalP tbl fns glob fuel loc b) (fun x y => liftQ (checkedDiv x y))
    | .pow a r =>
      match evalP tbl fns glob fuel loc a with
      | .ok (.q x) => liftQ (checkedPower x r)
      | .ok _ => .error .stuck
      | .error e => .error e
    | .conv a t => binQ (evalP tbl fns glob fuel loc a) (evalP tbl fns glob fuel loc t) (fun x y => liftQ (vmConvertTo tbl x y))
    | .cmp op a b => binQ (evalP tbl fns glob fuel loc a) (evalP tbl fns glob fuel loc b) (fun x y => liftB (vmCompare tbl op x y))
    | .eq a b => binQ (evalP tbl fns glob fuel loc a) (evalP tbl fns glob fuel loc b) (fun x y => .ok (.b (vmEq tbl x y)))
    | .ne a b => binQ (evalP tbl fns glob fuel loc a) (evalP tbl fns glob fuel loc b) (fun x y => .ok (.b (vmNe tbl x y)))
    | .and a b => binB (evalP tbl fns glob fuel loc a) (evalP tbl fns glob fuel loc b) (fun x y => x && y)
    | .or a b => binB (evalP tbl fns glob fuel loc a) (evalP tbl fns glob fuel loc b) (fun x y => x || y)
    | .not a =>
      match evalP tbl fns glob fuel loc a with
      | .ok (.b x) => .ok (.b (!x))
      | .ok _ => .error .stuck
      | .error e => .error e
    | .blit v => .ok (.b v)
    | .ite c t e =>
      match evalP tbl fns glob fuel loc c with
      | .ok (.b true) => evalP tbl fns glob fuel loc t
      | .ok (.b false) => evalP tbl fns glob fuel loc e
      | .ok _ => .error .stuck
      | .error err => .error err
    | .call f args =>
      match evalArgs tbl fns glob fuel loc args with
      | .error err => .error err
      | .ok vs =>
        match fns[f]? with
        | none => .error .stuck
        | some fd =>
          if vs.length = fd.arity then
            -- the `where` clauses are evaluated in order, each value becomes the next local
            match fd.wheres.foldl (whereStep (fun l w => evalP tbl fns glob fuel l w)) (.ok vs) with
            | .error err => .error err
            | .ok loc' => evalP tbl fns glob fuel loc' fd.body
          else .error .stuck
    | .noarg => .error .stuck
    | .arg _ _ => .error .stuck
    | .lst elems =>
      match evalArgs tbl fns glob fuel loc elems with
      | .ok vs => .ok (.list vs)
      | .error err => .error err
    | .head l =>
      match evalP tbl fns glob fuel loc l with
      | .ok (.list (v :: _)) => .ok v
      | .ok (.list []) => .error .emptyList
      | .ok _ => .error .stuck
      | .error err => .error err
    | .tail l =>
      match evalP tbl fns glob fuel loc l with
      | .ok (.list (_ :: vs)) => .ok (.list vs)
      | .ok (.list []) => .error .emptyList
      | .ok _ => .error .stuck
      | .error err => .error err
    | .cons a l =>
      -- arguments left to right
      match evalP tbl fns glob fuel loc a with
      | .error err => .error err
      | .ok v =>
        match evalP tbl fns glob fuel loc l with
        | .ok (.list vs) => .ok (.list (v :: vs))
        | .ok _ => .error .stuck
        | .error err => .error err
    | .mk fields =>
      match evalArgs tbl fns glob fuel loc fields with
      | .ok vs => .ok (.struct vs.reverse)
      | .error err => .error err
    | .get e i =>
      match evalP tbl fns glob fuel loc e with
      | .ok (.struct vs) =>
        match vs[i]? with
        | some v => .ok v
        | none => .error .stuck
      | .ok _ => .error .stuck
      | .error err => .error err
    | .len l =>
      match evalP tbl fns glob fuel loc l with
      | .ok (.list vs) => .ok (.q ⟨natToNum vs.length, [], true⟩)
      | .ok _ => .error .stuck
      | .error err => .error err

/-- the arguments of a call, left to right -/
def evalArgs (tbl : Table α) (fns : List (FnDef α)) (glob : List (PVal α)) :
    Nat → List (PVal α) → PExpr α → Except PErr (List (PVal α))
  | 0, _, _ => .error .outOfFuel
  | fuel + 1, loc, e =>
    match e with
    | .noarg => .ok []
    | .arg a rest =>
      match evalP tbl fns glob fuel loc a with
      | .error err => .error err
      | .ok v =>
        match evalArgs tbl fns glob fuel loc rest with
        | .error err => .error err
        | .ok vs => .ok (v :: vs)
    | _ => .error .stuck
end

/-- top-level definitions -/
inductive PStmt (α : Type) where
  | letv (e : PExpr α)
  | fn (d : FnDef α)
deriving Repr

/-- the session state of the fragment: raw values of the globals, functions -/
structure PState (α : Type) where
  glob : List (PVal α) := []
  fns : List (FnDef α) := []

/-- a program: consecutive definitions; the value of a `let` is appended to the globals, a function to the
function table; the first failure ends the run -/
def runProg (tbl : Table α) (fuel : Nat) : List (PStmt α) → PState α → Except PErr (PState α)
  | [], st => .ok st
  | .letv e :: rest, st =>
    match evalP tbl st.fns st.glob fuel [] e with
    | .ok v => runProg tbl fuel rest { st with glob := st.glob ++ [v] }
    | .error err => .error err
  | .fn d :: rest, st => runProg tbl fuel rest { st with fns := st.fns ++ [d] }

/-- syntactic unit expressions: what stands on the right of `->` in the fragment -/
def PExpr.isUnitExpr : PExpr α → Bool
  | .unit _ => true
  | .mul a b => a.isUnitExpr && b.isUnitExpr
  | .div a b => a.isUnitExpr && b.isUnitExpr
  | .pow a _ => a.isUnitExpr
  | _ => false

end
end NumbatModel.Qty
