import NumbatModel.Model.Time
/-! Numeric signature for the standard-library functions translated from `.nbt` source (C23), import-free
apart from `Model/Time.lean` (for `rtrunc`).

`Gen/NbtFunctions.lean` (written by `tools/gen_nbt_functions.py` from the AST the real parser produces) is
generic over `NbtNum α`.  Two instances:

* `Rat` — exact arithmetic; a quantity is its magnitude in base units, a unit is the magnitude of one such
  unit, so the conversion `a -> b` (same quantity, other unit) is the identity on magnitudes.  The theorems of
  `Props/C23.lean` are about this instance.
* `Float` — IEEE binary64, executed by the driver for the functions that contain no conversion operator (the
  temperature functions, with `kelvin := 1.0`, i.e. arguments given in kelvin); `convert` is *not* meaningful at
  `Float` because numbat's conversion arithmetic depends on the unit representation, which this signature does
  not carry. -/
namespace NumbatModel.Nbt

class NbtNum (α : Type) where
  add : α → α → α
  sub : α → α → α
  mul : α → α → α
  div : α → α → α
  neg : α → α
  /-- a numeric literal: the `f64` the parser produced, as `m · 2^e` -/
  lit : Int → Int → α
  /-- `len(xs)` as a scalar -/
  ofNat : Nat → α
  /-- foreign function `trunc` -/
  trunc : α → α
  /-- `==` between quantities of the same dimension -/
  beq : α → α → Bool
  /-- `<` -/
  lt : α → α → Bool
  /-- `a -> b`: `a` expressed in the unit of `b` -/
  convert : α → α → α

inductive Err where
  /-- `error("…")`, message as code points -/
  | user (msg : List Nat)
  /-- `head` / `tail` of an empty list (`RuntimeErrorKind::EmptyList`) -/
  | emptyList
  /-- recursion budget of the translated function exhausted (never a result of numbat itself) -/
  | fuel
deriving DecidableEq, Repr

abbrev M := Except Err

def headE {α : Type} : List α → M α
  | [] => .error .emptyList
  | x :: _ => .ok x

def tailE {α : Type} : List α → M (List α)
  | [] => .error .emptyList
  | _ :: xs => .ok xs

def pow2 : Int → Rat
  | .ofNat n => (2 : Rat) ^ n
  | .negSucc n => 1 / (2 : Rat) ^ (n + 1)

instance ratNum : NbtNum Rat where
  add := (· + ·)
  sub := (· - ·)
  mul := (· * ·)
  div := (· / ·)
  neg := fun x => -x
  lit m e := (m : Rat) * pow2 e
  ofNat n := (n : Rat)
  trunc x := (NumbatModel.Time.rtrunc x : Rat)
  beq a b := decide (a = b)
  lt a b := decide (a < b)
  convert a _ := a

instance floatNum : NbtNum Float where
  add := (· + ·)
  sub := (· - ·)
  mul := (· * ·)
  div := (· / ·)
  neg := fun x => -x
  lit m e := (Float.ofInt m).scaleB e
  ofNat n := Float.ofNat n
  trunc := NumbatModel.Time.ftrunc
  beq a b := a == b
  lt a b := a < b
  convert a _ := a

end NumbatModel.Nbt
