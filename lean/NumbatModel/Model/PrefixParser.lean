/-
M-Pfx: model of `numbat/src/prefix_parser.rs` (`PrefixParser::{prefixes, parse, ensure_name_is_available,
add_unit, add_other_identifier, add_shadowing_identifier}`), of `numbat/src/prefix.rs`
(`Prefix::as_string_short/as_string_long`), of the alias handling in `numbat/src/decorator.rs`
(`name_and_aliases_inner`, `get_canonical_unit_name`), of `Transformer::register_name_and_aliases` /
the definition part of `Transformer::transform_statement` in `numbat/src/prefix_transformer.rs`, and of
`impl Display for UnitFactor` in `numbat/src/unit.rs` (prefix + canonical name, exponent left out).

Strings are lists of Unicode code points (`Str = List Nat`).  Rust compares UTF-8 byte strings with
`==`, `starts_with`, `ends_with` and slices at `prefix.len()` after a successful `starts_with`; on valid
UTF-8 these are the same relations as equality, prefix, suffix and `drop` on the code point lists.

`IndexMap` (insertion-ordered, `insert` on an existing key replaces the value in place) is an association
list; the `HashMap` of other identifiers is a list used as a set.  Spans are left out (they do not
influence any decision).  Import-free (core only) so that the driver links as a `lean_exe`.
-/
namespace NumbatModel.PrefixParser

abbrev Str := List Nat

/-- `prefix.rs: enum Prefix { Metric(i32), Binary(i32) }` -/
inductive Prefix where
  | metric (n : Int)
  | binary (n : Int)
deriving DecidableEq, Repr, Inhabited

/-- `Prefix::none()` -/
def Prefix.none : Prefix := .metric 0

def Prefix.isMetric : Prefix → Bool
  | .metric _ => true
  | .binary _ => false

def Prefix.isBinary : Prefix → Bool
  | .metric _ => false
  | .binary _ => true

/-- one row `(prefix_long, prefixes_short, prefix)` of `PrefixParser::prefixes()` -/
structure PrefixEntry where
  long : Str
  shorts : List Str
  pfx : Prefix
deriving DecidableEq, Repr

/-- `PrefixParser::prefixes()`, in its order -/
def prefixes : List PrefixEntry := [
  ⟨[113, 117, 101, 99, 116, 111], [[113]], .metric (-30)⟩,  -- quecto q
  ⟨[114, 111, 110, 116, 111], [[114]], .metric (-27)⟩,  -- ronto r
  ⟨[121, 111, 99, 116, 111], [[121]], .metric (-24)⟩,  -- yocto y
  ⟨[122, 101, 112, 116, 111], [[122]], .metric (-21)⟩,  -- zepto z
  ⟨[97, 116, 116, 111], [[97]], .metric (-18)⟩,  -- atto a
  ⟨[102, 101, 109, 116, 111], [[102]], .metric (-15)⟩,  -- femto f
  ⟨[112, 105, 99, 111], [[112]], .metric (-12)⟩,  -- pico p
  ⟨[110, 97, 110, 111], [[110]], .metric (-9)⟩,  -- nano n
  ⟨[109, 105, 99, 114, 111], [[181], [956], [117]], .metric (-6)⟩,  -- micro µ(U+00B5) μ(U+03BC) u
  ⟨[109, 105, 108, 108, 105], [[109]], .metric (-3)⟩,  -- milli m
  ⟨[99, 101, 110, 116, 105], [[99]], .metric (-2)⟩,  -- centi c
  ⟨[100, 101, 99, 105], [[100]], .metric (-1)⟩,  -- deci d
  ⟨[100, 101, 99, 97], [[100, 97]], .metric 1⟩,  -- deca da
  ⟨[104, 101, 99, 116, 111], [[104]], .metric 2⟩,  -- hecto h
  ⟨[107, 105, 108, 111], [[107]], .metric 3⟩,  -- kilo k
  ⟨[109, 101, 103, 97], [[77]], .metric 6⟩,  -- mega M
  ⟨[103, 105, 103, 97], [[71]], .metric 9⟩,  -- giga G
  ⟨[116, 101, 114, 97], [[84]], .metric 12⟩,  -- tera T
  ⟨[112, 101, 116, 97], [[80]], .metric 15⟩,  -- peta P
  ⟨[101, 120, 97], [[69]], .metric 18⟩,  -- exa E
  ⟨[122, 101, 116, 116, 97], [[90]], .metric 21⟩,  -- zetta Z
  ⟨[121, 111, 116, 116, 97], [[89]], .metric 24⟩,  -- yotta Y
  ⟨[114, 111, 110, 110, 97], [[82]], .metric 27⟩,  -- ronna R
  ⟨[113, 117, 101, 116, 116, 97], [[81]], .metric 30⟩,  -- quetta Q
  ⟨[107, 105, 98, 105], [[75, 105]], .binary 10⟩,  -- kibi Ki
  ⟨[109, 101, 98, 105], [[77, 105]], .binary 20⟩,  -- mebi Mi
  ⟨[103, 105, 98, 105], [[71, 105]], .binary 30⟩,  -- gibi Gi
  ⟨[116, 101, 98, 105], [[84, 105]], .binary 40⟩,  -- tebi Ti
  ⟨[112, 101, 98, 105], [[80, 105]], .binary 50⟩,  -- pebi Pi
  ⟨[101, 120, 98, 105], [[69, 105]], .binary 60⟩,  -- exbi Ei
  ⟨[122, 101, 98, 105], [[90, 105]], .binary 70⟩,  -- zebi Zi
  ⟨[121, 111, 98, 105], [[89, 105]], .binary 80⟩,  -- yobi Yi
  ⟨[114, 111, 98, 105], [[82, 105]], .binary 90⟩,  -- robi Ri
  ⟨[113, 117, 101, 98, 105], [[81, 105]], .binary 100⟩  -- quebi Qi
]

/-! ### `Prefix::as_string_short` / `as_string_long` (their own `match` tables in prefix.rs) -/

def metricShort : List (Int × Str) := [
  ((-30), [113]), ((-27), [114]), ((-24), [121]), ((-21), [122]), ((-18), [97]), ((-15), [102]),
  ((-12), [112]), ((-9), [110]), ((-6), [181]), ((-3), [109]), ((-2), [99]), ((-1), [100]), (0, []),
  (1, [100, 97]), (2, [104]), (3, [107]), (6, [77]), (9, [71]), (12, [84]), (15, [80]), (18, [69]),
  (21, [90]), (24, [89]), (27, [82]), (30, [81])]

def binaryShort : List (Int × Str) := [
  (0, []), (10, [75, 105]), (20, [77, 105]), (30, [71, 105]), (40, [84, 105]), (50, [80, 105]),
  (60, [69, 105]), (70, [90, 105]), (80, [89, 105]), (90, [82, 105]), (100, [81, 105])]

def metricLong : List (Int × Str) := [
  ((-30), [113, 117, 101, 99, 116, 111]), ((-27), [114, 111, 110, 116, 111]),
  ((-24), [121, 111, 99, 116, 111]), ((-21), [122, 101, 112, 116, 111]), ((-18), [97, 116, 116, 111]),
  ((-15), [102, 101, 109, 116, 111]), ((-12), [112, 105, 99, 111]), ((-9), [110, 97, 110, 111]),
  ((-6), [109, 105, 99, 114, 111]), ((-3), [109, 105, 108, 108, 105]), ((-2), [99, 101, 110, 116, 105]),
  ((-1), [100, 101, 99, 105]), (0, []), (1, [100, 101, 99, 97]), (2, [104, 101, 99, 116, 111]),
  (3, [107, 105, 108, 111]), (6, [109, 101, 103, 97]), (9, [103, 105, 103, 97]), (12, [116, 101, 114, 97]),
  (15, [112, 101, 116, 97]), (18, [101, 120, 97]), (21, [122, 101, 116, 116, 97]),
  (24, [121, 111, 116, 116, 97]), (27, [114, 111, 110, 110, 97]), (30, [113, 117, 101, 116, 116, 97])]

def binaryLong : List (Int × Str) := [
  (0, []), (10, [107, 105, 98, 105]), (20, [109, 101, 98, 105]), (30, [103, 105, 98, 105]),
  (40, [116, 101, 98, 105]), (50, [112, 101, 98, 105]), (60, [101, 120, 98, 105]),
  (70, [122, 101, 98, 105]), (80, [121, 111, 98, 105]), (90, [114, 111, 98, 105]),
  (100, [113, 117, 101, 98, 105])]

def lookupInt : List (Int × Str) → Int → Option Str
  | [], _ => none
  | (k, v) :: rest, n => if k = n then some v else lookupInt rest n

def intText (n : Int) : Str := (toString n).toList.map Char.toNat

/-- the fall-through arms `format_compact!("<prefix 10^{n}>")` / `"<prefix 2^{n}>"` -/
def unknownPrefixText (binary : Bool) (n : Int) : Str :=
  (if binary then [60, 112, 114, 101, 102, 105, 120, 32, 50, 94]
   else [60, 112, 114, 101, 102, 105, 120, 32, 49, 48, 94]) ++ intText n ++ [62]

/-- `Prefix::as_string_short` -/
def Prefix.asStringShort : Prefix → Str
  | .metric n => (lookupInt metricShort n).getD (unknownPrefixText false n)
  | .binary n => (lookupInt binaryShort n).getD (unknownPrefixText true n)

/-- `Prefix::as_string_long` -/
def Prefix.asStringLong : Prefix → Str
  | .metric n => (lookupInt metricLong n).getD (unknownPrefixText false n)
  | .binary n => (lookupInt binaryLong n).getD (unknownPrefixText true n)

/-! ### the parser state -/

/-- `prefix_parser.rs: struct AcceptsPrefix { short, long }` -/
structure AcceptsPrefix where
  short : Bool
  long : Bool
deriving DecidableEq, Repr, Inhabited

def AcceptsPrefix.onlyLong : AcceptsPrefix := ⟨false, true⟩
def AcceptsPrefix.onlyShort : AcceptsPrefix := ⟨true, false⟩
def AcceptsPrefix.both : AcceptsPrefix := ⟨true, true⟩
def AcceptsPrefix.none : AcceptsPrefix := ⟨false, false⟩

/-- `struct UnitInfo` without the definition span -/
structure UnitInfo where
  accepts : AcceptsPrefix
  metric : Bool
  binary : Bool
  fullName : Str
deriving DecidableEq, Repr, Inhabited

/-- `reserved_identifiers: &["_", "ans"]` -/
def reservedIdentifiers : List Str := [[95], [97, 110, 115]]

/-- `struct PrefixParser`: `units` is the `IndexMap` in insertion order, `others` the key set of
`other_identifiers` -/
structure PrefixParser where
  units : List (Str × UnitInfo)
  others : List Str
deriving Repr, Inhabited

/-- `PrefixParser::new()` -/
def PrefixParser.new : PrefixParser := ⟨[], []⟩

/-- `IndexMap::get` -/
def getUnit : List (Str × UnitInfo) → Str → Option UnitInfo
  | [], _ => none
  | (k, v) :: rest, s => if k = s then some v else getUnit rest s

/-- `IndexMap::insert`: an existing key keeps its position and gets the new value, a new key is appended -/
def insertUnit : List (Str × UnitInfo) → Str → UnitInfo → List (Str × UnitInfo)
  | [], k, v => [(k, v)]
  | (k', v') :: rest, k, v => if k' = k then (k, v) :: rest else (k', v') :: insertUnit rest k v

/-- `HashMap::insert` on the key set -/
def insertOther (others : List Str) (s : Str) : List Str :=
  if others.contains s then others else s :: others

inductive ParseResult where
  /-- `PrefixParserResult::Identifier` -/
  | identifier (s : Str)
  /-- `PrefixParserResult::UnitIdentifier(span, prefix, unit name in source, full unit name)` -/
  | unit (p : Prefix) (alias : Str) (fullName : Str)
deriving DecidableEq, Repr, Inhabited

/-- `prefix.is_metric() && metric || prefix.is_binary() && binary` -/
def kindOk (info : UnitInfo) (p : Prefix) : Bool :=
  p.isMetric && info.metric || p.isBinary && info.binary

/-- `input.starts_with(p) && input[p.len()..] == unit_name` -/
def splitsAs (p : Str) (unitName input : Str) : Bool :=
  p.isPrefixOf input && decide (input.drop p.length = unitName)

/-- the two `if`s in the body of the inner loop of `parse`: does prefix row `e` match? -/
def matchEntry (info : UnitInfo) (unitName input : Str) (e : PrefixEntry) : Bool :=
  (info.accepts.long && kindOk info e.pfx && splitsAs e.long unitName input)
  || (info.accepts.short && kindOk info e.pfx && e.shorts.any (fun ps => splitsAs ps unitName input))

/-- the outer loop `for (unit_name, info) in &self.units` of `parse` -/
def parseLoop : List (Str × UnitInfo) → Str → ParseResult
  | [], input => .identifier input
  | (unitName, info) :: rest, input =>
    if !(unitName.isSuffixOf input) then parseLoop rest input
    else match prefixes.find? (matchEntry info unitName input) with
      | some e => .unit e.pfx unitName info.fullName
      | none => parseLoop rest input

/-- `PrefixParser::parse` -/
def parse (pp : PrefixParser) (input : Str) : ParseResult :=
  if pp.others.contains input then .identifier input
  else match getUnit pp.units input with
    | some info => .unit Prefix.none input info.fullName
    | none => parseLoop pp.units input

inductive NameError where
  /-- `NameResolutionError::ReservedIdentifier` -/
  | reserved
  /-- `NameResolutionError::IdentifierClash { conflicting_identifier, .. }` -/
  | clash (name : Str)
deriving DecidableEq, Repr, Inhabited

/-- `PrefixParser::ensure_name_is_available`; `none` = `Ok(())` -/
def ensureNameIsAvailable (pp : PrefixParser) (name : Str) (clashWithOthers : Bool) : Option NameError :=
  if reservedIdentifiers.contains name then some .reserved
  else if clashWithOthers && pp.others.contains name then some (.clash name)
  else match parse pp name with
    | .identifier _ => none
    | .unit _ _ _ => some (.clash name)

/-- the prefix strings tried for prefix row `e` by `add_unit` (long first, then the short spellings) -/
def acceptedStrings (info : UnitInfo) (e : PrefixEntry) : List Str :=
  if kindOk info e.pfx then
    (if info.accepts.long then [e.long] else []) ++ (if info.accepts.short then e.shorts else [])
  else []

/-- the names `add_unit` checks with `ensure_name_is_available`, in the order it checks them -/
def candidateNames (unitName : Str) (info : UnitInfo) : List Str :=
  unitName :: prefixes.flatMap (fun e => (acceptedStrings info e).map (· ++ unitName))

/-- the `?` chain: the first error, if any -/
def firstError (pp : PrefixParser) : List Str → Option NameError
  | [] => none
  | n :: rest =>
    match ensureNameIsAvailable pp n true with
    | some e => some e
    | none => firstError pp rest

/-- `PrefixParser::add_unit` -/
def addUnit (pp : PrefixParser) (unitName : Str) (info : UnitInfo) : Except NameError PrefixParser :=
  match firstError pp (candidateNames unitName info) with
  | some e => .error e
  | none => .ok { pp with units := insertUnit pp.units unitName info }

/-- `PrefixParser::add_other_identifier` -/
def addOtherIdentifier (pp : PrefixParser) (identifier : Str) : Except NameError PrefixParser :=
  match ensureNameIsAvailable pp identifier false with
  | some e => .error e
  | none => .ok { pp with others := insertOther pp.others identifier }

/-- `PrefixParser::add_shadowing_identifier` -/
def addShadowingIdentifier (pp : PrefixParser) (identifier : Str) : Except NameError PrefixParser :=
  if reservedIdentifiers.contains identifier then .error .reserved
  else .ok { pp with others := insertOther pp.others identifier }

/-! ### decorators (`decorator.rs`) and definitions (`prefix_transformer.rs`) -/

/-- one entry `(name, Option<AcceptsPrefix>, span)` of an `@aliases(...)` decorator -/
structure AliasDecl where
  name : Str
  accepts : Option AcceptsPrefix
deriving DecidableEq, Repr, Inhabited

/-- `aliases_vec[0] = ...` -/
def setHead (x : Str × AcceptsPrefix) : List (Str × AcceptsPrefix) → List (Str × AcceptsPrefix)
  | [] => [x]
  | _ :: rest => x :: rest

/-- `name_and_aliases_inner`: the name first (prefixes `only_long` unless the name is listed among its own
aliases, whose annotation then wins), then the aliases in order; `aliases` is the concatenation of all
`@aliases` decorators in source order -/
def nameAndAliases (name : Str) (aliases : List AliasDecl) : List (Str × AcceptsPrefix) :=
  aliases.foldl (fun acc d =>
    let ap := d.accepts.getD AcceptsPrefix.onlyLong
    if d.name = name then setHead (d.name, ap) acc else acc ++ [(d.name, ap)])
    [(name, AcceptsPrefix.onlyLong)]

/-- `get_canonical_unit_name`: the first alias explicitly annotated with a form that includes short
prefixes, otherwise the unit name with `only_long` -/
def canonicalName (name : Str) : List AliasDecl → Str × AcceptsPrefix
  | [] => (name, AcceptsPrefix.onlyLong)
  | d :: rest =>
    match d.accepts with
    | some ap => if ap.short then (d.name, ap) else canonicalName name rest
    | none => canonicalName name rest

/-- the loop of `Transformer::register_name_and_aliases` -/
def registerAll (metric binary : Bool) (fullName : Str) :
    PrefixParser → List (Str × AcceptsPrefix) → Except NameError PrefixParser
  | pp, [] => .ok pp
  | pp, (alias, ap) :: rest =>
    match addUnit pp alias ⟨ap, metric, binary, fullName⟩ with
    | .error e => .error e
    | .ok pp' => registerAll metric binary fullName pp' rest

/-- `Transformer::register_name_and_aliases` (prefix parser part) -/
def registerNameAndAliases (pp : PrefixParser) (name : Str) (metric binary : Bool)
    (aliases : List AliasDecl) : Except NameError PrefixParser :=
  registerAll metric binary name pp (nameAndAliases name aliases)

/-- the `for (param_span, param, _) in parameters { add_shadowing_identifier }` loop -/
def shadowAll : PrefixParser → List Str → Except NameError PrefixParser
  | pp, [] => .ok pp
  | pp, p :: rest =>
    match addShadowingIdentifier pp p with
    | .error e => .error e
    | .ok pp' => shadowAll pp' rest

/-- a definition statement as far as the prefix parser is concerned -/
inductive Def where
  /-- `unit name ...` with `@metric_prefixes` / `@binary_prefixes` / `@aliases(...)` -/
  | unit (name : Str) (metric binary : Bool) (aliases : List AliasDecl)
  /-- `let name = ...` at top level -/
  | var (name : Str)
  /-- `fn name(params...) ... where locals...`: parameters and locals shadow inside a *clone* -/
  | func (name : Str) (params : List Str)
deriving Repr, Inhabited

/-- `Transformer::transform_statement` on a definition: the new session parser or the error -/
def applyDef (pp : PrefixParser) : Def → Except NameError PrefixParser
  | .unit name metric binary aliases => registerNameAndAliases pp name metric binary aliases
  | .var name => addOtherIdentifier pp name
  | .func name params =>
    match addOtherIdentifier pp name with
    | .error e => .error e
    | .ok pp' =>
      match shadowAll pp' params with
      | .error e => .error e
      | .ok _ => .ok pp'   -- the clone with the shadowing identifiers is dropped

/-- a session: a failing definition leaves the parser unchanged (`Context::interpret` restores the
transformer it cloned before the statement) -/
def runDefs (pp : PrefixParser) : List Def → PrefixParser
  | [] => pp
  | d :: rest =>
    match applyDef pp d with
    | .ok pp' => runDefs pp' rest
    | .error _ => runDefs pp rest

/-! ### display (`unit.rs: impl Display for UnitFactor`, without the exponent) -/

/-- `CanonicalName { name, accepts_prefix }` -/
structure CanonicalName where
  name : Str
  accepts : AcceptsPrefix
deriving DecidableEq, Repr, Inhabited

/-- prefix text chosen by `canonical_name.accepts_prefix.short`, followed by the canonical name -/
def displayUnitFactor (p : Prefix) (c : CanonicalName) : Str :=
  (if c.accepts.short then p.asStringShort else p.asStringLong) ++ c.name

/-! ### the regenerated unit table (`Gen/PrefixTable.lean` has this shape) -/

/-- one unit of the session: its name, what the registry stores as canonical name, the prefix kinds it
accepts, and its aliases as registered with the prefix parser (registration order) -/
structure UnitRow where
  fullName : Str
  canon : CanonicalName
  metric : Bool
  binary : Bool
  aliases : List (Str × AcceptsPrefix)
deriving DecidableEq, Repr, Inhabited

/-- register the aliases of all rows in order (what loading the modules does to the prefix parser, unit
definitions only) -/
def registerRows : PrefixParser → List UnitRow → Except NameError PrefixParser
  | pp, [] => .ok pp
  | pp, r :: rest =>
    match registerAll r.metric r.binary r.fullName pp r.aliases with
    | .error e => .error e
    | .ok pp' => registerRows pp' rest

/-- the obligation on a row that makes its displayed prefixed forms read back: the canonical name is one
of the registered aliases, and that alias accepts the prefix form `Display` chooses -/
def UnitRow.canonReadsBack (r : UnitRow) : Bool :=
  r.aliases.any (fun a => decide (a.1 = r.canon.name) &&
    (if r.canon.accepts.short then a.2.short else a.2.long))

end NumbatModel.PrefixParser
