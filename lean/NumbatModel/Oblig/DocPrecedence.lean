import NumbatModel.Model.SyntaxRender
import NumbatModel.Gen.DocPrecedence
/-!
# Obligation: the documented operator table agrees with the model's level order

`Gen/DocPrecedence.lean` is regenerated from `book/src/basics/operations.md` on every run.  Every syntax
sample of every row is tokenized with the model's tokenizer, its operator token is looked up in the table
the reference printer `render` uses (`infixInfo`, `negLevel`, …), and the resulting sequence of levels must
be exactly the model's levels from the tightest operator level (14, `unicode_power`) down to the loosest
(0, `postfix_apply`), with adjacent rows allowed to share a level (`x / y` and `x * y`; `x - y` and `x + y`:
one left-associative level each in the BNF of parser.rs).  Editing the document (moving a row, a new
operator) or the model's table breaks this theorem.  `parse_render` (Props/C10) ties the same table to the
parser.
-/
namespace NumbatModel.Syntax

/-- level of the operator a documentation sample such as `x per y`, `-x`, `x²`, `x y` shows -/
def sampleLevel (cs : List Nat) : Option Nat :=
  match tokenize ⟨[], []⟩ (cs.map Char.ofNat) with
  | .error _ => none
  | .ok ts =>
    let kinds := (ts.map (·.kind)).filter (· != .eof)
    let ops := kinds.filter (· != .identifier)
    match ops with
    | [] => if kinds.length ≥ 2 then some imulLevel else none
    | k :: more =>
      if k == .if_ then (if more == [.then_, .else_] then some condLevel else none)
      else if !(more.all (· == k)) then none
      else if kinds.head? == some k then
        (if k == .minus || k == .plus then some negLevel
         else if k == .exclamationMark then some notLevel else none)
      else if k == .unicodeExponent then some upowLevel
      else if k == .exclamationMark then some factLevel
      else if k == .power then some powLevel
      else if k == .postfixApply then some pipeLevel
      else (infixInfo k).map (·.1)

/-- the common level of all samples of a row -/
def rowLevel (row : Nat × List (List Nat)) : Option Nat :=
  match row.2.map sampleLevel with
  | [] => none
  | l :: ls => if ls.all (· == l) then l else none

/-- drop adjacent repetitions -/
def dedupAdj : List (Option Nat) → List (Option Nat)
  | [] => []
  | [a] => [a]
  | a :: b :: rest => if a == b then dedupAdj (b :: rest) else a :: dedupAdj (b :: rest)

/-- the levels of the documented rows, top to bottom -/
def docLevels : List (Option Nat) := Gen.DocPrecedence.rows.map rowLevel

/-- The documented order of operators (high to low) is the model's order of levels 14, 13, …, 0. -/
theorem doc_precedence_order : dedupAdj docLevels = ((List.range 15).reverse.map some) := by
  decide +kernel

/-- The documentation gives implicit multiplication a tighter level than unary minus, `per` a tighter level
than `/`, and `^` a tighter level than unary minus — the examples of the property text — as read off the table. -/
theorem doc_examples :
    sampleLevel [120, 32, 121] = some 11 ∧ sampleLevel [45, 120] = some 10 ∧
    sampleLevel [120, 32, 112, 101, 114, 32, 121] = some 9 ∧ sampleLevel [120, 32, 47, 32, 121] = some 8 ∧
    sampleLevel [120, 94, 121] = some 12 := by
  decide +kernel

end NumbatModel.Syntax
