import NumbatModel.Gen.Modules
import NumbatModel.Lemmas.ModulesCheck
import NumbatModel.Props.C17
/-!
Obligations about the regenerated module table of the standard library (`Gen/Modules.lean`, rewritten from
`/repo/numbat/modules` on every run of the check).  Each `std_*B` theorem evaluates a checker of
`Lemmas/ModulesCheck.lean` in the kernel; the theorems below them turn the result into the hypotheses of
`order_independent` (`Props/C17.lean`) for *this* table.

A change of the modules that breaks one of them:
  * a `use` line names a module that does not exist                  → `std_uses_exist`
  * two modules import each other                                     → `std_acyclic`
  * two statements (in one or two modules) introduce the same name   → `std_clash_free`
  * a module loses a `use` line it needs, or uses a name before it is defined → `std_closed`
  * a generic definition uses a type parameter that is also a type name somewhere → `std_type_params`
-/
namespace NumbatModel.Oblig.Modules
open NumbatModel.Modules NumbatModel.Gen.Modules

theorem std_uses_existB : usesExistB table = true := by decide +kernel
theorem std_acyclicB : acyclicB table rank = true := by decide +kernel
theorem std_clash_freeB : clashFreeB table = true := by decide +kernel
theorem std_closure_certB : closCertB table closure = true := by decide +kernel
theorem std_closedB : closedB table closure = true := by decide +kernel
theorem std_type_params : typeParamsB table typeParams = true := by decide +kernel

/-- every `use` line in the standard library names an existing module -/
theorem std_uses_exist : UsesExist table := usesExistB_sound std_uses_existB
/-- the import graph of the standard library is acyclic -/
theorem std_acyclic : Acyclic table := acyclicB_sound std_acyclicB
/-- no name (variable, function, unit or alias, dimension, struct) is introduced twice in the standard library -/
theorem std_clash_free : ClashFree table := clashFreeB_sound std_clash_freeB
/-- every name used by a statement of a standard-library module is introduced earlier in that module or by a
module in the import closure of a `use` line that precedes the statement -/
theorem std_closed : Closed table :=
  closedB_sound std_uses_exist (closCertB_sound std_uses_exist std_acyclic std_closure_certB) std_closedB

/-- **The standard library composes in any order** (as far as the module table says): any two lists of root
imports of existing modules that cover the same import closure resolve to the same statements up to order and,
for every meaning of the definitions, to the same environment. -/
theorem std_order_independent {V : Type} (roots1 roots2 : List Nat)
    (hex1 : ∀ r ∈ roots1, body table r ≠ none) (hex2 : ∀ r ∈ roots2, body table r ≠ none)
    (hclos : ∀ m, (∃ r ∈ roots1, Reach table r m) ↔ (∃ r ∈ roots2, Reach table r m)) (sem : Sem V) :
    ∃ imp1 tr1 imp2 tr2 env1 env2,
      resolve table [] (roots1.map .use) = (imp1, .ok tr1) ∧
      resolve table [] (roots2.map .use) = (imp2, .ok tr2) ∧
      (∀ m, m ∈ imp1 ↔ m ∈ imp2) ∧
      (stmts tr1).Perm (stmts tr2) ∧
      evalStmts sem [] tr1 = .ok env1 ∧ evalStmts sem [] tr2 = .ok env2 ∧
      ∀ n, env1.lookup n = env2.lookup n :=
  order_independent table std_uses_exist std_acyclic std_closed std_clash_free roots1 roots2 hex1 hex2 hclos sem

/-- in particular every single module, and every list of modules, imports successfully into a fresh session -/
theorem std_imports_succeed (roots : List Nat) (hex : ∀ r ∈ roots, body table r ≠ none) :
    ∃ imp tr, resolve table [] (roots.map .use) = (imp, .ok tr) :=
  resolve_ok std_uses_exist [] _ (by rw [usesOf_map_use]; exact hex)

end NumbatModel.Oblig.Modules
