import NumbatModel.Gen.Examples
/-! C24 — obligations about the regenerated `@example` table (`Gen/Examples.lean`).

These are deliberately small and honest.  They do **not** say that any example runs (that is established by
executing every example on the real interpreter, see `harness/src/bin/c24.rs`); they say that the table the
execution is reported against is well-formed and that the *exemption* of an example is exactly the stated
rule, so that the harness cannot silently exempt more than "mentions a function that reads the process
environment". -/
namespace NumbatModel.Oblig.Examples
open NumbatModel.Examples NumbatModel.Gen.Examples

/-- the table is not empty and has the advertised size -/
theorem table_size : rows.length = count ∧ 0 < count := by decide +kernel

/-- every row is a different documented snippet: (module, function, index) is a key -/
theorem keys_nodup : (rows.map Row.key).Nodup := by decide +kernel

/-- a row is marked exempt in the table (by the harness) iff the exemption rule of `Model/Examples.lean`
    says so: it mentions one of `envFns` as an identifier token outside string literals -/
theorem exempt_by_rule : rows.all (fun r => r.exempt == isExempt envFns r.text) = true := by decide +kernel

/-- no function name or example text is empty -/
theorem rows_nonempty : rows.all (fun r => !r.function.isEmpty && !r.text.isEmpty) = true := by decide +kernel

/-- general facts about the rule (for all texts): with no environment-dependent function nothing is exempt -/
theorem nothing_exempt_without_env_functions (text : Str) : isExempt [] text = false := by
  simp [isExempt]

/-- the rule is monotone in the set of environment-dependent functions -/
theorem exempt_mono (fs gs : List Str) (text : Str) (h : ∀ f, f ∈ fs → f ∈ gs)
    (he : isExempt fs text = true) : isExempt gs text = true := by
  simp only [isExempt, List.any_eq_true, List.contains_iff_mem] at *
  obtain ⟨t, ht, hf⟩ := he
  exact ⟨t, ht, h t hf⟩

/-- non-vacuity: the rule does exempt `tail(args())` when `args` is environment-dependent and does not
    exempt a mention inside a string literal -/
example : isExempt [[97,114,103,115]] [116,97,105,108,40,97,114,103,115,40,41,41] = true := by decide
example : isExempt [[97,114,103,115]] [34,97,114,103,115,34] = false := by decide

end NumbatModel.Oblig.Examples
