import NumbatModel.Oblig.UnitTable
import NumbatModel.Props.C05
/-!
`simplify_total` instantiated at the regenerated prelude table (read in ℝ): its hypotheses — definitions refer to
earlier rows only, rows have distinct names — are the kernel-checked obligations `preludeTable_wf` and
`preludeTable_names`, so for the units of the prelude the `unwrap` of heuristic 3 of `full_simplify` cannot fail.
-/
namespace NumbatModel.Qty

theorem prelude_simplify_total (q : Quantity ℝ) : ∃ r, fullSimplify preludeTable q = some r :=
  simplify_total preludeTable preludeTable_wf preludeTable_names q

theorem prelude_simplifyReg_total (reg : List RegRow) (q : Quantity ℝ) : ∃ r, fullSimplifyReg preludeTable reg q = some r :=
  simplifyReg_total preludeTable preludeTable_wf preludeTable_names reg q

end NumbatModel.Qty
