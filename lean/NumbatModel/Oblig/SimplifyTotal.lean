import NumbatModel.Oblig.UnitTable
import NumbatModel.Props.C05
/-!
`simplify_total` instantiated at the regenerated prelude table (read in ℝ): its hypotheses — definitions refer to
earlier rows only, rows have distinct names — are the kernel-checked obligations `preludeTable_wf` and
`preludeTable_names`, so for the units of the prelude the `unwrap` of heuristic 3 of `full_simplify` cannot fail.
-/
namespace NumbatModel.Qty

theorem prelude_simplify_total (q : Quantity ℝ) : ∃ r, fullSimplify preludeTable q = some r :=
  simplify_total preludeTable preludeTable_wf preludeTable_names q

theorem prelude_simplifyReg_total (reg : List RegRow) (q : Quantity ℝ) : ∃ r, fullSimplifyReg preludeTable reg q = some r :=
  simplifyReg_total preludeTable preludeTable_wf preludeTable_names reg q

/-- for the units of the prelude: a displayed (simplified) result converts back to the unit of the unsimplified
computation, and that gives the unsimplified magnitude -/
theorem prelude_simplify_convert_back (q r : Quantity ℝ) (h : fullSimplify preludeTable q = some r) :
    ∃ q', convertTo preludeTable r q.unit = .ok q' ∧ q'.value = q.value ∧ q'.unit = q.unit :=
  simplify_convert_back preludeTable preludeTable_pos preludeTable_wf preludeTable_names q r h

theorem prelude_simplifyReg_convert_back (reg : List RegRow) (q r : Quantity ℝ)
    (h : fullSimplifyReg preludeTable reg q = some r) :
    ∃ q', convertTo preludeTable r q.unit = .ok q' ∧ q'.value = q.value ∧ q'.unit = q.unit :=
  simplifyReg_convert_back preludeTable preludeTable_pos preludeTable_wf preludeTable_names reg q r h

theorem prelude_simplifyReg_dim (reg : List RegRow) (q r : Quantity ℝ)
    (h : fullSimplifyReg preludeTable reg q = some r) :
    q.isZero = true ∨ ∀ b, unitVec preludeTable r.unit b = unitVec preludeTable q.unit b :=
  simplifyReg_dim preludeTable preludeTable_pos preludeTable_wf preludeTable_names reg q r h

end NumbatModel.Qty
