import NumbatModel.Props.C13
import NumbatModel.Gen.PrefixTable
/-!
Obligations over the regenerated table `Gen/PrefixTable.lean` (re-extracted from the crate built from `/repo` on
every run; session `use all`, a superset of `use prelude`).  All checks are linear in the table and evaluated by the
kernel (`decide +kernel`); none uses `native_decide`.

* `gen_prefix_rows_match`, `gen_prefix_texts_match`: the crate's `PrefixParser::prefixes()` and what
  `Prefix::as_string_short/long` print for its rows are the model's tables.
* `gen_canon_reads_back`: for every unit of the standard library the canonical name the registry stores is one of
  the unit's registered aliases and that alias accepts the prefix form `Display for UnitFactor` chooses — the premise
  of `print_reads_back`.
* `gen_print_reads_back`: hence, in the parser obtained by registering the table, the displayed form of every
  standard-library unit with every prefix of a kind it accepts parses back to that prefix and unit.  The hypothesis
  `registerRows PrefixParser.new unitRows = .ok pp` (the table is accepted by the model's `addUnit`, call by call) is
  established on every run by executing the compiled model side by side with the real `add_unit` (driver lines
  `unit …` all answer `ok`); it is too large for kernel evaluation.
-/
namespace NumbatModel.Oblig.PrefixTable
open NumbatModel.PrefixParser NumbatModel.Gen.PrefixTable

/-- the crate's prefix table is the model's -/
theorem gen_prefix_rows_match : prefixRows = prefixes := by decide +kernel

/-- `as_string_short` / `as_string_long` of the crate print what the model prints, for every row -/
theorem gen_prefix_texts_match :
    prefixTexts = prefixes.map (fun e => (e.pfx.asStringShort, e.pfx.asStringLong)) := by decide +kernel

theorem gen_canon_reads_back_chunks : (unitChunks.all fun ch => ch.all UnitRow.canonReadsBack) = true := by
  decide +kernel

/-- every unit's canonical name is a registered alias that accepts the displayed prefix form -/
theorem gen_canon_reads_back : ∀ r ∈ unitRows, r.canonReadsBack = true := by
  intro r hr
  unfold unitRows at hr
  obtain ⟨ch, hch, hr⟩ := List.mem_flatten.mp hr
  have h := gen_canon_reads_back_chunks
  rw [List.all_eq_true] at h
  have h1 := h ch hch
  rw [List.all_eq_true] at h1
  exact h1 r hr

/-- the displayed form of every standard-library unit, bare and with every prefix of a kind it accepts, reads back
as the same prefix and unit -/
theorem gen_print_reads_back {pp : PrefixParser} (h : registerRows PrefixParser.new unitRows = .ok pp) :
    ∀ r ∈ unitRows,
      parse pp (displayUnitFactor Prefix.none r.canon) = .unit Prefix.none r.canon.name r.fullName ∧
      ∀ e ∈ prefixes, (e.pfx.isMetric && r.metric || e.pfx.isBinary && r.binary) = true →
        parse pp (displayUnitFactor e.pfx r.canon) = .unit e.pfx r.canon.name r.fullName :=
  fun r hr => table_print_reads_back h r hr (gen_canon_reads_back r hr)

/-- the invariant holds for the parser obtained from the standard-library table -/
theorem gen_table_invariant {pp : PrefixParser} (h : registerRows PrefixParser.new unitRows = .ok pp) :
    Unambiguous pp ∧ Disjoint pp := table_invariant h

end NumbatModel.Oblig.PrefixTable
