import NumbatModel.Gen.UnitTable
import NumbatModel.Lemmas.QtyTable
import NumbatModel.Inst.Real
/-!
Obligations over the regenerated unit table of the prelude (`Gen/UnitTable.lean`, rewritten from /repo on
every run): definitions are well-founded, every conversion factor is a positive finite binary64 — checked by
the kernel on the plain data — hence the hypotheses `WF` and `PosTbl` of the theorems of C03, C04, C05, C11,
C12, C21 hold for the prelude's table read in ℝ.
-/
namespace NumbatModel.Qty
open NumbatModel.Gen

theorem unitRows_names : unitNames.length = unitRows.length := by decide +kernel

theorem unitNames_nodup : unitNames.Nodup := by decide +kernel

theorem unitRows_wf : wfCheck unitRows = true := by decide +kernel

theorem unitRows_pos : posCheck unitRows = true := by decide +kernel

/-- value of a positive finite binary64 bit pattern as a real number -/
noncomputable def decodeReal (b : Nat) : ℝ :=
  let e : Nat := b / 2 ^ 52
  let m : Nat := b % 2 ^ 52
  if e = 0 then (m : ℝ) * (2 : ℝ) ^ (-1074 : Int)
  else ((2 ^ 52 + m : Nat) : ℝ) * (2 : ℝ) ^ ((e : Int) - 1075)

theorem decodeReal_pos (b : Nat) (h : posBits b = true) : LawfulNum.Pos (decodeReal b) := by
  show 0 < decodeReal b
  unfold decodeReal
  simp only
  have hb : 0 < b := by
    simp only [posBits, Bool.and_eq_true, decide_eq_true_eq] at h; exact h.1
  split
  · rename_i he
    have hm : 0 < b % 2 ^ 52 := by
      have : b = 2 ^ 52 * (b / 2 ^ 52) + b % 2 ^ 52 := (Nat.div_add_mod b (2 ^ 52)).symm
      rw [he] at this
      omega
    apply mul_pos
    · exact_mod_cast hm
    · exact zpow_pos (by norm_num) _
  · apply mul_pos
    · have : 0 < 2 ^ 52 + b % 2 ^ 52 := by positivity
      exact_mod_cast this
    · exact zpow_pos (by norm_num) _

/-- the prelude's unit table, conversion factors read as real numbers -/
noncomputable def preludeTable : Table ℝ := toTable decodeReal unitNames unitRows

/-- the hypotheses of the quantity theorems hold for the prelude -/
theorem preludeTable_wf : WF preludeTable := wf_of_check decodeReal unitNames unitRows unitRows_wf

theorem preludeTable_pos : PosTbl preludeTable :=
  pos_of_check decodeReal decodeReal_pos unitNames unitRows unitRows_pos

theorem preludeTable_names : NamesDistinct preludeTable :=
  names_distinct_of_nodup decodeReal unitNames unitRows unitNames_nodup

/-- same-dimension conversions succeed in the prelude (hypothesis `ConvComplete` of C01's `soundness_partial`) -/
theorem preludeTable_convComplete : ConvComplete preludeTable := convComplete preludeTable preludeTable_names

end NumbatModel.Qty
