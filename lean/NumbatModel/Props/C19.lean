import NumbatModel.Model.Time
import NumbatModel.Lemmas.Time
/-! C19 — date and time arithmetic is consistent: theorems about `Model/Time.lean`.

All theorems quantify over every numeric instance `ops : DurOps α` (hence hold for the `Float` instance the
driver executes and for the exact instance `ratOps`), every zone type `ζ`, every instant and every duration.
What is *not* proved here: anything about jiff's calendar, time-zone database, parsing or formatting (an assumed
external contract, exercised by the harness only), and nothing about IEEE rounding inside `floatOps`
(`roundNs_nearest` is stated for the exact instance). -/
namespace NumbatModel.Time

variable {α ζ : Type}

/-! ### the property theorems -/

/-- `(t + d) - d` is `t` **exactly** (same instant, same zone), whenever `t` is a valid date-time and `t + d`
    succeeds: addition and subtraction use the same nanosecond offset. -/
theorem add_then_sub (ops : DurOps α) (t t' : Zoned ζ) (d : α) (ht : t.valid)
    (h : addDur ops t d = .ok t') : subDur ops t' d = .ok t := by
  unfold addDur at h
  unfold subDur
  cases hs : spanOf ops d with
  | error e => simp [hs] at h
  | ok sp =>
    simp only [hs] at h ⊢
    obtain ⟨hi, hz, _⟩ := addSpan_ok h
    have hr : inRange (t'.instant + -sp.toNs) = true := by
      have : t'.instant + -sp.toNs = t.instant := by omega
      rw [this]; exact ht
    rw [addSpan_of_inRange _ _ hr]
    congr 1
    cases t; cases t'
    simp_all
    omega

/-- the other order: `(t - d) + d` is `t` exactly -/
theorem sub_then_add (ops : DurOps α) (t t' : Zoned ζ) (d : α) (ht : t.valid)
    (h : subDur ops t d = .ok t') : addDur ops t' d = .ok t := by
  unfold subDur at h
  unfold addDur
  cases hs : spanOf ops d with
  | error e => simp [hs] at h
  | ok sp =>
    simp only [hs] at h ⊢
    obtain ⟨hi, hz, _⟩ := addSpan_ok h
    have hr : inRange (t'.instant + sp.toNs) = true := by
      have : t'.instant + sp.toNs = t.instant := by omega
      rw [this]; exact ht
    rw [addSpan_of_inRange _ _ hr]
    congr 1
    cases t; cases t'
    simp_all
    omega

/-- `(t + d) - t` is `d` rounded to nanoseconds: the instants differ by exactly `roundNs d`, and the value the
    VM returns is `secondsOfNs (roundNs d)`. -/
theorem add_then_diff (ops : DurOps α) (t t' : Zoned ζ) (d : α) (h : addDur ops t d = .ok t') :
    ∃ n, roundNs ops d = some n ∧ diffNs t' t = n ∧ diff ops t' t = ops.secondsOfNs n := by
  unfold addDur at h
  cases hs : spanOf ops d with
  | error e => simp [hs] at h
  | ok sp =>
    simp only [hs] at h
    obtain ⟨hi, _, _⟩ := addSpan_ok h
    refine ⟨sp.toNs, by simp [roundNs, hs], ?_, ?_⟩
    · unfold diffNs; omega
    · unfold diff diffNs
      have : t'.instant - t.instant = sp.toNs := by omega
      rw [this]

/-- `t - (t - d)` is `d` rounded to nanoseconds -/
theorem sub_then_diff (ops : DurOps α) (t t' : Zoned ζ) (d : α) (h : subDur ops t d = .ok t') :
    ∃ n, roundNs ops d = some n ∧ diffNs t t' = n := by
  unfold subDur at h
  cases hs : spanOf ops d with
  | error e => simp [hs] at h
  | ok sp =>
    simp only [hs] at h
    obtain ⟨hi, _, _⟩ := addSpan_ok h
    exact ⟨sp.toNs, by simp [roundNs, hs], by unfold diffNs; omega⟩

/-- converting to another time zone does not change the instant; it sets exactly the zone; the difference to the
    original is zero; and arithmetic commutes with it -/
theorem tz_same_instant (t : Zoned ζ) (z : ζ) :
    (withTimeZone t z).instant = t.instant ∧ (withTimeZone t z).zone = z ∧ diffNs (withTimeZone t z) t = 0 := by
  simp [withTimeZone, diffNs]

theorem tz_commutes_with_add (ops : DurOps α) (t t' : Zoned ζ) (z : ζ) (d : α) (h : addDur ops t d = .ok t') :
    addDur ops (withTimeZone t z) d = .ok (withTimeZone t' z) := by
  unfold addDur at h ⊢
  cases hs : spanOf ops d with
  | error e => simp [hs] at h
  | ok sp =>
    simp only [hs] at h ⊢
    obtain ⟨hi, hz, hr⟩ := addSpan_ok h
    unfold addSpan
    have : inRange ((withTimeZone t z).instant + sp.toNs) = true := by
      simp only [withTimeZone]; rw [← hi]; exact hr
    simp only [this, if_true]
    simp only [withTimeZone]
    congr 1
    cases t; cases t'
    simp_all

/-- out-of-range operations fail with an error, never with a wrapped or clamped date: `t + d` succeeds **iff**
    the duration is representable and the exact sum lies in the supported range, and then the result is that
    exact sum in the same zone -/
theorem out_of_range_is_error (ops : DurOps α) (t : Zoned ζ) (d : α) :
    (∀ t', addDur ops t d = .ok t' →
        ∃ n, roundNs ops d = some n ∧ t'.instant = t.instant + n ∧ t'.zone = t.zone ∧
          instantMin ≤ t'.instant ∧ t'.instant ≤ instantMax) ∧
    (roundNs ops d = none → addDur ops t d = .error .durationOutOfRange) ∧
    (∀ n, roundNs ops d = some n → (t.instant + n < instantMin ∨ instantMax < t.instant + n) →
        addDur ops t d = .error .dateTimeOutOfRange) := by
  refine ⟨?_, ?_, ?_⟩
  · intro t' h
    unfold addDur at h
    cases hs : spanOf ops d with
    | error e => simp [hs] at h
    | ok sp =>
      simp only [hs] at h
      obtain ⟨hi, hz, hr⟩ := addSpan_ok h
      refine ⟨sp.toNs, by simp [roundNs, hs], hi, hz, ?_⟩
      simp only [inRange, Bool.and_eq_true, decide_eq_true_eq] at hr
      exact hr
  · intro h
    unfold addDur
    cases hs : spanOf ops d with
    | ok sp => simp [roundNs, hs] at h
    | error e =>
      -- the only error `spanOf` produces is `durationOutOfRange`
      have : e = .durationOutOfRange := by
        unfold spanOf at hs
        split at hs
        · cases hs; rfl
        · split at hs
          · cases hs; rfl
          · cases hs
      simp [this]
  · intro n h hout
    unfold addDur
    cases hs : spanOf ops d with
    | error e => simp [roundNs, hs] at h
    | ok sp =>
      simp only [roundNs, hs, Option.some.injEq] at h
      subst h
      simp only [addSpan]
      have : inRange (t.instant + sp.toNs) = false := by
        simp only [inRange, Bool.and_eq_false_iff, decide_eq_false_iff_not]
        omega
      simp [this]

/-- the same for subtraction -/
theorem out_of_range_is_error_sub (ops : DurOps α) (t : Zoned ζ) (d : α) :
    (∀ t', subDur ops t d = .ok t' →
        ∃ n, roundNs ops d = some n ∧ t'.instant = t.instant - n ∧ t'.zone = t.zone ∧
          instantMin ≤ t'.instant ∧ t'.instant ≤ instantMax) ∧
    (∀ n, roundNs ops d = some n → (t.instant - n < instantMin ∨ instantMax < t.instant - n) →
        subDur ops t d = .error .dateTimeOutOfRange) := by
  refine ⟨?_, ?_⟩
  · intro t' h
    unfold subDur at h
    cases hs : spanOf ops d with
    | error e => simp [hs] at h
    | ok sp =>
      simp only [hs] at h
      obtain ⟨hi, hz, hr⟩ := addSpan_ok h
      refine ⟨sp.toNs, by simp [roundNs, hs], by omega, hz, ?_⟩
      simp only [inRange, Bool.and_eq_true, decide_eq_true_eq] at hr
      exact hr
  · intro n h hout
    unfold subDur
    cases hs : spanOf ops d with
    | error e => simp [roundNs, hs] at h
    | ok sp =>
      simp only [roundNs, hs, Option.some.injEq] at h
      subst h
      simp only [addSpan]
      have : inRange (t.instant + -sp.toNs) = false := by
        simp only [inRange, Bool.and_eq_false_iff, decide_eq_false_iff_not]
        omega
      simp [this]

/-- a representable duration whose exact sum is in range always succeeds (no spurious errors) -/
theorem in_range_succeeds (ops : DurOps α) (t : Zoned ζ) (d : α) (n : Int) (h : roundNs ops d = some n)
    (hlo : instantMin ≤ t.instant + n) (hhi : t.instant + n ≤ instantMax) :
    addDur ops t d = .ok { t with instant := t.instant + n } := by
  unfold addDur
  cases hs : spanOf ops d with
  | error e => simp [roundNs, hs] at h
  | ok sp =>
    simp only [roundNs, hs, Option.some.injEq] at h
    subst h
    apply addSpan_of_inRange
    simp only [inRange, Bool.and_eq_true, decide_eq_true_eq]
    exact ⟨hlo, hhi⟩

/-- what the offset is when whole seconds and nanosecond part do not have opposite signs (true of
    `trunc`/`fract` of one number): `s · 10⁹ + n` — jiff's single-sign span does not distort it -/
theorem roundNs_eq (ops : DurOps α) (d : α) (s : Int) (hs : ops.toI64 d = some s)
    (hr : -spanSecMax ≤ s ∧ s ≤ spanSecMax)
    (hsign : (0 ≤ s ∧ 0 ≤ ops.fractNs d) ∨ (s ≤ 0 ∧ ops.fractNs d ≤ 0)) :
    roundNs ops d = some (s * nsPerSec + ops.fractNs d) := by
  have hnot : ¬(s < -spanSecMax ∨ spanSecMax < s) := by omega
  simp only [roundNs, spanOf, hs, Bool.or_eq_true, decide_eq_true_eq, hnot, if_false]
  congr 1
  generalize ops.fractNs d = n at hsign
  simp only [Span.toNs, Span.setNanos, Span.setSeconds, Span.resign, Span.zero, Span.isZero, nsPerSec]
  rcases hsign with ⟨h1, h2⟩ | ⟨h1, h2⟩
  · by_cases hs0 : s = 0 <;> by_cases hn0 : n = 0
    · subst hs0; subst hn0; simp
    · subst hs0
      have : ¬ n < 0 := by omega
      have hpos : n > 0 := by omega
      simp [this, hn0, hpos]
      omega
    · subst hn0
      have : ¬ s < 0 := by omega
      have hpos : s > 0 := by omega
      have hne : s.natAbs ≠ 0 := by omega
      simp [this, hs0, hpos, hne]
      omega
    · have : ¬ s < 0 := by omega
      have hpos : s > 0 := by omega
      have : ¬ n < 0 := by omega
      have hne : s.natAbs ≠ 0 := by omega
      simp [*]
      omega
  · by_cases hs0 : s = 0 <;> by_cases hn0 : n = 0
    · subst hs0; subst hn0; simp
    · subst hs0
      have : n < 0 := by omega
      simp [this]
      omega
    · subst hn0
      have hneg : s < 0 := by omega
      have hne : s.natAbs ≠ 0 := by omega
      simp [hneg, hne]
      omega
    · have hneg : s < 0 := by omega
      have : n < 0 := by omega
      simp [*]
      omega

/-! ### "rounded to nanoseconds" on the exact instance -/

/-- on the exact instance (`ratOps`: rational numbers, truncation, round-half-away) the offset the VM computes
    is a nearest nanosecond of `d`: it differs from `d · 10⁹` by at most one half, for every duration within
    jiff's span limit.  (For `floatOps` the same computation carries IEEE rounding of `fract * 1e9`, below
    1.2·10⁻⁷ ns; that gap is outside the theorem and is what the harness tolerance `0.5 + 1e-6` covers.) -/
theorem roundNs_nearest (q : Rat) (hlo : -(631107417600 : Rat) ≤ q) (hhi : q ≤ 631107417600) :
    ∃ n, roundNs ratOps q = some n ∧
      -(1/2 : Rat) ≤ (n : Rat) - q * 1000000000 ∧ (n : Rat) - q * 1000000000 ≤ 1/2 := by
  have hT := rtrunc_props q
  have hR := rround_near ((q - rtrunc q) * 1000000000)
  have hS := rround_sign ((q - rtrunc q) * 1000000000)
  -- bounds on the truncated seconds
  have hb : -spanSecMax ≤ rtrunc q ∧ rtrunc q ≤ spanSecMax := by
    unfold spanSecMax
    constructor
    · rw [← Rat.intCast_le_intCast]
      by_cases h : q < 0
      · have := (hT.2 h); simp only [Rat.intCast_neg, Rat.intCast_ofNat]; grind
      · have := (hT.1 (by grind)); simp only [Rat.intCast_neg, Rat.intCast_ofNat]
        have h0 : (0:Rat) ≤ (rtrunc q : Rat) := by
          have := this.1; rw [← Rat.intCast_le_intCast] at this; simpa using this
        grind
    · rw [← Rat.intCast_le_intCast]
      by_cases h : q < 0
      · have := (hT.2 h)
        have h0 : (rtrunc q : Rat) ≤ 0 := by
          have := this.1; rw [← Rat.intCast_le_intCast] at this; simpa using this
        simp only [Rat.intCast_ofNat]; grind
      · have := (hT.1 (by grind)); simp only [Rat.intCast_ofNat]; grind
  have hto : ratOps.toI64 q = some (rtrunc q) := by
    simp only [ratOps]
    have : -9223372036854775808 ≤ q ∧ q < 9223372036854775808 := by constructor <;> grind
    simp [this]
  have hfr : ratOps.fractNs q = rround ((q - rtrunc q) * 1000000000) := rfl
  have hsign : (0 ≤ rtrunc q ∧ 0 ≤ ratOps.fractNs q) ∨ (rtrunc q ≤ 0 ∧ ratOps.fractNs q ≤ 0) := by
    rw [hfr]
    by_cases h : q < 0
    · right
      have := hT.2 h
      exact ⟨this.1, hS.2 (by grind)⟩
    · left
      have := hT.1 (by grind)
      exact ⟨this.1, hS.1 (by grind)⟩
  refine ⟨_, roundNs_eq ratOps q (rtrunc q) hto hb hsign, ?_⟩
  rw [hfr]
  simp only [nsPerSec, Rat.intCast_add, Rat.intCast_mul, Rat.intCast_ofNat]
  constructor <;> grind

/-! ### non-vacuity: a concrete in-range instance (on the exact instance; `Float` does not reduce in the kernel —
the `Float` instance is exercised by the driver) -/

/-- 2021-03-04T05:06:07.123456789Z plus 2.5000000004 s: succeeds, lands 2 500 000 000 ns later -/
example : (addDur ratOps (⟨1614834367123456789, 7⟩ : Zoned Nat) (25000000004 / 10000000000)).toOption.map (·.instant)
    = some 1614834369623456789 := by decide +kernel
example : Zoned.valid (⟨1614834367123456789, 7⟩ : Zoned Nat) := by unfold Zoned.valid; decide +kernel
/-- and an out-of-range one fails -/
example : (match addDur ratOps (⟨instantMax, 7⟩ : Zoned Nat) (1 / 1000000000) with
    | .error .dateTimeOutOfRange => true | _ => false) = true := by decide +kernel
example : (match addDur ratOps (⟨0, 7⟩ : Zoned Nat) 631107417601 with
    | .error .durationOutOfRange => true | _ => false) = true := by decide +kernel

end NumbatModel.Time
