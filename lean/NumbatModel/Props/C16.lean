import NumbatModel.Lemmas.Elab
/-!
# C16 — inferred function signatures are valid, principal annotations

The scheme numbat *prints* for an unannotated function differs from the scheme it *stores* for calls in one
way: `check_statement` multiplies every exponent of each free dimension variable by the least common multiple
of the denominators with which the variable occurs in the typed statement (`T0^(1/3) → T0^(1/5) → T0` is printed
as `T0^5 → T0^3 → T0^15`), and it does so on the statement only.  The theorems say that this normalisation
never changes the set of instances of the signature, hence neither which calls are accepted nor their result
dimension.  Soundness and principality of the inferred scheme itself are the C02 theorems
(`solve_sound`, `solve_principal`), which this file's statements build on through `Lemmas/Types.lean`.

`Val`, `tyVal`, `comp` are the semantics of `Lemmas/Types.lean`; `lcmSubst`, `applyTys` are the definitions
the driver `drv_c16` executes (`Model/Types.lean`, `Model/Elab.lean`).
-/
namespace NumbatModel.Types

/-- **Exponent normalisation gives the same scheme.**  Let `ts` be the parameter types and the return type
of a function (dimension fragment), `tv` a quantified dimension variable and `es` any list of exponents
(the ones `exponents_for` collected).  Applying `lcmSubst tv es` — i.e. `tv := tv^l` with `l` the least common
multiple of the denominators, or nothing if `l = 1` — succeeds, and the tuples of dimensions the types can
denote are exactly the same before and after: every instance of the old signature is an instance of the new
one (`θ' = θ` with `θ tv` divided by `l`) and vice versa (`θ = θ' ∘ s`). -/
theorem lcm_normalise_same_scheme (tv : TV) (es : List Rat) (ts : List Ty)
    (hts : ∀ t ∈ ts, t.isTD = true) :
    ∃ ts', applyTys (lcmSubst tv es) ts = some ts' ∧
      (∀ θ : Val, ∃ θ' : Val, ts'.map (tyVal θ') = ts.map (tyVal θ)) ∧
      (∀ θ' : Val, ∃ θ : Val, ts.map (tyVal θ) = ts'.map (tyVal θ')) := by
  obtain ⟨ts', h, _, hv⟩ := applyTys_comp (lcmSubst_dimOnly tv es) ts hts
  refine ⟨ts', h, fun θ => ?_, fun θ' => ?_⟩
  · refine ⟨unscale θ tv (if lcmDen es = 1 then 1 else (lcmDen es : Rat)), ?_⟩
    rw [hv, comp_lcmSubst_unscale]
  · exact ⟨comp θ' (lcmSubst tv es), (hv θ').symm⟩

/-- non-vacuity: for exponents `1/3` and `1/5` the normalisation really substitutes (`l = 15`) -/
example : (lcmSubst (.quant 0) [⟨1, 3, by decide, by decide⟩, ⟨1, 5, by decide, by decide⟩]).length = 1 := by
  decide

/-- **Scaling by any non-zero integer gives the same instance set** (the general fact behind the previous
theorem: exponents are rational, so `tv ↦ tv^k` is a bijection on valuations). -/
theorem scale_variable_same_instances (tv : TV) (k : Int) (hk : k ≠ 0) (ts : List Ty)
    (hts : ∀ t ∈ ts, t.isTD = true) :
    let s : Subst := [(tv, .dim (dpow (dOfTVar tv) (k : Rat)))]
    ∃ ts', applyTys s ts = some ts' ∧
      (∀ θ : Val, ∃ θ' : Val, ts'.map (tyVal θ') = ts.map (tyVal θ)) ∧
      (∀ θ' : Val, ∃ θ : Val, ts.map (tyVal θ) = ts'.map (tyVal θ')) := by
  intro s
  have hs : s.dimOnly = true := by simp [s, Subst.dimOnly, Ty.isTD]
  obtain ⟨ts', h, _, hv⟩ := applyTys_comp hs ts hts
  refine ⟨ts', h, fun θ => ?_, fun θ' => ⟨comp θ' s, (hv θ').symm⟩⟩
  refine ⟨unscale θ tv (k : Rat), ?_⟩
  rw [hv]
  congr 1
  have hk' : (k : Rat) ≠ 0 := by exact_mod_cast hk
  funext t
  congr 1
  funext w a
  simp only [comp, s, Subst.lookup, List.find?_cons, List.find?_nil]
  by_cases hw : w = tv
  · subst hw
    simp only [beq_self_eq_true, tyVal, dVal, dValAt_dpow, dValAt_dOfTVar, unscale, if_true]
    grind
  · have : (tv == w) = false := by simpa using fun h => hw h.symm
    simp only [this, unscale, hw, if_false]

/-- **Calls agree** (semantic form, for the difference between the stored and the printed scheme): with
parameter types `ps` and return type `r`, a tuple of argument dimensions `args` is accepted with result
dimension `res` by the scheme numbat stores iff it is accepted with the same result by the normalised scheme
it prints.  Named `_partial` because the remaining half of `calls_agree` — that re-declaring the body with the
printed signature elaborates to this very scheme (`annotation_accepted`) — is checked on the implementation
by the harness, not proved. -/
theorem calls_agree_partial (tv : TV) (es : List Rat) (ps : List Ty) (r : Ty)
    (hps : ∀ t ∈ ps, t.isTD = true) (hr : r.isTD = true) :
    ∃ ps' r', applyTys (lcmSubst tv es) (ps ++ [r]) = some (ps' ++ [r']) ∧ ps'.length = ps.length ∧
      ∀ (args : List Vec) (res : Vec),
        (∃ θ : Val, ps.map (tyVal θ) = args ∧ tyVal θ r = res) ↔
        (∃ θ' : Val, ps'.map (tyVal θ') = args ∧ tyVal θ' r' = res) := by
  have hts : ∀ t ∈ ps ++ [r], t.isTD = true := by
    intro t ht
    rw [List.mem_append] at ht
    cases ht with
    | inl h => exact hps t h
    | inr h => simp at h; subst h; exact hr
  obtain ⟨ts', h, h1, h2⟩ := lcm_normalise_same_scheme tv es (ps ++ [r]) hts
  -- split ts' into its first |ps| elements and the last one
  have hlen : ts'.length = ps.length + 1 := by
    have := congrArg List.length (h1 (fun _ _ => 0)).choose_spec
    simpa using this
  obtain ⟨ps', r', hsplit⟩ : ∃ ps' r', ts' = ps' ++ [r'] := by
    have hne : ts' ≠ [] := by intro h0; rw [h0] at hlen; simp at hlen
    exact ⟨ts'.dropLast, ts'.getLast hne, (List.dropLast_concat_getLast hne).symm⟩
  subst hsplit
  have hl : ps'.length = ps.length := by simpa using hlen
  refine ⟨ps', r', h, hl, fun args res => ?_⟩
  have key : ∀ (θ θ' : Val), (ps' ++ [r']).map (tyVal θ') = (ps ++ [r]).map (tyVal θ) →
      (ps'.map (tyVal θ') = ps.map (tyVal θ) ∧ tyVal θ' r' = tyVal θ r) := by
    intro θ θ' hm
    simp only [List.map_append, List.map_cons, List.map_nil] at hm
    have := List.append_inj hm (by simp [hl])
    exact ⟨this.1, by simpa using this.2⟩
  constructor
  · rintro ⟨θ, ha, hres⟩
    obtain ⟨θ', hm⟩ := h1 θ
    obtain ⟨k1, k2⟩ := key θ θ' hm
    exact ⟨θ', k1.trans ha, k2.trans hres⟩
  · rintro ⟨θ', ha, hres⟩
    obtain ⟨θ, hm⟩ := h2 θ'
    obtain ⟨k1, k2⟩ := key θ θ' hm.symm
    exact ⟨θ, k1.symm.trans ha, k2.symm.trans hres⟩

end NumbatModel.Types
