import NumbatModel.Model.Crash
import NumbatModel.Props.C18
/-!
# C08 — no input crashes or hangs the interpreter  (partial)

No executable model short of the whole interpreter decides this property; the search on the implementation
(harness `c08`) carries it.  What is proved here are the small arithmetic cores behind the panics and hangs
the property text names, each with its exact boundary:

* `factorial_terminates` / `factorial_order_zero_diverges` / `order_cast_zero_iff`: the factorial loop ends
  for every order ≥ 1, never ends for order 0 on the operand 1, and `n as u16` is 0 exactly for the multiples
  of 65536 — so `1` followed by 65536 `!` panics in checked builds and hangs otherwise;
* `mulI128_safe` / `mulI128_overflow_witness`: exponent products below 2^63 in magnitude never overflow,
  `10^30 · 10^30` (the exponents of `((m/cm)^1e30)^1e30`) does;
* from C18 (`never_panics`): no reachable list operation takes a panicking branch.
-/
namespace NumbatModel.Crash

theorem order_cast_zero_iff (n : Nat) : orderCast n = 0 ↔ 65536 ∣ n := by
  unfold orderCast; exact (Nat.dvd_iff_mod_eq_zero).symm

example : orderCast 65536 = 0 ∧ orderCast 65535 = 65535 ∧ orderCast 65537 = 1 := by decide

/-- for every order ≥ 1 the loop ends within `x + 1` iterations, whatever the accumulator -/
theorem factLoop_terminates (order : Nat) (ho : 1 ≤ order) :
    ∀ (fuel x : Nat) (acc : Acc), x < fuel → ∃ a, factLoop fuel order x acc = some a := by
  intro fuel
  induction fuel with
  | zero => intro x acc h; omega
  | succ n ih =>
    intro x acc h
    simp only [factLoop]
    split
    · rename_i hc
      apply ih
      omega
    · exact ⟨acc, rfl⟩

/-- `x!…!` with `n` operators ends (with a value) whenever `n` is not a multiple of 65536 -/
theorem factorial_terminates (x n : Nat) (h : ¬ 65536 ∣ n) : ∃ a, vmFactorialChecked x n = .value a := by
  unfold vmFactorialChecked
  have ho : orderCast n ≠ 0 := fun h0 => h ((order_cast_zero_iff n).mp h0)
  simp only [ho, if_false]
  obtain ⟨a, ha⟩ := factLoop_terminates (orderCast n) (Nat.one_le_iff_ne_zero.mpr ho) (x + 1) x (.fin 1) (by omega)
  exact ⟨a, by rw [ha]⟩

/-- with order 0 and operand 1 the loop never ends: the product stays 1 and `x` stays 1 -/
theorem factorial_order_zero_diverges (fuel : Nat) : factLoop fuel 0 1 (.fin 1) = none := by
  induction fuel with
  | zero => rfl
  | succ n ih =>
    simp only [factLoop]
    have : (Acc.fin 1).mul 1 = Acc.fin 1 := by
      simp only [Acc.mul]
      have : ¬ (1 * 1 ≥ 2 ^ 1024) := by
        have : (2 : Nat) ^ 1024 > 1 := Nat.one_lt_two_pow (by omega)
        omega
      simp [this]
    simp [this, ih]

/-- in a checked build the cast to order 0 is caught by the debug assertion: a panic -/
theorem factorial_panics_iff (x n : Nat) : vmFactorialChecked x n = .panic ↔ 65536 ∣ n := by
  rw [← order_cast_zero_iff]
  unfold vmFactorialChecked
  constructor
  · intro h
    by_cases h0 : orderCast n = 0
    · exact h0
    · simp only [h0, if_false] at h
      split at h <;> cases h
  · intro h; simp [h]

theorem mulI128_safe (a b : Int) (ha : a.natAbs < 2 ^ 63) (hb : b.natAbs < 2 ^ 63) : mulI128 a b = some (a * b) := by
  unfold mulI128 i128Min i128Max
  have h : (a * b).natAbs < 2 ^ 126 := by
    rw [Int.natAbs_mul]
    calc a.natAbs * b.natAbs < 2 ^ 63 * 2 ^ 63 := Nat.mul_lt_mul'' ha hb
      _ = 2 ^ 126 := by rw [← Nat.pow_add]
  have h2 : (2 : Int) ^ 126 < 2 ^ 127 := by decide
  have h3 : ((a * b).natAbs : Int) < 2 ^ 126 := by exact_mod_cast h
  have h6 : (2 : Int) ^ 126 = 85070591730234615865843651857942052864 := by decide
  have h7 : (2 : Int) ^ 127 = 170141183460469231731687303715884105728 := by decide
  rw [h6] at h3
  rw [h7]
  have hc : -170141183460469231731687303715884105728 ≤ a * b ∧ a * b ≤ 170141183460469231731687303715884105728 - 1 := by
    constructor <;> omega
  have hc2 := hc.2
  simp [hc]
  omega

theorem mulI128_overflow_witness : mulI128 (10 ^ 30) (10 ^ 30) = none := by decide

end NumbatModel.Crash
