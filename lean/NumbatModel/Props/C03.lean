import NumbatModel.Lemmas.Qty
set_option linter.unusedSectionVars false
/-!
# C03 — quantity arithmetic agrees with dimensional analysis of unit definitions

`eval_den`: for every expression tree over numbers, units with any prefix, `+ − × ÷`, negation and
rational powers, the value the VM computes, expressed in base units, equals the value obtained by exact
arithmetic from the units' definitions (`den`).  `factor_*`: the conversion factor used everywhere is the
plain product of `(prefix factor × base factor)^exponent`, it does not depend on the order of factors or
on canonicalisation, and the base factor of a derived unit is its own factor times the conversion factor
of its defining unit (transitively) — for every well-founded unit table with positive factors.
-/
namespace NumbatModel.Qty
open NumOps LawfulNum

variable {α : Type} [NumOps α] [Lean.Grind.Field α] [L : LawfulNum α]

/-- the conversion factor of a unit is the product of `(prefix · base factor)^exponent` over its factors -/
theorem factor_product (tbl : Table α) (u : Unit) : factorOf tbl u = prodW tbl u := factorOf_eq tbl u

/-- … and does not depend on canonicalisation (sorting, merging equal factors, dropping `x^0`) -/
theorem factor_canon (tbl : Table α) (hp : PosTbl tbl) (u : Unit) :
    factorOf tbl (canon tbl u) = factorOf tbl u := by
  rw [factorOf_eq, factorOf_eq, prodW_canon tbl hp]

/-- … nor on the order in which the factors are written -/
theorem factor_perm (tbl : Table α) (u v : Unit) (h : List.Perm u v) : factorOf tbl u = factorOf tbl v := by
  rw [factorOf_eq, factorOf_eq]
  induction h with
  | nil => rfl
  | cons x _ ih => simp only [prodW, ih]
  | swap x y l => simp only [prodW]; grind
  | trans _ _ ih₁ ih₂ => rw [ih₁, ih₂]

/-- products, quotients and powers of units multiply, divide and exponentiate the conversion factors -/
theorem factor_mul (tbl : Table α) (u v : Unit) : factorOf tbl (Unit.mul u v) = factorOf tbl u * factorOf tbl v := by
  rw [factorOf_eq, factorOf_eq, factorOf_eq]; exact prodW_append tbl u v

theorem factor_div (tbl : Table α) (hp : PosTbl tbl) (u v : Unit) :
    factorOf tbl (Unit.div u v) = factorOf tbl u / factorOf tbl v := by
  rw [factorOf_eq, factorOf_eq, factorOf_eq]
  unfold Unit.div
  rw [prodW_append]
  have h := prodW_invert tbl hp v
  have hv := pos_ne_zero _ (pos_prodW tbl hp v)
  grind

theorem factor_power (tbl : Table α) (hp : PosTbl tbl) (u : Unit) (r : Rat) :
    factorOf tbl (Unit.power u r) = rpow (factorOf tbl u) r := by
  rw [factorOf_eq, factorOf_eq]; exact prodW_power tbl hp u r

/-- Evaluation agrees with exact dimensional arithmetic: the result, expressed in base units, is the
denotation of the expression. -/
theorem eval_den (tbl : Table α) (hp : PosTbl tbl) (e : QExpr α) (q : Quantity α)
    (hpow : PowOK tbl e) (h : evalQ tbl e = .ok q) : phys tbl q = den tbl e := by
  induction e generalizing q with
  | num v => simp only [evalQ] at h; cases h; simp [phys, prodW, den]; grind
  | unit f => simp only [evalQ] at h; cases h; simp [phys, prodW, den, one_eq]; grind
  | neg a ih =>
    simp only [evalQ] at h
    cases ha : evalQ tbl a with
    | error e => rw [ha] at h; cases h
    | ok x =>
      rw [ha] at h; cases h
      have := ih x hpow ha
      unfold phys at *
      simp only [Quantity.neg, den, neg_eq]
      grind
  | add a b iha ihb =>
    simp only [evalQ] at h
    cases ha : evalQ tbl a with
    | error e => rw [ha] at h; cases h
    | ok x =>
      cases hb : evalQ tbl b with
      | error e => rw [ha, hb] at h; cases h
      | ok y =>
        simp only [ha, hb] at h
        have h1 := iha x hpow.1 ha
        have h2 := ihb y hpow.2 hb
        have := add_phys_lem tbl hp x y q h
        simp only [den]; rw [this, h1, h2]
  | sub a b iha ihb =>
    simp only [evalQ] at h
    cases ha : evalQ tbl a with
    | error e => rw [ha] at h; cases h
    | ok x =>
      cases hb : evalQ tbl b with
      | error e => rw [ha, hb] at h; cases h
      | ok y =>
        simp only [ha, hb] at h
        have h1 := iha x hpow.1 ha
        have h2 := ihb y hpow.2 hb
        have := sub_phys_lem tbl hp x y q h
        simp only [den]; rw [this, h1, h2]
  | mul a b iha ihb =>
    simp only [evalQ] at h
    cases ha : evalQ tbl a with
    | error e => rw [ha] at h; cases h
    | ok x =>
      cases hb : evalQ tbl b with
      | error e => rw [ha, hb] at h; cases h
      | ok y =>
        simp only [ha, hb] at h; cases h
        have h1 := iha x hpow.1 ha
        have h2 := ihb y hpow.2 hb
        unfold phys at *
        simp only [qmul, Unit.mul, prodW_append, mul_eq, den]
        rw [← h1, ← h2]; grind
  | div a b iha ihb =>
    simp only [evalQ] at h
    cases ha : evalQ tbl a with
    | error e => rw [ha] at h; cases h
    | ok x =>
      cases hb : evalQ tbl b with
      | error e => rw [ha, hb] at h; cases h
      | ok y =>
        simp only [ha, hb] at h
        unfold checkedDiv at h
        split at h
        · cases h
        · cases h
          have h1 := iha x hpow.1 ha
          have h2 := ihb y hpow.2 hb
          unfold phys at *
          simp only [qdiv, Unit.div, prodW_append, div_eq, den]
          rw [← h1, ← h2]
          have hinv := prodW_invert tbl hp y.unit
          have hy := pos_ne_zero _ (pos_prodW tbl hp y.unit)
          grind
  | pow a r iha =>
    simp only [evalQ] at h
    cases ha : evalQ tbl a with
    | error e => rw [ha] at h; cases h
    | ok x =>
      simp only [ha] at h
      unfold checkedPower at h
      split at h
      · cases h
      · cases h
        have h1 := iha x hpow.1 ha
        unfold phys at *
        simp only [den]
        rw [prodW_power tbl hp, ← h1]
        rcases hpow.2 with ⟨n, hn⟩ | hpos
        · rw [hn, mul_rpow_int]
        · rw [mul_rpow _ _ _ (hpos x ha) (pos_prodW tbl hp x.unit)]

/-! ### the conversion factor comes from the direct definitions, transitively -/

/-- definitions only refer to earlier rows of the table -/
def WF (tbl : Table α) : Prop := ∀ (id : Nat) (d : UnitDef α), tbl[id]? = some d → ∀ f ∈ d.defn, f.unit < id

theorem base_fuel_irrelevant (tbl : Table α) (hwf : WF tbl) :
    ∀ (id fuel₁ fuel₂ : Nat), id < fuel₁ → id < fuel₂ →
      baseUnitAndFactor tbl fuel₁ id = baseUnitAndFactor tbl fuel₂ id := by
  intro id
  induction id using Nat.strongRecOn with
  | _ id ih =>
    intro fuel₁ fuel₂ h1 h2
    cases fuel₁ with
    | zero => omega
    | succ n1 =>
      cases fuel₂ with
      | zero => omega
      | succ n2 =>
        simp only [baseUnitAndFactor]
        cases hd : tbl[id]? with
        | none => rfl
        | some d =>
          simp only
          split
          · rfl
          · have : ∀ f ∈ d.defn, baseUnitAndFactor tbl n1 f.unit = baseUnitAndFactor tbl n2 f.unit := by
              intro f hf
              have hlt := hwf id d hd f hf
              exact ih f.unit hlt n1 n2 (by omega) (by omega)
            have hmap : d.defn.map (fun f =>
                (Unit.power (baseUnitAndFactor tbl n1 f.unit).1 f.exp,
                  rpow (mul (Prefix.factor f.prefix_) (baseUnitAndFactor tbl n1 f.unit).2) f.exp))
              = d.defn.map (fun f =>
                (Unit.power (baseUnitAndFactor tbl n2 f.unit).1 f.exp,
                  rpow (mul (Prefix.factor f.prefix_) (baseUnitAndFactor tbl n2 f.unit).2) f.exp)) := by
              apply List.map_congr_left
              intro f hf
              rw [this f hf]
            rw [hmap]

/-- the base factor of a base unit is 1 -/
theorem bf_base (tbl : Table α) (id : Nat) (d : UnitDef α) (hd : tbl[id]? = some d) (hb : d.isBase = true) :
    bf tbl id = one := by
  unfold bf
  have hlt : id < tbl.length := (List.getElem?_eq_some_iff.mp hd).1
  cases hl : tbl.length with
  | zero => omega
  | succ n => simp [baseUnitAndFactor, hd, hb]

/-- the base factor of a derived unit is its own factor times the conversion factor of its defining unit -/
theorem bf_derived (tbl : Table α) (hwf : WF tbl) (id : Nat) (d : UnitDef α)
    (hd : tbl[id]? = some d) (hb : d.isBase = false) :
    bf tbl id = d.factor * factorOf tbl d.defn := by
  have hlt : id < tbl.length := (List.getElem?_eq_some_iff.mp hd).1
  unfold bf
  cases hl : tbl.length with
  | zero => omega
  | succ n =>
    simp only [baseUnitAndFactor, hd, hb, Bool.false_eq_true, if_false]
    rw [mul_eq]
    congr 1
    unfold factorOf
    rw [List.map_map, hl]
    -- both sides fold the same per-factor weights; the children are evaluated with fuel n resp. n+1
    have hch : ∀ f ∈ d.defn, baseUnitAndFactor tbl n f.unit = baseUnitAndFactor tbl (n + 1) f.unit := by
      intro f hf
      have := hwf id d hd f hf
      exact base_fuel_irrelevant tbl hwf f.unit n (n + 1) (by omega) (by omega)
    have key : ∀ (l : Unit) (acc : α), (∀ f ∈ l, f ∈ d.defn) →
        (l.map ((fun (x : Unit × α) => x.2) ∘ fun f =>
            (Unit.power (baseUnitAndFactor tbl n f.unit).1 f.exp,
              rpow (mul (Prefix.factor f.prefix_) (baseUnitAndFactor tbl n f.unit).2) f.exp))).foldl mul acc
          = l.foldl (fun acc f =>
              mul acc (rpow (mul (Prefix.factor f.prefix_) (baseUnitAndFactor tbl (n + 1) f.unit).2) f.exp)) acc := by
      intro l
      induction l with
      | nil => intro acc _; rfl
      | cons f l ihl =>
        intro acc hsub
        simp only [List.map_cons, List.foldl_cons, Function.comp]
        rw [hch f (hsub f (List.mem_cons_self))]
        exact ihl _ (fun g hg => hsub g (List.mem_cons_of_mem _ hg))
    exact key d.defn one (fun f hf => hf)


theorem pos_foldl_mul (l : List α) (acc : α) (hacc : Pos acc) (hl : ∀ x ∈ l, Pos x) :
    Pos (l.foldl mul acc) := by
  induction l generalizing acc with
  | nil => exact hacc
  | cons x xs ih =>
    simp only [List.foldl_cons]
    apply ih
    · rw [mul_eq]; exact pos_mul _ _ hacc (hl x List.mem_cons_self)
    · intro y hy; exact hl y (List.mem_cons_of_mem _ hy)

/-- If every row of the table has a positive conversion factor, all transitive base factors are positive
(the hypothesis `PosTbl` of the theorems above). The harness checks the premise on the regenerated table. -/
theorem posTbl_of_rows (tbl : Table α) (hrows : ∀ d ∈ tbl, Pos d.factor) : PosTbl tbl := by
  intro n
  induction n with
  | zero => intro id; simp only [baseUnitAndFactor]; rw [one_eq]; exact pos_one
  | succ n ih =>
    intro id
    simp only [baseUnitAndFactor]
    cases hd : tbl[id]? with
    | none => simp only; rw [one_eq]; exact pos_one
    | some d =>
      simp only
      split
      · simp only; rw [one_eq]; exact pos_one
      · simp only
        rw [mul_eq]
        apply pos_mul
        · exact hrows d (List.mem_of_getElem? hd)
        · apply pos_foldl_mul
          · rw [one_eq]; exact pos_one
          · intro x hx
            simp only [List.map_map, List.mem_map, Function.comp] at hx
            obtain ⟨f, _, rfl⟩ := hx
            apply pos_rpow
            rw [mul_eq]
            exact pos_mul _ _ (pos_prefix _) (ih f.unit)

end NumbatModel.Qty
