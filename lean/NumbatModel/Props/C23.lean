import NumbatModel.Lemmas.NbtFunctions
import NumbatModel.Lemmas.Time
import NumbatModel.Props.C19
/-! C23 — standard-library inverse conversions round-trip.

The temperature and mixed-unit theorems are about the definitions in `Gen/NbtFunctions.lean`, which
`tools/gen_nbt_functions.py` regenerates on every run from the AST the real parser produces for
`physics/temperature_conversion.nbt`, `core/functions.nbt` (`trunc_in`) and `core/mixed_units.nbt`: an edit of
those files that breaks an inverse law breaks one of these proofs.  They are stated for the exact instance
(`NbtNum Rat`: a quantity is its magnitude in base units, a unit is the magnitude of one unit); the gap to `f64`
is covered by the harness tolerances, not by theorems.  The Unix-time and Julian-date theorems are about the time
model of C19 (`Model/Time.lean`).  Nothing is claimed by proof about the trigonometric, hyperbolic, exponential
and logarithmic inverses (they are libm calls; domains and tolerances are in `harness/src/bin/c23.rs`). -/
namespace NumbatModel.C23
open NumbatModel.Gen.NbtFunctions NumbatModel.Nbt NumbatModel.NbtLemmas NumbatModel.Time

/-! ### temperature scales -/

/-- °C ↔ K in both directions, for every non-zero magnitude `K` of the unit kelvin; also through the alias -/
theorem celsius_roundtrip (K x T : Rat) (hK : K ≠ 0) :
    degC K (from_celsius K x) = x ∧ from_celsius K (degC K T) = T ∧
    celsius K (from_celsius K x) = x ∧ from_celsius K (celsius K T) = T := by
  simp only [celsius, degC, from_celsius, NbtNum.sub, NbtNum.div, NbtNum.mul, NbtNum.add]
  refine ⟨?_, ?_, ?_, ?_⟩ <;> grind

/-- °F ↔ K in both directions -/
theorem fahrenheit_roundtrip (K x T : Rat) (hK : K ≠ 0) :
    degF K (from_fahrenheit K x) = x ∧ from_fahrenheit K (degF K T) = T ∧
    fahrenheit K (from_fahrenheit K x) = x ∧ from_fahrenheit K (fahrenheit K T) = T := by
  have hs := scale_ne_zero
  simp only [fahrenheit, degF, from_fahrenheit, NbtNum.sub, NbtNum.div, NbtNum.mul, NbtNum.add] at *
  generalize (_scale_fahrenheit : Rat) = s at *
  refine ⟨?_, ?_, ?_, ?_⟩ <;> grind

/-- the two scales agree with each other through kelvin: converting °C → K → °F → K → °C is the identity -/
theorem celsius_fahrenheit_roundtrip (K x : Rat) (hK : K ≠ 0) :
    degC K (from_fahrenheit K (degF K (from_celsius K x))) = x := by
  rw [(fahrenheit_roundtrip K 0 (from_celsius K x) hK).2.1, (celsius_roundtrip K x 0 hK).1]

example : degC (1 : Rat) (from_celsius 1 25) = 25 := (celsius_roundtrip 1 25 0 (by decide)).1

/-! ### splitting a quantity into a list of units -/

/-- `_mixed_unit_list` (the worker of `unit_list`, called with the cleaned unit list and an empty accumulator):
    for every value, every non-empty list of units and enough recursion budget it returns the accumulator
    followed by one part per unit; the parts add up to the value and all but the last are whole multiples of
    their unit. -/
theorem mixed_units_spec (units : List Rat) : ∀ (fuel : Nat) (val : Rat) (acc : List Rat),
    units ≠ [] → units.length ≤ fuel →
    ∃ parts, _mixed_unit_list fuel val units acc = .ok (acc ++ parts) ∧ parts.length = units.length ∧
      parts.sum = val ∧ WholeButLast parts units := by
  induction units with
  | nil => intro _ _ _ h; exact absurd rfl h
  | cons u us ih =>
    intro fuel val acc _ hf
    cases fuel with
    | zero => simp at hf
    | succ f =>
      rw [step_eq]
      by_cases hv : val = 0
      · simp only [hv, if_true]
        exact ⟨_, rfl, by simp, by rw [zeros_sum], zeros_whole _ (by simp)⟩
      · simp only [hv, if_false]
        by_cases hu : us = []
        · subst hu
          simp only [if_true]
          exact ⟨[val], rfl, rfl, by simp [Rat.add_zero], by simp [WholeButLast]⟩
        · simp only [hu, if_false]
          obtain ⟨ps, h1, h2, h3, h4⟩ := ih f (val - (NumbatModel.Time.rtrunc (val / u) : Rat) * u)
            (acc ++ [(NumbatModel.Time.rtrunc (val / u) : Rat) * u]) hu (by simp at hf; omega)
          refine ⟨((NumbatModel.Time.rtrunc (val / u) : Rat) * u) :: ps, ?_, by simp [h2], ?_, ?_⟩
          · rw [h1]; simp
          · simp only [List.sum_cons, h3]; grind
          · cases us with
            | nil => exact absurd rfl hu
            | cons v vs =>
              cases ps with
              | nil => simp at h2
              | cons q qs => exact ⟨⟨_, rfl⟩, h4⟩

/-- the parts add up to the original value -/
theorem mixed_units_sum (units : List Rat) (val : Rat) (h : units ≠ []) :
    ∃ parts, _mixed_unit_list units.length val units [] = .ok parts ∧ parts.sum = val := by
  obtain ⟨ps, h1, _, h3, _⟩ := mixed_units_spec units units.length val [] h (Nat.le_refl _)
  exact ⟨ps, by simpa using h1, h3⟩

/-- all parts but the last are whole multiples of their unit, and there is exactly one part per unit -/
theorem mixed_units_whole (units : List Rat) (val : Rat) (h : units ≠ []) :
    ∃ parts, _mixed_unit_list units.length val units [] = .ok parts ∧ parts.length = units.length ∧
      WholeButLast parts units := by
  obtain ⟨ps, h1, h2, _, h4⟩ := mixed_units_spec units units.length val [] h (Nat.le_refl _)
  exact ⟨ps, by simpa using h1, h2, h4⟩

/-- an empty unit list is an error, never a result (numbat: "Units list cannot be empty") -/
theorem mixed_units_empty (fuel : Nat) (val : Rat) (acc : List Rat) :
    ∃ e, _mixed_unit_list (fuel + 1) val [] acc = .error e := by
  rw [_mixed_unit_list]
  simp [NbtNum.lt, NbtNum.ofNat, lit00, bind, Except.bind]

/-- non-vacuity: 5500 (metres) in units of 1609.344, 0.9144, 0.3048, 0.0254 gives 3, 734, 2 whole units and a rest -/
example : (match _mixed_unit_list 4 (5500 : Rat) [1609344/1000, 9144/10000, 3048/10000, 254/10000] [] with
    | .ok [a, b, c, r] => decide (a = 3 * (1609344/1000)) && decide (b = 734 * (9144/10000)) &&
        decide (c = 2 * (3048/10000)) && decide (a + b + c + r = 5500) && decide (0 < r ∧ r < 254/10000 * 8)
    | _ => false) = true := by decide +kernel

/-! ### Unix time and Julian date (time model of C19) -/

variable {ζ : Type}

/-- `from_unixtime(unixtime(t))`: the same instant up to the truncation to whole microseconds (toward zero) that
    `_unixtime_µs` performs — exactly the same instant when `t` has no sub-microsecond part — in the local zone -/
theorem unixtime_roundtrip (t : Zoned ζ) (z : ζ) (ht : t.valid) :
    ∃ t', fromUnixMicros (unixMicros t) z = .ok t' ∧ t'.zone = z ∧
      (t.instant % 1000 = 0 → t'.instant = t.instant) ∧
      (0 ≤ t.instant → t'.instant ≤ t.instant ∧ t.instant < t'.instant + 1000) ∧
      (t.instant < 0 → t.instant ≤ t'.instant ∧ t'.instant < t.instant + 1000) := by
  unfold Zoned.valid inRange instantMin instantMax unixSecMin unixSecMax nsPerSec at ht
  simp only [Bool.and_eq_true, decide_eq_true_eq] at ht
  unfold fromUnixMicros unixMicros microMin microMax unixSecMin unixSecMax
  by_cases hneg : t.instant < 0
  · simp only [hneg, if_true]
    have hr : (-377705023201 * 1000000 ≤ -(-t.instant / 1000) ∧ -(-t.instant / 1000) ≤ 253402207200 * 1000000 + 999999) := by omega
    simp only [hr.1, hr.2, decide_true, Bool.and_self, if_true]
    refine ⟨_, rfl, rfl, ?_, ?_, ?_⟩ <;> intro h <;> dsimp only <;> first | omega | contradiction
  · simp only [hneg, if_false]
    have hr : (-377705023201 * 1000000 ≤ t.instant / 1000 ∧ t.instant / 1000 ≤ 253402207200 * 1000000 + 999999) := by omega
    simp only [hr.1, hr.2, decide_true, Bool.and_self, if_true]
    refine ⟨_, rfl, rfl, ?_, ?_, ?_⟩ <;> intro h <;> dsimp only <;> first | omega | contradiction

/-- `unixtime(from_unixtime(us)) = us` exactly, for every microsecond count `from_unixtime` accepts; and an
    out-of-range count is an error -/
theorem from_unixtime_roundtrip (us : Int) (z : ζ) :
    (∀ t, fromUnixMicros us z = .ok t → unixMicros t = us ∧ t.valid) ∧
    ((us < microMin ∨ microMax < us) → fromUnixMicros us z = .error .dateTimeOutOfRange) := by
  unfold fromUnixMicros
  constructor
  · intro t h
    by_cases hr : (microMin ≤ us && us ≤ microMax) = true
    · simp only [hr, if_true] at h
      cases h
      unfold microMin microMax unixSecMin unixSecMax at hr
      simp only [Bool.and_eq_true, decide_eq_true_eq] at hr
      unfold unixMicros Zoned.valid inRange instantMin instantMax unixSecMin unixSecMax nsPerSec
      simp only [Bool.and_eq_true, decide_eq_true_eq]
      constructor
      · split <;> omega
      · omega
    · simp [hr] at h
  · intro h
    have : (microMin ≤ us && us ≤ microMax) = false := by
      simp only [Bool.and_eq_false_iff, decide_eq_false_iff_not]; omega
    simp [this]

/-- Julian date: `from_julian_date(julian_date(t))` is the same instant as `t` (in the zone of the Julian epoch),
    on the exact instance: `julian_date(t) = t - epoch` is a whole number of nanoseconds expressed in seconds, and
    adding it back to the epoch rounds to exactly that number.  (On `f64` the difference in seconds is rounded to
    53 bits — about 3·10⁻⁵ s for present-day dates; that loss is outside this theorem, see the harness tolerance.) -/
theorem julian_roundtrip (t epoch : Zoned ζ) (ht : t.valid) (he : epoch.valid) :
    addDur ratOps epoch (diff ratOps t epoch) = .ok { epoch with instant := t.instant } := by
  have hb : -631107230401999999999 ≤ t.instant - epoch.instant ∧ t.instant - epoch.instant ≤ 631107230401999999999 := by
    unfold Zoned.valid inRange instantMin instantMax unixSecMin unixSecMax nsPerSec at ht he
    simp only [Bool.and_eq_true, decide_eq_true_eq] at ht he
    omega
  generalize hn : t.instant - epoch.instant = n at hb
  have hq : diff ratOps t epoch = (n : Rat) / 1000000000 := by
    simp [diff, diffNs, ratOps, hn]
  have h1 : -(631107417600 : Rat) ≤ (n : Rat) / 1000000000 := by
    have h' : ((-631107417600000000000 : Int) : Rat) ≤ (n : Rat) :=
      Rat.intCast_le_intCast.mpr (by omega : -631107417600000000000 ≤ n)
    have e : ((-631107417600000000000 : Int) : Rat) = -631107417600000000000 := by
      rw [show (-631107417600000000000 : Int) = -(631107417600000000000 : Int) from rfl, Rat.intCast_neg]
      congr 1
    rw [e] at h'
    grind
  have h2 : (n : Rat) / 1000000000 ≤ 631107417600 := by
    have h' : (n : Rat) ≤ ((631107417600000000000 : Int) : Rat) :=
      Rat.intCast_le_intCast.mpr (by omega : n ≤ 631107417600000000000)
    have e : ((631107417600000000000 : Int) : Rat) = 631107417600000000000 := Rat.intCast_ofNat
    rw [e] at h'
    grind
  obtain ⟨m, hm, hlo, hhi⟩ := roundNs_nearest ((n : Rat) / 1000000000) h1 h2
  have hmn : m = n := by
    have e : (n : Rat) / 1000000000 * 1000000000 = n := by grind
    rw [e] at hlo hhi
    have a : ((m - n : Int) : Rat) ≤ 1 / 2 := by simp only [Rat.intCast_sub]; exact hhi
    have b : -(1 / 2 : Rat) ≤ ((m - n : Int) : Rat) := by simp only [Rat.intCast_sub]; exact hlo
    have a' : m - n < 1 := by
      rw [← Rat.intCast_lt_intCast]; simp only [Rat.intCast_ofNat] at *; grind
    have b' : -1 < m - n := by
      rw [← Rat.intCast_lt_intCast]; simp only [Rat.intCast_neg, Rat.intCast_ofNat] at *; grind
    omega
  subst hmn
  rw [hq]
  have := in_range_succeeds ratOps epoch ((m : Rat) / 1000000000) m hm
    (by unfold Zoned.valid inRange at ht; simp only [Bool.and_eq_true, decide_eq_true_eq] at ht; omega)
    (by unfold Zoned.valid inRange at ht; simp only [Bool.and_eq_true, decide_eq_true_eq] at ht; omega)
  rw [this]
  congr 2
  omega

end NumbatModel.C23
