import NumbatModel.Lemmas.PrefixParser
/-!
# C13 — unit names and prefixes resolve correctly and uniquely

Property theorems only (helper lemmas are in `Lemmas/PrefixParser.lean`; the model is `Model/PrefixParser.lean`).

A *reading* of an identifier `s` (`Reading units s p a info`) is a registered alias `a` (registered with `info`:
accepted forms short/long, kinds metric/binary, unit name) together with a prefix `p` such that `s` is `a` itself
and `p` is no prefix, or `s` is a spelling of `p` that `a` accepts, followed by `a`.

* `addUnit_preserves`, `addOther_preserves`, `addShadowing_preserves`: every definition operation of the prefix
  parser that succeeds keeps `Unambiguous` (no identifier has two readings) and — except deliberate shadowing —
  `Disjoint` (no identifier is both a unit reading and a variable/function).
* `addUnit_accepts_iff`: clash detection is exact — an alias is accepted iff no identifier it would make readable is
  reserved, another identifier, or already readable.
* `session_invariant`: hence both hold after **every** sequence of unit / variable / function definitions, each of
  which is accepted or rejected by the model's real `addUnit` / `addOtherIdentifier` (rejected ones leave the state
  unchanged, as `Context::interpret` does).
* `resolve_correct`: an accepted alias + prefix combination is parsed as exactly that prefix and unit.
* `resolve_sound`, `resolve_rejects`: whatever `parse` reads as a unit is a declared reading; a prefix spelling an
  alias does not accept is never read as that alias.
* `resolve_unique`: in every reachable session state two readings of one identifier coincide, a reading is never
  also another identifier, and `parse` is a function of the set of readings.
* `print_reads_back`: the displayed form of a prefixed unit (`Display for UnitFactor`) parses back to the same
  prefix and unit, provided the canonical name is a registered alias accepting the displayed form
  (`UnitRow.canonReadsBack`, discharged for the regenerated standard-library table in `Oblig/PrefixTable.lean`).
-/
namespace NumbatModel.PrefixParser

/-- `add_unit` keeps the invariant: no identifier gets a second reading, none becomes both unit and variable. -/
theorem addUnit_preserves {pp pp' : PrefixParser} {a : Str} {info : UnitInfo}
    (hi : Unambiguous pp ∧ Disjoint pp) (h : addUnit pp a info = .ok pp') : Unambiguous pp' ∧ Disjoint pp' :=
  ⟨addUnit_preserves_unambiguous hi.1 h, addUnit_preserves_disjoint hi.2 h⟩

/-- Clash detection at definition is exact: `add_unit` accepts an alias iff none of the identifiers the alias would
make readable (the alias itself and every accepted prefix spelling followed by it) is reserved, a variable/function,
or already readable as a unit. -/
theorem addUnit_accepts_iff {pp : PrefixParser} {a : Str} {info : UnitInfo} :
    (∃ pp', addUnit pp a info = .ok pp') ↔
      ∀ n ∈ candidateNames a info, n ∉ reservedIdentifiers ∧ n ∉ pp.others ∧ ∀ p b i, ¬ Reading pp.units n p b i :=
  addUnit_isOk_iff

/-- `add_other_identifier` keeps the invariant. -/
theorem addOther_preserves {pp pp' : PrefixParser} {x : Str}
    (hi : Unambiguous pp ∧ Disjoint pp) (h : addOtherIdentifier pp x = .ok pp') :
    Unambiguous pp' ∧ Disjoint pp' :=
  ⟨addOther_preserves_unambiguous hi.1 h, addOther_preserves_disjoint hi.2 h⟩

/-- `add_shadowing_identifier` (function parameters, inside a clone) keeps the unit readings unambiguous; it is
allowed to break `Disjoint` — that is what shadowing means. -/
theorem addShadowing_preserves {pp pp' : PrefixParser} {x : Str}
    (hu : Unambiguous pp) (h : addShadowingIdentifier pp x = .ok pp') : Unambiguous pp' :=
  addShadowing_preserves_unambiguous hu h

/-- Every reachable session state: after any sequence of definitions (each accepted or rejected by the model's
`applyDef`, i.e. by `addUnit` per alias / `addOtherIdentifier`), starting from the empty parser, no identifier has two
readings and none is both a unit reading and a variable or function. -/
theorem session_invariant (defs : List Def) :
    Unambiguous (runDefs PrefixParser.new defs) ∧ Disjoint (runDefs PrefixParser.new defs) :=
  runDefs_inv inv_new defs

/-- The same for a table of units registered row by row (what loading the unit modules does). -/
theorem table_invariant {rows : List UnitRow} {pp : PrefixParser}
    (h : registerRows PrefixParser.new rows = .ok pp) : Unambiguous pp ∧ Disjoint pp :=
  registerRows_inv inv_new h

/-- An accepted combination reads as exactly that prefix and unit: if `s` has the reading (`p`, `a`) — bare alias,
or a prefix spelling that `a` accepts followed by `a` — and `s` is not shadowed, `parse` returns `p`, `a` and the unit
name `a` was registered for. -/
theorem resolve_correct {pp : PrefixParser} (hu : Unambiguous pp) {s : Str} {p : Prefix} {a : Str} {info : UnitInfo}
    (hr : Reading pp.units s p a info) (hno : s ∉ pp.others) : parse pp s = .unit p a info.fullName :=
  parse_eq_of_reading hu hr hno

/-- `resolve_correct` spelled out for a prefixed combination. -/
theorem resolve_correct_prefixed {pp : PrefixParser} (hu : Unambiguous pp) {a : Str} {info : UnitInfo}
    (hm : (a, info) ∈ pp.units) {e : PrefixEntry} (he : e ∈ prefixes) {ps : Str}
    (hps : ps ∈ acceptedStrings info e) (hno : ps ++ a ∉ pp.others) :
    parse pp (ps ++ a) = .unit e.pfx a info.fullName :=
  parse_eq_of_reading hu ⟨hm, Or.inr ⟨e, he, ps, hps, rfl, rfl⟩⟩ hno

/-- `resolve_correct` spelled out for the bare alias. -/
theorem resolve_correct_bare {pp : PrefixParser} (hu : Unambiguous pp) {a : Str} {info : UnitInfo}
    (hm : (a, info) ∈ pp.units) (hno : a ∉ pp.others) : parse pp a = .unit Prefix.none a info.fullName :=
  parse_eq_of_reading hu ⟨hm, Or.inl ⟨rfl, rfl⟩⟩ hno

/-- Whatever `parse` reads as a unit is a declared reading (no invariant needed), and the identifier is not
shadowed. -/
theorem resolve_sound {pp : PrefixParser} {s : Str} {p : Prefix} {a f : Str} (h : parse pp s = .unit p a f) :
    s ∉ pp.others ∧ ∃ info, Reading pp.units s p a info ∧ info.fullName = f :=
  parse_sound h

/-- A combination the unit does not accept is not read as that unit: if `ps` is a spelling of some prefix row that
alias `a` does *not* accept (wrong form short/long, or wrong kind metric/binary), then `ps ++ a` is not parsed as
alias `a` with any prefix. (It may be a different unit altogether, e.g. `min`.) -/
theorem resolve_rejects {pp : PrefixParser} (hu : Unambiguous pp) {a : Str} {info : UnitInfo}
    (hm : (a, info) ∈ pp.units) {e : PrefixEntry} (he : e ∈ prefixes) {ps : Str} (hps : ps ∈ e.strings)
    (hna : ps ∉ acceptedStrings info e) : ∀ p f, parse pp (ps ++ a) ≠ .unit p a f := by
  intro p f hp
  obtain ⟨_, info', ⟨hm', hs⟩, _⟩ := parse_sound hp
  have hinfo : info = info' :=
    (hu a Prefix.none a info Prefix.none a info' ⟨hm, Or.inl ⟨rfl, rfl⟩⟩ ⟨hm', Or.inl ⟨rfl, rfl⟩⟩).2.2
  subst hinfo
  rcases hs with ⟨heq, _⟩ | ⟨e', he', ps', hps', heq, _⟩
  · have : ps = [] := by
      have h1 : ps ++ a = ([] : Str) ++ a := by simpa using heq
      exact List.append_cancel_right h1
    exact prefix_strings_nonempty he hps this
  · have hpe : ps = ps' := List.append_cancel_right heq
    subst hpe
    have := prefix_strings_injective he he' hps (acceptedStrings_sub_strings hps')
    subst this
    exact hna hps'

/-- An identifier with no reading at all is a plain identifier. -/
theorem resolve_plain {pp : PrefixParser} {s : Str} (h : ∀ p a i, ¬ Reading pp.units s p a i) :
    parse pp s = .identifier s :=
  parse_plain_of_no_reading h

/-- No identifier has two different readings, in every reachable session state: two readings of `s` agree on prefix,
alias and unit; a reading is never also a variable/function name; and `parse` returns that one reading. -/
theorem resolve_unique (defs : List Def) {s : Str} {p p' : Prefix} {a a' : Str} {i i' : UnitInfo}
    (hr : Reading (runDefs PrefixParser.new defs).units s p a i)
    (hr' : Reading (runDefs PrefixParser.new defs).units s p' a' i') :
    (p = p' ∧ a = a' ∧ i = i') ∧ s ∉ (runDefs PrefixParser.new defs).others ∧
      parse (runDefs PrefixParser.new defs) s = .unit p a i.fullName := by
  obtain ⟨hu, hd⟩ := session_invariant defs
  exact ⟨hu s p a i p' a' i' hr hr', hd s p a i hr, parse_eq_of_reading hu hr (hd s p a i hr)⟩

/-- The displayed form of a prefixed unit reads back. `r` describes a unit whose aliases are registered in `pp`; if
its canonical name is one of these aliases and accepts the form `Display for UnitFactor` chooses
(`r.canonReadsBack`), then for every prefix row `e` of a kind the unit accepts, the text
`(short or long spelling of e.pfx) ++ canonical name` parses as prefix `e.pfx` of unit `r.fullName`; the same holds
for the unprefixed unit. -/
theorem print_reads_back {pp : PrefixParser} (hu : Unambiguous pp) (r : UnitRow)
    (hreg : ∀ a ∈ r.aliases, (a.1, (⟨a.2, r.metric, r.binary, r.fullName⟩ : UnitInfo)) ∈ pp.units)
    (hc : r.canonReadsBack = true) :
    (displayUnitFactor Prefix.none r.canon ∉ pp.others →
      parse pp (displayUnitFactor Prefix.none r.canon) = .unit Prefix.none r.canon.name r.fullName) ∧
    ∀ e ∈ prefixes, (e.pfx.isMetric && r.metric || e.pfx.isBinary && r.binary) = true →
      displayUnitFactor e.pfx r.canon ∉ pp.others →
      parse pp (displayUnitFactor e.pfx r.canon) = .unit e.pfx r.canon.name r.fullName := by
  unfold UnitRow.canonReadsBack at hc
  rw [List.any_eq_true] at hc
  obtain ⟨a, ha, hac⟩ := hc
  simp only [Bool.and_eq_true, decide_eq_true_eq] at hac
  obtain ⟨hname, hform⟩ := hac
  have hm := hreg a ha
  constructor
  · intro hno
    have hd : displayUnitFactor Prefix.none r.canon = a.1 := by
      unfold displayUnitFactor
      rw [asString_none.1, asString_none.2, hname]
      split <;> rfl
    rw [hd] at hno ⊢
    rw [← hname]
    exact parse_eq_of_reading hu ⟨hm, Or.inl ⟨rfl, rfl⟩⟩ hno
  · intro e he hk hno
    have hkind : kindOk (⟨a.2, r.metric, r.binary, r.fullName⟩ : UnitInfo) e.pfx = true := hk
    by_cases hs : r.canon.accepts.short = true
    · have hd : displayUnitFactor e.pfx r.canon = e.pfx.asStringShort ++ a.1 := by
        unfold displayUnitFactor; rw [if_pos hs, hname]
      rw [hd] at hno ⊢
      rw [← hname]
      rw [if_pos hs] at hform
      have hps : e.pfx.asStringShort ∈ acceptedStrings (⟨a.2, r.metric, r.binary, r.fullName⟩ : UnitInfo) e :=
        mem_acceptedStrings.mpr ⟨hkind, Or.inr ⟨hform, asStringShort_of_mem he⟩⟩
      exact parse_eq_of_reading hu ⟨hm, Or.inr ⟨e, he, _, hps, rfl, rfl⟩⟩ hno
    · have hd : displayUnitFactor e.pfx r.canon = e.pfx.asStringLong ++ a.1 := by
        unfold displayUnitFactor; rw [if_neg hs, hname]
      rw [hd] at hno ⊢
      rw [← hname]
      rw [if_neg hs] at hform
      have hps : e.pfx.asStringLong ∈ acceptedStrings (⟨a.2, r.metric, r.binary, r.fullName⟩ : UnitInfo) e :=
        mem_acceptedStrings.mpr ⟨hkind, Or.inl ⟨hform, asStringLong_of_mem he⟩⟩
      exact parse_eq_of_reading hu ⟨hm, Or.inr ⟨e, he, _, hps, rfl, rfl⟩⟩ hno

/-- `print_reads_back` for a whole table registered from the empty parser: every row whose canonical name passes
`canonReadsBack` has all its displayed forms read back (no other identifiers exist in that parser). -/
theorem table_print_reads_back {rows : List UnitRow} {pp : PrefixParser}
    (h : registerRows PrefixParser.new rows = .ok pp) (r : UnitRow) (hr : r ∈ rows) (hc : r.canonReadsBack = true) :
    parse pp (displayUnitFactor Prefix.none r.canon) = .unit Prefix.none r.canon.name r.fullName ∧
    ∀ e ∈ prefixes, (e.pfx.isMetric && r.metric || e.pfx.isBinary && r.binary) = true →
      parse pp (displayUnitFactor e.pfx r.canon) = .unit e.pfx r.canon.name r.fullName := by
  obtain ⟨_, hoth, hreg⟩ := registerRows_mem h
  have hempty : ∀ s, s ∉ pp.others := by
    intro s hs; rw [hoth] at hs; simp [PrefixParser.new] at hs
  obtain ⟨h0, h1⟩ := print_reads_back (table_invariant h).1 r (hreg r hr) hc
  exact ⟨h0 (hempty _), fun e he hk => h1 e he hk (hempty _)⟩

/-! ### non-vacuity: a concrete session (`metre`/`m` with metric prefixes, `byte`/`B` with both kinds, a variable,
a rejected clashing definition) meets the hypotheses, and the conclusions compute. -/

/-- **Shadowing is exact.**  A parameter or where-variable `x` registered with `add_shadowing_identifier` changes how
the string `x` itself is read (it becomes a plain identifier) and nothing else: every other string — in particular
a prefixed form of a unit named `x`, `kilometer` under a parameter `meter` — is read exactly as before.  (numbat's
type checker used to look such a unit up under the shadowed name; repaired by 83b9c17.) -/
theorem shadowing_is_exact {pp pp' : PrefixParser} {x s : Str}
    (h : addShadowingIdentifier pp x = .ok pp') (hs : s ≠ x) : parse pp' s = parse pp s := by
  unfold addShadowingIdentifier at h
  split at h
  · cases h
  · cases h
    have hc : (insertOther pp.others x).contains s = pp.others.contains s := by
      unfold insertOther
      split
      · rfl
      · simp only [List.contains_cons]
        have : (s == x) = false := by simpa using hs
        simp [this]
    unfold parse
    simp only [hc]

/-- … and the shadowed name itself is an identifier -/
theorem shadowed_name_is_identifier {pp pp' : PrefixParser} {x : Str}
    (h : addShadowingIdentifier pp x = .ok pp') : parse pp' x = .identifier x := by
  unfold addShadowingIdentifier at h
  split at h
  · cases h
  · cases h
    have hc : (insertOther pp.others x).contains x = true := by
      unfold insertOther
      split
      · assumption
      · simp
    unfold parse
    simp only [hc, if_true]

section Examples

/-- `@metric_prefixes @aliases(m: short) unit meter`, `@metric_prefixes @binary_prefixes @aliases(B: short) unit byte`,
`let x`, then the clashing `unit km` (rejected), then `@aliases(min: none) unit minute`. -/
def sampleDefs : List Def := [
  .unit [109, 101, 116, 101, 114] true false [⟨[109], some AcceptsPrefix.onlyShort⟩],
  .unit [98, 121, 116, 101] true true [⟨[66], some AcceptsPrefix.onlyShort⟩],
  .var [120],
  .unit [107, 109] false false [],
  .unit [109, 105, 110, 117, 116, 101] false false [⟨[109, 105, 110], some AcceptsPrefix.none⟩]]

def samplePP : PrefixParser := runDefs PrefixParser.new sampleDefs

/-- four aliases got registered; `km` was rejected -/
example : samplePP.units.map (·.1) =
    [[109, 101, 116, 101, 114], [109], [98, 121, 116, 101], [66], [109, 105, 110, 117, 116, 101], [109, 105, 110]] := by
  decide +kernel

example : (match applyDef (runDefs PrefixParser.new (sampleDefs.take 3)) (.unit [107, 109] false false []) with
    | .error e => some e | .ok _ => none) = some (.clash [107, 109]) := by decide +kernel

/-- `addUnit_accepts_iff`, both directions inhabited: `z` (short, metric) is accepted on top of the sample state, `in`
(short, metric) is not, because `m` + `in` is already the minute alias `min`. -/
example : (match addUnit samplePP [122] ⟨AcceptsPrefix.onlyShort, true, false, [122]⟩ with
    | .ok _ => true | .error _ => false) = true := by decide +kernel
example : (match addUnit samplePP [105, 110] ⟨AcceptsPrefix.onlyShort, true, false, [105, 110]⟩ with
    | .ok _ => none | .error e => some e) = some (.clash [109, 105, 110]) := by decide +kernel

/-- `session_invariant` / `resolve_unique` speak about this state -/
example : Unambiguous samplePP ∧ Disjoint samplePP := session_invariant sampleDefs

/-- `km` has the reading (kilo, `m`): hypotheses of `resolve_correct` are met … -/
example : Reading samplePP.units [107, 109] (.metric 3) [109] ⟨AcceptsPrefix.onlyShort, true, false, [109, 101, 116, 101, 114]⟩ := by
  refine ⟨by decide +kernel, Or.inr ⟨⟨[107, 105, 108, 111], [[107]], .metric 3⟩, by decide +kernel, [107], by decide +kernel, rfl, rfl⟩⟩

/-- … and its conclusion computes: `km` ↦ kilo `m` of `meter`; `KiB` ↦ kibi `B` of `byte`. -/
example : parse samplePP [107, 109] = .unit (.metric 3) [109] [109, 101, 116, 101, 114] := by decide +kernel
example : parse samplePP [75, 105, 66] = .unit (.binary 10) [66] [98, 121, 116, 101] := by decide +kernel

/-- `resolve_rejects`: `kilom` (long prefix on the short-only alias `m`) and `Kim` (binary on a metric-only unit) are
not units; `min` is the minute, not milli-inch or anything of `m`. -/
example : parse samplePP [107, 105, 108, 111, 109] = .identifier [107, 105, 108, 111, 109] := by decide +kernel
example : parse samplePP [75, 105, 109] = .identifier [75, 105, 109] := by decide +kernel
example : parse samplePP [109, 105, 110] = .unit Prefix.none [109, 105, 110] [109, 105, 110, 117, 116, 101] := by
  decide +kernel
example : ([107, 105, 108, 111] : Str) ∉ acceptedStrings ⟨AcceptsPrefix.onlyShort, true, false, [109, 101, 116, 101, 114]⟩
    ⟨[107, 105, 108, 111], [[107]], .metric 3⟩ := by decide +kernel

/-- `print_reads_back`: the row of `meter` (canonical name `m`, short) passes `canonReadsBack`, and `km`, `µm` are
what is displayed and read back. -/
def sampleRow : UnitRow :=
  ⟨[109, 101, 116, 101, 114], ⟨[109], AcceptsPrefix.onlyShort⟩, true, false,
   [([109, 101, 116, 101, 114], AcceptsPrefix.onlyLong), ([109], AcceptsPrefix.onlyShort)]⟩

example : sampleRow.canonReadsBack = true := by decide +kernel
example : ∀ a ∈ sampleRow.aliases,
    (a.1, (⟨a.2, sampleRow.metric, sampleRow.binary, sampleRow.fullName⟩ : UnitInfo)) ∈ samplePP.units := by
  decide +kernel
example : displayUnitFactor (.metric (-6)) sampleRow.canon = [181, 109] := by decide +kernel
example : parse samplePP (displayUnitFactor (.metric (-6)) sampleRow.canon) =
    .unit (.metric (-6)) [109] [109, 101, 116, 101, 114] := by decide +kernel

/-- a row that fails the obligation (name registered with `none`, so the long form is displayed but not accepted):
its displayed form does *not* read back — the premise of `print_reads_back` is needed. -/
def badRow : UnitRow :=
  ⟨[122, 113], ⟨[122, 113], AcceptsPrefix.onlyLong⟩, true, false,
   [([122, 113], AcceptsPrefix.none), ([122, 113, 115], AcceptsPrefix.onlyLong)]⟩
example : badRow.canonReadsBack = false := by decide +kernel
example : (match registerRows PrefixParser.new [badRow] with
    | .ok pp => some (parse pp (displayUnitFactor (.metric 3) badRow.canon))
    | .error _ => none) = some (.identifier [107, 105, 108, 111, 122, 113]) := by
  decide +kernel

/-- non-vacuity of `shadowing_is_exact`: with a parameter named `m`, `m` is an identifier but `km` is still the unit -/
example : (match addShadowingIdentifier samplePP [109] with
    | .ok pp => some (parse pp [109], parse pp [107, 109])
    | .error _ => none) = some (.identifier [109], .unit (.metric 3) [109] [109, 101, 116, 101, 114]) := by
  decide +kernel

end Examples

end NumbatModel.PrefixParser
