import NumbatModel.Lemmas.SyntaxFuel
import NumbatModel.Lemmas.SyntaxSound
import NumbatModel.Lemmas.SyntaxLex
/-!
# C10 — parsing follows the documented grammar and precedence table (property theorems)

Objects (all in `Model/Syntax*.lean`, the definitions the driver `drv_c10` executes):
`tokenize` (model of tokenizer.rs), `expression … primary` / `parseExpr` (model of the recursive-descent
levels of parser.rs), `Surf` (what can be written: AST constructors + redundant parentheses, unary plus, `per`,
`^-`, `|>`, every operator occurrence with an arbitrary lexeme), `render` (reference printer: parentheses only
where the precedence table `infixTable`/`…Level` demands them), `toExpr` (the AST the documentation assigns).
`Oblig/DocPrecedence.lean` proves that this table is the table of the book.

* `parse_render_context`, `parse_render` — the parser inverts the printer on **every** well-formed surface tree:
  this fixes precedence and associativity of every pair of constructs at once.
* `parse_render_expr` — the same for plain ASTs (`ofExpr`), i.e. `parse (render e) = ok e`.
* `parse_extra_parens` — texts that differ only in redundant parentheses parse to the same tree.
* `tokenize_unlex_partial`, `operatorChars_not_identifier_continue`, `parse_text_partial` — the lexer lemma
  (partial, see there).
* `parse_sound`, `parse_sound_top` — whatever the parser accepts is a sentence of the documented BNF
  (`Derives`, Model/SyntaxGrammar.lean) and the returned tree is the tree of that derivation: nothing outside
  the grammar is accepted or reinterpreted (newline-free token lists; the BNF does not mention the newlines the
  parser skips inside brackets).
-/
namespace NumbatModel.Syntax

/-- **Core theorem.**  For every well-formed surface tree `s`, in every context `k` whose first token cannot
continue an expression (`)`, `,`, `]`, `then`, end of input, …) and with any fuel `≥ s.need + 1`, the
expression parser consumes exactly the rendering of `s` and returns the documented tree `toExpr s`. -/
theorem parse_render_context (s : Surf) (h : s.wf = true) (k : List Token) (hk : stops 0 (peekKind k) = true)
    (n : Nat) (hn : s.need + 1 ≤ n) : expression n (render s ++ k) = .ok (toExpr s, k) :=
  (good s h).expr hk hn

/-- **`parse ∘ render = id`.**  The top-level expression parser (its own fuel `fuelFor`, as executed by the
driver) maps the rendering of every well-formed surface tree to the documented tree. -/
theorem parse_render (s : Surf) (h : s.wf = true) : parseExpr (render s ++ [tEof]) = .ok (toExpr s) := by
  have hfuel : s.need + 1 ≤ fuelFor (render s ++ [tEof]) := by
    have := need_le s h
    simp only [fuelFor, List.length_append, List.length_cons, List.length_nil]
    omega
  have := parse_render_context s h [tEof] (by decide) _ hfuel
  simp only [parseExpr, this]
  simp [peekKind, tEof]

/-- The same for plain ASTs: printing an AST the grammar can produce and parsing it gives the AST back. -/
theorem parse_render_expr (e : Expr) (h : e.wf = true) : parseExpr (render (ofExpr e) ++ [tEof]) = .ok e := by
  simp only [Expr.wf, Bool.and_eq_true] at h
  rw [parse_render _ h.2, toExpr_ofExpr e h.1]

/-- Redundant parentheses never change the tree: two well-formed surface trees that are equal up to
parenthesis nodes parse (from their own renderings) to the same AST. -/
theorem parse_extra_parens (s₁ s₂ : Surf) (h₁ : s₁.wf = true) (h₂ : s₂.wf = true) (h : noParens s₁ = noParens s₂) :
    parseExpr (render s₁ ++ [tEof]) = parseExpr (render s₂ ++ [tEof]) := by
  rw [parse_render _ h₁, parse_render _ h₂, ← toExpr_noParens s₁, ← toExpr_noParens s₂, h]

/-- **Soundness w.r.t. the documented grammar.**  If the expression parser (any fuel) accepts a prefix of a
newline-free token list and returns `e`, then the consumed prefix is a sentence of the nonterminal
`expression` of the BNF and `e` is the tree of a derivation. -/
theorem parse_sound (n : Nat) (ts : List Token) (e : Expr) (rest : List Token)
    (hnl : ∀ t ∈ ts, t.kind ≠ .newline) (h : expression n ts = .ok (e, rest)) :
    ∃ pre, ts = pre ++ rest ∧ Derives 0 pre e :=
  (all n).expr ts e rest hnl h

/-- the same for the top-level function the driver executes -/
theorem parse_sound_top (ts : List Token) (e : Expr) (hnl : ∀ t ∈ ts, t.kind ≠ .newline)
    (h : parseExpr ts = .ok e) : ∃ pre rest, ts = pre ++ rest ∧ peekKind rest = .eof ∧ Derives 0 pre e := by
  unfold parseExpr at h
  split at h
  · cases h
  · rename_i e1 rest he
    split at h
    · rename_i heof
      injection h with h; subst h
      obtain ⟨pre, hpre, hd⟩ := parse_sound _ ts e1 rest hnl he
      exact ⟨pre, rest, hpre, by simpa using heof, hd⟩
    · cases h

/-- **Lexer lemma (partial).**  Writing tokens as their lexemes separated by single blanks and tokenizing the
text gives the tokens back, for every list of *simple* tokens: all spellings (ASCII and Unicode) of all
operator, bracket and keyword tokens of the expression grammar, ASCII identifiers that are not keywords, and
decimal integer literals; for every XID table.  Missing for the full `tokenize_unlex`: blanks only where two
lexemes would fuse, non-ASCII identifiers, the other number notations, strings, `{`/`}` (scope tracking) and `.`. -/
theorem tokenize_unlex_partial (xt : XidTable) (ts : List Token) (h : ∀ t ∈ ts, simpleTok t = true) :
    tokenize xt (unlexBlank ts) = .ok (ts ++ [tEof]) :=
  scanAll_unlex xt ts none _ h (Nat.le_refl _)

/-- No character operators are made of is an identifier-continue character for numbat's tokenizer (given that
`unicode-ident` does not classify it as XID_Continue) — what `tokenize_unlex` without blanks rests on, and the
statement the historical subscript-range typo `0x2080..=0x209CF` violated for `→ − ≤ ≥ ≠ ➞ ⩵`. -/
theorem operatorChars_not_identifier_continue (xt : XidTable) (c : Char) (hc : c ∈ operatorChars)
    (hx : c.toNat ∉ xt.cont) : isIdentifierContinue xt c = false :=
  operatorChars_not_continue xt c hc hx

/-- From text to tree: for a well-formed surface tree whose tokens are simple, tokenizing the blank-separated
text of its rendering and parsing the tokens gives the documented tree. -/
theorem parse_text_partial (xt : XidTable) (s : Surf) (h : s.wf = true) (hs : ∀ t ∈ render s, simpleTok t = true) :
    tokenize xt (unlexBlank (render s)) = .ok (render s ++ [tEof]) ∧
    parseExpr (render s ++ [tEof]) = .ok (toExpr s) :=
  ⟨tokenize_unlex_partial xt (render s) hs, parse_render s h⟩

/-! ## non-vacuity: the examples of the property text, as instances -/

section Examples
private def x : Surf := .ident ['x']
private def y : Surf := .ident ['y']
private def z : Surf := .ident ['z']
private def two : Surf := .scalar ⟨.number, ['2']⟩

/-- `-x^2` is `-(x^2)`: unary minus is looser than powers -/
example : render (.neg ['-'] (.pow ['^'] x two)) = [⟨.minus, ['-']⟩, ⟨.identifier, ['x']⟩, ⟨.power, ['^']⟩, ⟨.number, ['2']⟩] ∧
    parseExpr (render (.neg ['-'] (.pow ['^'] x two)) ++ [tEof]) = .ok (.neg (.bin .power (.ident ['x']) (.scalar ⟨.number, ['2']⟩))) :=
  ⟨by decide, parse_render _ (by decide)⟩

/-- `x / y z` is `x / (y z)`: implicit multiplication binds tighter than division -/
example : render (.bin .divide ['/'] x (.imul y z)) = [⟨.identifier, ['x']⟩, ⟨.divide, ['/']⟩, ⟨.identifier, ['y']⟩, ⟨.identifier, ['z']⟩] ∧
    parseExpr (render (.bin .divide ['/'] x (.imul y z)) ++ [tEof]) = .ok (.bin .div (.ident ['x']) (.imul (.ident ['y']) (.ident ['z']))) :=
  ⟨by decide, parse_render _ (by decide)⟩

/-- `x / y per z` is `x / (y per z)`: `per` binds tighter than `/` -/
example : render (.bin .divide ['/'] x (.bin .per ['p','e','r'] y z)) =
      [⟨.identifier, ['x']⟩, ⟨.divide, ['/']⟩, ⟨.identifier, ['y']⟩, ⟨.per, ['p','e','r']⟩, ⟨.identifier, ['z']⟩] ∧
    parseExpr (render (.bin .divide ['/'] x (.bin .per ['p','e','r'] y z)) ++ [tEof]) =
      .ok (.bin .div (.ident ['x']) (.bin .div (.ident ['y']) (.ident ['z']))) :=
  ⟨by decide, parse_render _ (by decide)⟩

/-- `x ^ y ^ z` is `x ^ (y ^ z)` (right-associative), `x -> y -> z` is `(x -> y) -> z` (left-associative),
and the other association needs parentheses -/
example : render (.pow ['^'] x (.pow ['^'] y z)) = [⟨.identifier, ['x']⟩, ⟨.power, ['^']⟩, ⟨.identifier, ['y']⟩, ⟨.power, ['^']⟩, ⟨.identifier, ['z']⟩] ∧
    render (.pow ['^'] (.pow ['^'] x y) z) = [tLeftParen, ⟨.identifier, ['x']⟩, ⟨.power, ['^']⟩, ⟨.identifier, ['y']⟩, tRightParen, ⟨.power, ['^']⟩, ⟨.identifier, ['z']⟩] ∧
    render (.bin .arrow ['-','>'] (.bin .arrow ['-','>'] x y) z) =
      [⟨.identifier, ['x']⟩, ⟨.arrow, ['-','>']⟩, ⟨.identifier, ['y']⟩, ⟨.arrow, ['-','>']⟩, ⟨.identifier, ['z']⟩] ∧
    parseExpr (render (.bin .arrow ['-','>'] (.bin .arrow ['-','>'] x y) z) ++ [tEof]) =
      .ok (.bin .convertTo (.bin .convertTo (.ident ['x']) (.ident ['y'])) (.ident ['z'])) :=
  ⟨by decide, by decide, by decide, parse_render _ (by decide)⟩

/-- `-x!` is `-(x!)`; `x |> f(y)` is `f(y, x)`; `(x)` is `x` -/
example : parseExpr (render (.neg ['-'] (.fact 1 x)) ++ [tEof]) = .ok (.neg (.fact 1 (.ident ['x']))) ∧
    parseExpr (render (.pipe x (.call (.ident ['f']) [y])) ++ [tEof]) = .ok (.call (.ident ['f']) [.ident ['y'], .ident ['x']]) ∧
    parseExpr (render (.paren x) ++ [tEof]) = parseExpr (render x ++ [tEof]) :=
  ⟨parse_render _ (by decide), parse_render _ (by decide), parse_extra_parens _ _ (by decide) (by decide) (by simp [noParens])⟩
/-- `parse_sound` applies to a real run: `x + y * z` is accepted, hence derivable with the returned tree -/
example : ∃ pre, render (.bin .plus ['+'] x (.bin .multiply ['*'] y z)) ++ [tEof] = pre ++ [tEof] ∧
    Derives 0 pre (.bin .add (.ident ['x']) (.bin .mul (.ident ['y']) (.ident ['z']))) :=
  parse_sound _ _ _ _ (by decide)
    (parse_render_context (.bin .plus ['+'] x (.bin .multiply ['*'] y z)) (by decide) [tEof] (by decide) _ (Nat.le_refl _))
/-- the text `- x ^ 2` lexes to the four tokens and parses to `-(x^2)`; `→` is not an identifier-continue character -/
example : unlexBlank (render (.neg ['-'] (.pow ['^'] x two))) = ['-', ' ', 'x', ' ', '^', ' ', '2'] ∧
    tokenize ⟨[], []⟩ ['-', ' ', 'x', ' ', '^', ' ', '2'] =
      .ok [⟨.minus, ['-']⟩, ⟨.identifier, ['x']⟩, ⟨.power, ['^']⟩, ⟨.number, ['2']⟩, tEof] ∧
    isIdentifierContinue ⟨[], []⟩ '→' = false :=
  ⟨by decide, (parse_text_partial ⟨[], []⟩ (.neg ['-'] (.pow ['^'] x two)) (by decide) (by decide)).1,
   operatorChars_not_identifier_continue _ _ (by decide) (by decide)⟩
end Examples

end NumbatModel.Syntax
