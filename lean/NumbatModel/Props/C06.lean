import NumbatModel.Lemmas.Session
/-!
# C06 — a failing input leaves the session unchanged

Property theorems only (helper lemmas are in `Lemmas/Session.lean`).  All statements are about
`Session.interpret` (= `Context::interpret_with_settings` of the current tree, the function the driver
`drv_c06` executes) for **arbitrary** stage functions: the transformer, type checker and interpreter are
parameters that may leave any dirty state behind when they fail.

* `failure_is_noop` — if `interpret` fails at any stage (unknown module, parse error, name resolution, type
  check, run time) the resulting session is observationally equal to the old one; `≈` (`ObsEq`) ignores only
  the source-file table and the `<input:N>` / `<internal:N>` counters, which the Rust code does not restore.
* `counters_not_restored` — what is *not* restored: the `<input:N>` counter advances and the file table only
  gets longer, also for a failing input.
* `failing_input_removable` — lifted to histories: deleting a failing input from any history changes neither
  the final session nor the outcomes of the other inputs, up to a relation `R` that `interpret` respects
  (`Congruence`: the stage functions see source ids only through labels).
* `congruence_of_labelFree` — the hypothesis holds, with `R := ObsEq` and equal outcomes, for every parser that
  ignores the source id; `failing_input_removable_labelFree` is the resulting unconditional corollary.
* `failure_leaks_import_prefix`, `leak_makes_reimport_a_noop_prefix` — the code before the repair
  (`interpretPreFix`) violates the property: concrete witness (the corpus history
  `use extra::algebra⏎let q = 1/0`, `use extra::algebra`).
* `vm_error_cleanup` — `Vm::run` after a run-time error: old stack, root frame at the end of the main chunk.
-/
namespace NumbatModel.Session

variable {μ κ σ τ θ T C V E ν ω : Type} [DecidableEq μ]

/-- **A failing input is a no-op.**  For every session, input, source kind and stage functions: if
`interpret` returns an error — whatever the stage — every component of the session except the file table and
the input counters is what it was before. -/
theorem failure_is_noop (P : Stages μ κ σ τ θ T C V E ν ω) (s : Session μ T C V) (code : κ) (src : Source μ)
    (e : Err μ E) (h : (interpret P s code src).2.result = .error e) :
    ObsEq (interpret P s code src).1 s := by
  unfold interpret interpretG at *
  revert h
  cases resolve P s.resolver code src with
  | mk r1 res =>
    cases res with
    | error e1 => intro _; simp [ObsEq, restoreImports]
    | ok stmts =>
      simp only []
      cases P.transform s.transformer stmts with
      | mk t1 rt =>
        cases rt with
        | error e2 => intro _; simp [ObsEq, restoreImports]
        | ok ts =>
          simp only []
          cases P.check s.checker ts with
          | mk c1 rc =>
            cases rc with
            | error e3 => intro _; simp [ObsEq, restoreImports]
            | ok typed =>
              simp only []
              cases P.run s.interp t1 c1 typed with
              | mk v1 rest =>
                cases rest with
                | mk out rr =>
                  cases rr with
                  | error e4 => intro _; simp [ObsEq, restoreImports]
                  | ok res => intro h; simp at h

/-- non-vacuity: an input that imports a module and then fails at run time, in the name-level instance -/
example :
    let P := Names.stages (ν := Nat) [((7 : Nat), ⟨false, [.defn [(.fn, 1)]]⟩)] 4
    let s : Names.NSession Nat Nat := Names.NSession.init []
    let code : Names.Code Nat Nat := ⟨false, [.use 7, .defn [(.var, 2)], .failAt .run]⟩
    (interpret P s code .text).2.result = .error (.runtime ()) ∧
      (interpret P s code .text).1.resolver.files.length = 2 := by
  exact ⟨rfl, rfl⟩

/-- **What is not restored.**  Whether the input succeeds or fails, the `<input:N>` counter advances by one
and the source-file table keeps its old entries and gains `<input:N+1>` (and one entry per module file that
was read, even by a failing input) — the label of every later input is shifted, which is the one difference
the property allows. -/
theorem counters_not_restored (P : Stages μ κ σ τ θ T C V E ν ω) (s : Session μ T C V) (code : κ) :
    (interpret P s code .text).1.resolver.textCount = s.resolver.textCount + 1 ∧
      ∃ extra, (interpret P s code .text).1.resolver.files =
        s.resolver.files ++ .input (s.resolver.textCount + 1) :: extra := by
  have h := interpretG_resolver true P s code .text
  have g := resolve_text P s.resolver code
  unfold interpret
  rw [h.1, h.2.1]
  exact g

/-! ### histories -/

/-- pairwise relation between two outcome lists -/
def OutRel (Ro : Outcome μ E ν ω → Outcome μ E ν ω → Prop) : List (Outcome μ E ν ω) → List (Outcome μ E ν ω) → Prop
  | [], [] => True
  | a :: as, b :: bs => Ro a b ∧ OutRel Ro as bs
  | _, _ => False

/-- `interpret` respects the relation `R` on sessions (which contains `≈`) and yields `Ro`-related outcomes:
"the stage functions see the file table, the counters and source ids only through labels". -/
structure Congruence (P : Stages μ κ σ τ θ T C V E ν ω) (R : Session μ T C V → Session μ T C V → Prop)
    (Ro : Outcome μ E ν ω → Outcome μ E ν ω → Prop) : Prop where
  ofObs : ∀ a b, ObsEq a b → R a b
  step : ∀ a b code src, R a b →
    R (interpret P a code src).1 (interpret P b code src).1 ∧ Ro (interpret P a code src).2 (interpret P b code src).2

theorem hist_congr (P : Stages μ κ σ τ θ T C V E ν ω) {R Ro} (hc : Congruence P R Ro) :
    ∀ (h : List (κ × Source μ)) (a b : Session μ T C V), R a b →
      R (runHist P a h).1 (runHist P b h).1 ∧ OutRel Ro (runHist P a h).2 (runHist P b h).2 := by
  intro h
  induction h with
  | nil => intro a b hab; exact ⟨hab, trivial⟩
  | cons i rest ih =>
    intro a b hab
    have hs := hc.step a b i.1 i.2 hab
    have := ih _ _ hs.1
    exact ⟨this.1, hs.2, this.2⟩

/-- **Failing inputs can be deleted from a history.**  If the input `bad` fails after the history `h₁`, then
for every continuation `h₂`: the final sessions of `h₁ ++ bad :: h₂` and `h₁ ++ h₂` are related, the outcomes of
`h₁` are identical and the outcomes of `h₂` are pairwise related. -/
theorem failing_input_removable (P : Stages μ κ σ τ θ T C V E ν ω) {R Ro} (hc : Congruence P R Ro)
    (s : Session μ T C V) (h₁ h₂ : List (κ × Source μ)) (bad : κ × Source μ) (e : Err μ E)
    (hbad : (interpret P (runHist P s h₁).1 bad.1 bad.2).2.result = .error e) :
    R (runHist P s (h₁ ++ bad :: h₂)).1 (runHist P s (h₁ ++ h₂)).1 ∧
      ∃ o₂ o₂', (runHist P s (h₁ ++ bad :: h₂)).2 =
          (runHist P s h₁).2 ++ (interpret P (runHist P s h₁).1 bad.1 bad.2).2 :: o₂ ∧
        (runHist P s (h₁ ++ h₂)).2 = (runHist P s h₁).2 ++ o₂' ∧ OutRel Ro o₂ o₂' := by
  have hnoop := failure_is_noop P (runHist P s h₁).1 bad.1 bad.2 e hbad
  have hrel := hc.ofObs _ _ hnoop
  have hcont := hist_congr P hc h₂ _ _ hrel
  unfold runHist at *
  rw [runHistG_append, runHistG_append]
  simp only [runHistG]
  exact ⟨hcont.1, _, _, rfl, rfl, hcont.2⟩

/-- a parser that ignores the source id makes `interpret` respect `≈` itself, with *equal* outcomes -/
theorem congruence_of_labelFree (P : Stages μ κ σ τ θ T C V E ν ω) (hP : LabelFree P) :
    Congruence P ObsEq (· = ·) where
  ofObs := fun _ _ h => h
  step := fun a b code src h => interpretG_obs true P hP a b code src h

/-- corollary for label-free parsers: `run (h₁ ++ failing :: h₂) ≈ run (h₁ ++ h₂)` and the outcomes of every
input of `h₂` are equal. -/
theorem failing_input_removable_labelFree (P : Stages μ κ σ τ θ T C V E ν ω) (hP : LabelFree P)
    (s : Session μ T C V) (h₁ h₂ : List (κ × Source μ)) (bad : κ × Source μ) (e : Err μ E)
    (hbad : (interpret P (runHist P s h₁).1 bad.1 bad.2).2.result = .error e) :
    ObsEq (runHist P s (h₁ ++ bad :: h₂)).1 (runHist P s (h₁ ++ h₂)).1 ∧
      ∃ o₂ o₂', (runHist P s (h₁ ++ bad :: h₂)).2 =
          (runHist P s h₁).2 ++ (interpret P (runHist P s h₁).1 bad.1 bad.2).2 :: o₂ ∧
        (runHist P s (h₁ ++ h₂)).2 = (runHist P s h₁).2 ++ o₂' ∧ OutRel (· = ·) o₂ o₂' :=
  failing_input_removable P (congruence_of_labelFree P hP) s h₁ h₂ bad e hbad

/-- a concrete instance: `let v`, then the failing `use 7⏎<run-time error>`, then `use 7⏎print` -/
example :
    let P := Names.stages (ν := Nat) [((7 : Nat), ⟨false, [.defn [(.fn, 1)]]⟩)] 4
    let s : Names.NSession Nat Nat := Names.NSession.init []
    let h₁ : List (Names.Code Nat Nat × Source Nat) := [(⟨false, [.defn [(.var, 2)]]⟩, .text)]
    let bad : Names.Code Nat Nat × Source Nat := (⟨false, [.use 7, .failAt .run]⟩, .text)
    let h₂ : List (Names.Code Nat Nat × Source Nat) := [(⟨false, [.use 7, .plain]⟩, .text)]
    ObsEq (runHist P s (h₁ ++ bad :: h₂)).1 (runHist P s (h₁ ++ h₂)).1 ∧
      (runHist P s (h₁ ++ bad :: h₂)).1.checker = [(.var, 2), (.fn, 1)] := by
  intro P s h₁ bad h₂
  exact ⟨(failing_input_removable_labelFree P (fun _ _ _ => rfl) s h₁ h₂ bad (.runtime ()) rfl).1, rfl⟩

/-- non-vacuity of `LabelFree` / `Congruence`: the name-level instance executed by the driver -/
theorem names_labelFree (table : List (μ × Names.Code μ ν)) (d : Nat) : LabelFree (Names.stages table d) :=
  fun _ _ _ => rfl

/-! ### the code before the repair -/

/-- **Regression witness.**  With the code as it was before `fix: restore the list of imported modules when an
input fails`, the property is false: the input `use 7⏎<run-time error>` fails and leaves module 7 in
`imported_modules`. -/
theorem failure_leaks_import_prefix :
    ∃ (P : Stages Nat (Names.Code Nat Nat) (Names.Item Nat Nat) (Names.Item Nat Nat) (Names.Item Nat Nat)
        (Names.Names Nat) (Names.Names Nat) (Names.Names Nat) Unit Unit Unit)
      (s : Names.NSession Nat Nat) (code : Names.Code Nat Nat) (e : Err Nat Unit),
      (interpretPreFix P s code .text).2.result = .error e ∧ ¬ ObsEq (interpretPreFix P s code .text).1 s := by
  refine ⟨Names.stages [((7 : Nat), ⟨false, [.defn [(.fn, 1)]]⟩)] 4, Names.NSession.init [],
    ⟨false, [.use 7, .failAt .run]⟩, .runtime (), rfl, ?_⟩
  intro h
  have := h.1
  revert this
  decide

/-- … and the consequence a user sees: after the failed input, importing the module again is silently
skipped, so its function (name 1) is missing from every component, while a session that never saw the failing
input has it.  The current `interpret` gives the same session for both histories. -/
theorem leak_makes_reimport_a_noop_prefix :
    let P := Names.stages (ν := Nat) [((7 : Nat), ⟨false, [.defn [(.fn, 1)]]⟩)] 4
    let s : Names.NSession Nat Nat := Names.NSession.init []
    let bad : Names.Code Nat Nat × Source Nat := (⟨false, [.use 7, .failAt .run]⟩, .text)
    let again : Names.Code Nat Nat × Source Nat := (⟨false, [.use 7]⟩, .text)
    (runHistG false P s [bad, again]).1.checker = [] ∧ (runHistG false P s [again]).1.checker = [(.fn, 1)] ∧
      (runHist P s [bad, again]).1.checker = [(.fn, 1)] := by
  decide

/-! ### the VM after a run-time error -/

/-- `Vm::run`: after an error the value stack is the stack from before the run, the call stack is the root
frame and its instruction pointer is at the end of the main chunk, whatever `run_without_cleanup` did. -/
theorem vm_error_cleanup {val E' R' : Type} (raw : Vm val → Vm val × Except E' R') (vm : Vm val) (e : E')
    (h : (Vm.run raw vm).2 = .error e) :
    (Vm.run raw vm).1.stack = vm.stack ∧
      (Vm.run raw vm).1.frames = [⟨0, (Vm.run raw vm).1.mainLen, 0⟩] := by
  unfold Vm.run at *
  revert h
  cases raw vm with
  | mk vm' r =>
    cases r with
    | error e' => intro _; exact ⟨rfl, rfl⟩
    | ok r => intro h; simp at h

example : (Vm.run (val := Nat) (E := Unit) (R := Unit)
    (fun vm => ({ vm with stack := vm.stack ++ [1, 2], frames := vm.frames ++ [⟨1, 3, 2⟩] }, .error ()))
    ⟨[5], [⟨0, 0, 0⟩], 9, none⟩).1.stack = [5] := by decide

end NumbatModel.Session
