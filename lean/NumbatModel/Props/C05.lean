import NumbatModel.Lemmas.Qty
import NumbatModel.Lemmas.QtySimplify
import NumbatModel.Lemmas.QtyCanon
set_option linter.unusedSectionVars false
/-!
# C05 — automatic unit simplification never changes the quantity

`fullSimplify` models `Quantity::full_simplify` (heuristics 1–3), `fullSimplifyReg` models
`full_simplify_with_registry` (what the interpreter applies to displayed results, printed values and
interpolated strings).  `none` = the `unwrap` in heuristic 3 would panic.
-/
namespace NumbatModel.Qty
open NumOps LawfulNum

variable {α : Type} [NumOps α] [Lean.Grind.Field α] [L : LawfulNum α]

theorem chunkBy_flatten {β κ : Type} [BEq κ] (key : β → κ) (l : List β) : (chunkBy key l).flatten = l := by
  induction l with
  | nil => rfl
  | cons x xs ih =>
    simp only [chunkBy]
    cases h : chunkBy key xs with
    | nil => rw [h] at ih; simp at ih; subst ih; simp
    | cons g rest =>
      rw [h] at ih
      cases g with
      | nil => simp only; simp at ih ⊢; exact ih
      | cons y ys =>
        simp only
        split <;> simp_all

/-- the invariant of the loop of heuristic 3 -/
theorem h3_fold (tbl : Table α) (step : Option (α × Unit) → Unit → Option (α × Unit))
    (hstep : ∀ (f : α) (s : Unit) (g : Unit) (f' : α) (s' : Unit),
      step (some (f, s)) g = some (f', s') → f' * prodW tbl s' = f * prodW tbl s * prodW tbl g)
    (hnone : ∀ g, step none g = none) :
    ∀ (groups : List Unit) (f : α) (s : Unit) (f' : α) (s' : Unit),
      groups.foldl step (some (f, s)) = some (f', s') →
      f' * prodW tbl s' = f * prodW tbl s * prodW tbl groups.flatten := by
  intro groups
  induction groups with
  | nil => intro f s f' s' h; simp at h; obtain ⟨h1, h2⟩ := h; subst h1 h2; simp [prodW]; grind
  | cons g gs ih =>
    intro f s f' s' h
    simp only [List.foldl_cons] at h
    cases hs : step (some (f, s)) g with
    | none =>
      rw [hs] at h
      have : ∀ gs : List Unit, gs.foldl step none = none := by
        intro gs; induction gs with
        | nil => rfl
        | cons a as iha => simp [List.foldl_cons, hnone, iha]
      rw [this] at h; cases h
    | some p =>
      obtain ⟨f1, s1⟩ := p
      rw [hs] at h
      have e1 := hstep f s g f1 s1 hs
      have e2 := ih f1 s1 f' s' h
      simp only [List.flatten_cons, prodW_append]
      grind

/-- Simplification preserves the physical magnitude (and, being a conversion, the dimension). -/
theorem simplify_phys (tbl : Table α) (hp : PosTbl tbl) (q r : Quantity α)
    (h : fullSimplify tbl q = some r) : phys tbl r = phys tbl q := by
  unfold fullSimplify at h
  split at h
  · cases h; rfl
  · split at h
    · rename_i r' hc
      cases h
      have := convert_phys' tbl hp q r [] hc
      unfold phys; rw [convert_unit' tbl q r [] hc]; exact this
    · simp only at h
      split at h
      · -- heuristic 2
        rename_i r' hh2
        cases h
        split at hh2
        · obtain ⟨f, _, hf⟩ := List.exists_of_findSome?_eq_some hh2
          split at hf
          · split at hf
            · split at hf
              · rename_i c hc
                cases hf
                have := convert_phys' tbl hp q r _ hc
                unfold phys; rw [convert_unit' tbl q r _ hc]; exact this
              · cases hf
            · cases hf
          · cases hf
        · cases hh2
      · -- heuristic 3
        split at h
        · cases h
        · rename_i factor simplified hfold
          cases h
          have key := h3_fold tbl _ (by
              intro f s g f' s' hst
              simp only at hst
              split at hst
              · cases hst
              · rename_i rep _
                split at hst
                · rename_i c hc
                  cases hst
                  have e := convert_phys' tbl hp ⟨one, g, true⟩ c _ hc
                  unfold phys at e
                  simp only [one_eq] at e
                  simp only [Unit.mul, prodW_append, mul_eq]
                  grind
                · cases hst)
            (by intro g; rfl) _ one [] factor simplified hfold
          unfold phys
          simp only [mul_eq]
          rw [prodW_canon tbl hp, chunkBy_flatten, prodW_canon tbl hp, one_eq] at *
          simp only [prodW] at key
          grind

/-- Simplification is not applied to a value whose unit the user chose with an explicit conversion. -/
theorem simplify_respects_flag (tbl : Table α) (q : Quantity α) (h : q.canSimplify = false) :
    fullSimplify tbl q = some q := by
  unfold fullSimplify; simp [h]

/-! ### the dimension is preserved, and converting back gives the unsimplified magnitude -/

/-- the forward half of C04's `convert_ok_iff` (no hypothesis on the table, any numeric instance): a successful
conversion either started from a zero or goes to a unit of the same dimension vector -/
theorem convert_ok_vec {β : Type} [NumOps β] (tbl : Table β) (q q' : Quantity β) (U : Unit)
    (h : convertTo tbl q U = .ok q') : q.isZero = true ∨ ∀ b, unitVec tbl q.unit b = unitVec tbl U b := by
  unfold convertTo at h
  split at h
  · rename_i hc
    rcases Bool.or_eq_true _ _ ▸ hc with he | hz
    · right
      intro b
      unfold unitEq at he
      have : canon tbl q.unit = canon tbl U := by simpa using he
      rw [← unitVec_canon tbl q.unit, this, unitVec_canon]
    · left; exact hz
  · right
    simp only at h
    split at h
    · rename_i he
      have he' : baseRep tbl (canon tbl (Unit.div q.unit (commonFactors (canon tbl q.unit) (canon tbl U))))
          = baseRep tbl (canon tbl (Unit.div U (commonFactors (canon tbl q.unit) (canon tbl U)))) := by
        simpa using he
      intro b
      have h1 := congrArg (fun l => vecOfBase l b) he'
      simp only [baseRep, vecOfBase_canonBase, vecOfBase_baseRepRaw, unitVec_canon, Unit.div, unitVec_append] at h1
      grind
    · cases h

/-- the dimension invariant of the loop of heuristic 3: the unit built so far has the dimension vector of the
groups consumed so far -/
theorem h3_fold_vec (tbl : Table α) (b : Nat) (P : Unit → Prop)
    (step : Option (α × Unit) → Unit → Option (α × Unit))
    (hstep : ∀ (f : α) (s : Unit) (g : Unit) (f' : α) (s' : Unit), P g →
      step (some (f, s)) g = some (f', s') → unitVec tbl s' b = unitVec tbl s b + unitVec tbl g b)
    (hnone : ∀ g, step none g = none) :
    ∀ (groups : List Unit), (∀ g ∈ groups, P g) → ∀ (f : α) (s : Unit) (f' : α) (s' : Unit),
      groups.foldl step (some (f, s)) = some (f', s') →
      unitVec tbl s' b = unitVec tbl s b + unitVec tbl groups.flatten b := by
  intro groups
  induction groups with
  | nil =>
    intro _ f s f' s' h
    simp at h; obtain ⟨_, h2⟩ := h; subst h2
    simp only [List.flatten_nil, unitVec]; grind
  | cons g gs ih =>
    intro hP f s f' s' h
    simp only [List.foldl_cons] at h
    cases hs : step (some (f, s)) g with
    | none =>
      rw [hs] at h
      have : ∀ gs : List Unit, gs.foldl step none = none := by
        intro gs; induction gs with
        | nil => rfl
        | cons a as iha => simp [List.foldl_cons, hnone, iha]
      rw [this] at h; cases h
    | some p =>
      obtain ⟨f1, s1⟩ := p
      rw [hs] at h
      have e1 := hstep f s g f1 s1 (hP g List.mem_cons_self) hs
      have e2 := ih (fun x hx => hP x (List.mem_cons_of_mem _ hx)) f1 s1 f' s' h
      simp only [List.flatten_cons, unitVec_append]
      grind

/-- **Simplification preserves the physical dimension**: the simplified unit has the dimension vector of the
original unit — unless the value is a zero, which `full_simplify` displays as the bare (dimension-polymorphic)
`0` (see `simplify_zero`). -/
theorem simplify_dim (tbl : Table α) (hwf : WF tbl) (hn : NamesDistinct tbl) (q r : Quantity α)
    (h : fullSimplify tbl q = some r) :
    q.isZero = true ∨ ∀ b, unitVec tbl r.unit b = unitVec tbl q.unit b := by
  unfold fullSimplify at h
  split at h
  · cases h; right; intro b; rfl
  · split at h
    · rename_i r' hc
      cases h
      rcases convert_ok_vec tbl q r [] hc with hz | hv
      · left; exact hz
      · right; intro b; rw [convert_unit' tbl q r [] hc]; exact (hv b).symm
    · simp only at h
      split at h
      · -- heuristic 2
        rename_i r' hh2
        cases h
        split at hh2
        · obtain ⟨f, _, hf⟩ := List.exists_of_findSome?_eq_some hh2
          split at hf
          · split at hf
            · split at hf
              · rename_i c hc
                cases hf
                rcases convert_ok_vec tbl q r _ hc with hz | hv
                · left; exact hz
                · right; intro b; rw [convert_unit' tbl q r _ hc]; exact (hv b).symm
              · cases hf
            · cases hf
          · cases hf
        · cases hh2
      · -- heuristic 3
        split at h
        · cases h
        · rename_i factor simplified hfold
          cases h
          right
          intro b
          have hgroups := chunkBy_spec (fun f : Factor => sortKey tbl f.unit) (canon tbl q.unit)
          have key := h3_fold_vec tbl b
            (fun g : Unit => g ≠ [] ∧ ∀ x ∈ g, ∀ y ∈ g, sortKey tbl x.unit = sortKey tbl y.unit) _ (by
              intro f s g f' s' hg hst
              simp only at hst
              obtain ⟨rep, hrep, hmem⟩ := maxBy_mem (fun (f1 f2 : Factor) =>
                  if (isBaseUnit tbl f1.unit != isBaseUnit tbl f2.unit) = true then
                    !isBaseUnit tbl f1.unit && isBaseUnit tbl f2.unit
                  else decide (f1.exp ≤ f2.exp)) g hg.1
              simp only [hrep] at hst
              have hkey : ∀ x ∈ g, sortKey tbl x.unit = sortKey tbl rep.unit := fun x hx => hg.2 x hx rep hmem
              split at hst
              · cases hst
                simp only [Unit.mul, unitVec_append]
                rw [← h3_target_vec tbl hwf hn g rep hkey b]
              · cases hst)
            (by intro g; rfl) _ hgroups one [] factor simplified hfold
          simp only
          rw [unitVec_canon, key, chunkBy_flatten, unitVec_canon]
          simp only [unitVec]; grind

/-- a zero converts to every unit (C04 `convert_zero'`, restated here to keep the files independent) -/
theorem convertTo_of_zero {β : Type} [NumOps β] (tbl : Table β) (q : Quantity β) (U : Unit) (hz : q.isZero = true) :
    convertTo tbl q U = .ok ⟨q.value, U, true⟩ := by
  unfold convertTo
  simp [hz]

/-- what happens to a zero: `full_simplify` turns it into the bare `0` (heuristic 1: a zero converts to the
scalar unit), whatever unit it carried -/
theorem simplify_zero {β : Type} [NumOps β] (tbl : Table β) (q : Quantity β) (hz : q.isZero = true)
    (hc : q.canSimplify = true) : fullSimplify tbl q = some ⟨q.value, [], true⟩ := by
  unfold fullSimplify
  simp [hc, convertTo_of_zero tbl q [] hz]

/-- **Converting a simplified result back to the unit of the unsimplified computation gives the unsimplified
magnitude** — and that conversion always succeeds. -/
theorem simplify_convert_back (tbl : Table α) (hp : PosTbl tbl) (hwf : WF tbl) (hn : NamesDistinct tbl)
    (q r : Quantity α) (h : fullSimplify tbl q = some r) :
    ∃ q', convertTo tbl r q.unit = .ok q' ∧ q'.value = q.value ∧ q'.unit = q.unit := by
  have hex : ∃ q', convertTo tbl r q.unit = .ok q' := by
    rcases simplify_dim tbl hwf hn q r h with hz | hv
    · by_cases hc : q.canSimplify = true
      · rw [simplify_zero tbl q hz hc] at h
        cases h
        exact ⟨_, convertTo_of_zero tbl _ q.unit hz⟩
      · have hc' : q.canSimplify = false := by simpa using hc
        rw [simplify_respects_flag tbl q hc'] at h
        cases h
        exact ⟨_, convertTo_of_zero tbl _ q.unit hz⟩
    · exact convComplete tbl hn r q.unit hv
  obtain ⟨q', hq'⟩ := hex
  refine ⟨q', hq', ?_, convert_unit' tbl r q' q.unit hq'⟩
  have e1 := simplify_phys tbl hp q r h
  have e2 := convert_phys' tbl hp r q' q.unit hq'
  have hu := convert_unit' tbl r q' q.unit hq'
  unfold phys at e1 e2
  have hq : prodW tbl q.unit ≠ 0 := pos_ne_zero _ (pos_prodW tbl hp _)
  grind

/-- The registry-based simplification of displayed results preserves the physical magnitude too. -/
theorem simplifyReg_phys (tbl : Table α) (hp : PosTbl tbl) (reg : List RegRow) (q r : Quantity α)
    (h : fullSimplifyReg tbl reg q = some r) : phys tbl r = phys tbl q := by
  unfold fullSimplifyReg at h
  split at h
  · cases h
  · rename_i s hs
    have hsq := simplify_phys tbl hp q s hs
    split at h
    · cases h; exact hsq
    · split at h
      · cases h; exact hsq
      · simp only at h
        split at h
        · rename_i c hd
          cases h
          rw [← hsq]
          split at hd
          · split at hd
            · split at hd
              · rename_i c' hc
                cases hd
                have := convert_phys' tbl hp s r _ hc
                unfold phys; rw [convert_unit' tbl s r _ hc]; exact this
              · cases hd
            · cases hd
          · cases hd
        · split at h
          · rename_i c hfs
            cases h
            rw [← hsq]
            obtain ⟨id, _, hf⟩ := List.exists_of_findSome?_eq_some hfs
            split at hf
            · split at hf
              · rename_i c' hc
                cases hf
                have := convert_phys' tbl hp s r _ hc
                unfold phys; rw [convert_unit' tbl s r _ hc]; exact this
              · cases hf
            · cases hf
          · cases h; exact hsq

/-- the shape of the registry-based simplification: `full_simplify`, then at most one more conversion -/
theorem simplifyReg_cases {β : Type} [NumOps β] (tbl : Table β) (reg : List RegRow) (q r : Quantity β)
    (h : fullSimplifyReg tbl reg q = some r) :
    ∃ s, fullSimplify tbl q = some s ∧ (r = s ∨ ∃ U, convertTo tbl s U = .ok r) := by
  unfold fullSimplifyReg at h
  split at h
  · cases h
  · rename_i s hs
    refine ⟨s, hs, ?_⟩
    split at h
    · cases h; left; rfl
    · split at h
      · cases h; left; rfl
      · simp only at h
        split at h
        · rename_i c hd
          cases h
          split at hd
          · split at hd
            · split at hd
              · rename_i c' hc
                cases hd
                right; exact ⟨_, hc⟩
              · cases hd
            · cases hd
          · cases hd
        · split at h
          · rename_i c hfs
            cases h
            obtain ⟨id, _, hf⟩ := List.exists_of_findSome?_eq_some hfs
            split at hf
            · split at hf
              · rename_i c' hc
                cases hf
                right; exact ⟨_, hc⟩
              · cases hf
            · cases hf
          · cases h; left; rfl

/-- a quantity with the physical magnitude of a zero is a zero -/
theorem isZero_of_phys_eq (tbl : Table α) (hp : PosTbl tbl) (a b : Quantity α) (h : phys tbl a = phys tbl b)
    (hz : a.isZero = true) : b.isZero = true := by
  unfold Quantity.isZero at *
  rw [beq_iff, zero_eq] at *
  unfold phys at h
  have hb : prodW tbl b.unit ≠ 0 := pos_ne_zero _ (pos_prodW tbl hp _)
  grind

/-- the registry-based simplification (what the interpreter applies to displayed results, printed values and
interpolated strings) preserves the physical dimension too — a zero excepted, as in `simplify_dim` -/
theorem simplifyReg_dim (tbl : Table α) (hp : PosTbl tbl) (hwf : WF tbl) (hn : NamesDistinct tbl)
    (reg : List RegRow) (q r : Quantity α) (h : fullSimplifyReg tbl reg q = some r) :
    q.isZero = true ∨ ∀ b, unitVec tbl r.unit b = unitVec tbl q.unit b := by
  obtain ⟨s, hs, hr⟩ := simplifyReg_cases tbl reg q r h
  rcases simplify_dim tbl hwf hn q s hs with hz | hv
  · left; exact hz
  · rcases hr with rfl | ⟨U, hU⟩
    · right; exact hv
    · rcases convert_ok_vec tbl s r U hU with hsz | hsv
      · left
        exact isZero_of_phys_eq tbl hp s q (simplify_phys tbl hp q s hs) hsz
      · right
        intro b
        rw [convert_unit' tbl s r U hU, ← hsv b, hv b]

/-- converting a *displayed* result back to the unit of the unsimplified computation succeeds and gives the
unsimplified magnitude -/
theorem simplifyReg_convert_back (tbl : Table α) (hp : PosTbl tbl) (hwf : WF tbl) (hn : NamesDistinct tbl)
    (reg : List RegRow) (q r : Quantity α) (h : fullSimplifyReg tbl reg q = some r) :
    ∃ q', convertTo tbl r q.unit = .ok q' ∧ q'.value = q.value ∧ q'.unit = q.unit := by
  have hphys := simplifyReg_phys tbl hp reg q r h
  have hex : ∃ q', convertTo tbl r q.unit = .ok q' := by
    rcases simplifyReg_dim tbl hp hwf hn reg q r h with hz | hv
    · exact ⟨_, convertTo_of_zero tbl r q.unit (isZero_of_phys_eq tbl hp q r hphys.symm hz)⟩
    · exact convComplete tbl hn r q.unit hv
  obtain ⟨q', hq'⟩ := hex
  refine ⟨q', hq', ?_, convert_unit' tbl r q' q.unit hq'⟩
  have e2 := convert_phys' tbl hp r q' q.unit hq'
  unfold phys at hphys e2
  have hq : prodW tbl q.unit ≠ 0 := pos_ne_zero _ (pos_prodW tbl hp _)
  grind


theorem simplifyReg_respects_flag (tbl : Table α) (reg : List RegRow) (q : Quantity α)
    (h : q.canSimplify = false) : fullSimplifyReg tbl reg q = some q := by
  unfold fullSimplifyReg
  rw [simplify_respects_flag tbl q h]
  simp [h]

/-- `x -> U` is displayed in exactly `U`: the VM's conversion result carries `U` and is left alone by the
simplification applied to displayed values. -/
theorem convert_not_simplified (tbl : Table α) (reg : List RegRow) (a b r : Quantity α)
    (h : vmConvertTo tbl a b = .ok r) : r.unit = b.unit ∧ fullSimplifyReg tbl reg r = some r := by
  unfold vmConvertTo at h
  split at h
  · rename_i c hc
    cases h
    exact ⟨convert_unit' tbl a c b.unit hc, simplifyReg_respects_flag tbl reg _ rfl⟩
  · cases h

/-! ### totality: the `unwrap` of heuristic 3 cannot fail -/

theorem foldl_step_some {σ β : Type} (step : Option σ → β → Option σ) (P : β → Prop)
    (hstep : ∀ (acc : σ) (g : β), P g → ∃ r, step (some acc) g = some r) :
    ∀ (gs : List β), (∀ g ∈ gs, P g) → ∀ acc : σ, ∃ r, gs.foldl step (some acc) = some r := by
  intro gs
  induction gs with
  | nil => intro _ acc; exact ⟨acc, rfl⟩
  | cons g gs ih =>
    intro h acc
    simp only [List.foldl_cons]
    obtain ⟨r, hr⟩ := hstep acc g (h g List.mem_cons_self)
    rw [hr]
    exact ih (fun x hx => h x (List.mem_cons_of_mem _ hx)) r

theorem foldl_step_ne_none {σ β : Type} (step : Option σ → β → Option σ) (P : β → Prop)
    (hstep : ∀ (acc : σ) (g : β), P g → ∃ r, step (some acc) g = some r)
    (gs : List β) (hP : ∀ g ∈ gs, P g) (acc : σ) : gs.foldl step (some acc) ≠ none := by
  obtain ⟨r, hr⟩ := foldl_step_some step P hstep gs hP acc
  rw [hr]; simp

/-- **`full_simplify` is total**: for every unit table whose definitions refer to earlier rows only and whose
rows have distinct names (both kernel-checked for the regenerated prelude table), the grouped conversion of
heuristic 3 always succeeds — the `unwrap` in `Quantity::full_simplify` cannot panic.  (Before the repair
`275b2e3` it could: the exponent of the group was computed from the first factor of the *stored* definition
instead of the canonical base representation.) -/
theorem simplify_total (tbl : Table α) (hwf : WF tbl) (hn : NamesDistinct tbl) (q : Quantity α) :
    ∃ r, fullSimplify tbl q = some r := by
  unfold fullSimplify
  split
  · exact ⟨q, rfl⟩
  · split
    · exact ⟨_, rfl⟩
    · simp only
      split
      · exact ⟨_, rfl⟩
      · -- heuristic 3
        have hgroups := chunkBy_spec (fun f : Factor => sortKey tbl f.unit) (canon tbl q.unit)
        split
        · rename_i hfold
          exfalso
          refine foldl_step_ne_none _
            (fun g : Unit => g ≠ [] ∧ ∀ x ∈ g, ∀ y ∈ g, sortKey tbl x.unit = sortKey tbl y.unit) ?_ _ hgroups (one, []) hfold
          intro acc g hg
          obtain ⟨factor, simplified⟩ := acc
          obtain ⟨rep, hrep, hmem⟩ := maxBy_mem (fun (f1 f2 : Factor) =>
              if (isBaseUnit tbl f1.unit != isBaseUnit tbl f2.unit) = true then
                !isBaseUnit tbl f1.unit && isBaseUnit tbl f2.unit
              else decide (f1.exp ≤ f2.exp)) g hg.1
          simp only [hrep]
          have hkey : ∀ f ∈ g, sortKey tbl f.unit = sortKey tbl rep.unit := fun f hf => hg.2 f hf rep hmem
          obtain ⟨c, hc⟩ := convComplete tbl hn ⟨one, g, true⟩ _ (fun b => h3_target_vec tbl hwf hn g rep hkey b)
          rw [hc]
          exact ⟨_, rfl⟩
        · exact ⟨_, rfl⟩

/-- the registry-based simplification (what the interpreter applies to displayed results) is total too: its only
`none` is the one of `full_simplify` -/
theorem simplifyReg_total (tbl : Table α) (hwf : WF tbl) (hn : NamesDistinct tbl) (reg : List RegRow) (q : Quantity α) :
    ∃ r, fullSimplifyReg tbl reg q = some r := by
  obtain ⟨s, hs⟩ := simplify_total tbl hwf hn q
  unfold fullSimplifyReg
  rw [hs]
  simp only
  split
  · exact ⟨_, rfl⟩
  · split
    · exact ⟨_, rfl⟩
    · split
      · exact ⟨_, rfl⟩
      · split <;> exact ⟨_, rfl⟩

end NumbatModel.Qty
