import NumbatModel.Lemmas.Qty
import NumbatModel.Lemmas.QtySimplify
set_option linter.unusedSectionVars false
/-!
# C05 — automatic unit simplification never changes the quantity

`fullSimplify` models `Quantity::full_simplify` (heuristics 1–3), `fullSimplifyReg` models
`full_simplify_with_registry` (what the interpreter applies to displayed results, printed values and
interpolated strings).  `none` = the `unwrap` in heuristic 3 would panic.
-/
namespace NumbatModel.Qty
open NumOps LawfulNum

variable {α : Type} [NumOps α] [Lean.Grind.Field α] [L : LawfulNum α]

theorem chunkBy_flatten {β κ : Type} [BEq κ] (key : β → κ) (l : List β) : (chunkBy key l).flatten = l := by
  induction l with
  | nil => rfl
  | cons x xs ih =>
    simp only [chunkBy]
    cases h : chunkBy key xs with
    | nil => rw [h] at ih; simp at ih; subst ih; simp
    | cons g rest =>
      rw [h] at ih
      cases g with
      | nil => simp only; simp at ih ⊢; exact ih
      | cons y ys =>
        simp only
        split <;> simp_all

/-- the invariant of the loop of heuristic 3 -/
theorem h3_fold (tbl : Table α) (step : Option (α × Unit) → Unit → Option (α × Unit))
    (hstep : ∀ (f : α) (s : Unit) (g : Unit) (f' : α) (s' : Unit),
      step (some (f, s)) g = some (f', s') → f' * prodW tbl s' = f * prodW tbl s * prodW tbl g)
    (hnone : ∀ g, step none g = none) :
    ∀ (groups : List Unit) (f : α) (s : Unit) (f' : α) (s' : Unit),
      groups.foldl step (some (f, s)) = some (f', s') →
      f' * prodW tbl s' = f * prodW tbl s * prodW tbl groups.flatten := by
  intro groups
  induction groups with
  | nil => intro f s f' s' h; simp at h; obtain ⟨h1, h2⟩ := h; subst h1 h2; simp [prodW]; grind
  | cons g gs ih =>
    intro f s f' s' h
    simp only [List.foldl_cons] at h
    cases hs : step (some (f, s)) g with
    | none =>
      rw [hs] at h
      have : ∀ gs : List Unit, gs.foldl step none = none := by
        intro gs; induction gs with
        | nil => rfl
        | cons a as iha => simp [List.foldl_cons, hnone, iha]
      rw [this] at h; cases h
    | some p =>
      obtain ⟨f1, s1⟩ := p
      rw [hs] at h
      have e1 := hstep f s g f1 s1 hs
      have e2 := ih f1 s1 f' s' h
      simp only [List.flatten_cons, prodW_append]
      grind

/-- Simplification preserves the physical magnitude (and, being a conversion, the dimension). -/
theorem simplify_phys (tbl : Table α) (hp : PosTbl tbl) (q r : Quantity α)
    (h : fullSimplify tbl q = some r) : phys tbl r = phys tbl q := by
  unfold fullSimplify at h
  split at h
  · cases h; rfl
  · split at h
    · rename_i r' hc
      cases h
      have := convert_phys' tbl hp q r [] hc
      unfold phys; rw [convert_unit' tbl q r [] hc]; exact this
    · simp only at h
      split at h
      · -- heuristic 2
        rename_i r' hh2
        cases h
        split at hh2
        · obtain ⟨f, _, hf⟩ := List.exists_of_findSome?_eq_some hh2
          split at hf
          · split at hf
            · split at hf
              · rename_i c hc
                cases hf
                have := convert_phys' tbl hp q r _ hc
                unfold phys; rw [convert_unit' tbl q r _ hc]; exact this
              · cases hf
            · cases hf
          · cases hf
        · cases hh2
      · -- heuristic 3
        split at h
        · cases h
        · rename_i factor simplified hfold
          cases h
          have key := h3_fold tbl _ (by
              intro f s g f' s' hst
              simp only at hst
              split at hst
              · cases hst
              · rename_i rep _
                split at hst
                · rename_i c hc
                  cases hst
                  have e := convert_phys' tbl hp ⟨one, g, true⟩ c _ hc
                  unfold phys at e
                  simp only [one_eq] at e
                  simp only [Unit.mul, prodW_append, mul_eq]
                  grind
                · cases hst)
            (by intro g; rfl) _ one [] factor simplified hfold
          unfold phys
          simp only [mul_eq]
          rw [prodW_canon tbl hp, chunkBy_flatten, prodW_canon tbl hp, one_eq] at *
          simp only [prodW] at key
          grind

/-- Simplification is not applied to a value whose unit the user chose with an explicit conversion. -/
theorem simplify_respects_flag (tbl : Table α) (q : Quantity α) (h : q.canSimplify = false) :
    fullSimplify tbl q = some q := by
  unfold fullSimplify; simp [h]

/-- The registry-based simplification of displayed results preserves the physical magnitude too. -/
theorem simplifyReg_phys (tbl : Table α) (hp : PosTbl tbl) (reg : List RegRow) (q r : Quantity α)
    (h : fullSimplifyReg tbl reg q = some r) : phys tbl r = phys tbl q := by
  unfold fullSimplifyReg at h
  split at h
  · cases h
  · rename_i s hs
    have hsq := simplify_phys tbl hp q s hs
    split at h
    · cases h; exact hsq
    · split at h
      · cases h; exact hsq
      · simp only at h
        split at h
        · rename_i c hd
          cases h
          rw [← hsq]
          split at hd
          · split at hd
            · split at hd
              · rename_i c' hc
                cases hd
                have := convert_phys' tbl hp s r _ hc
                unfold phys; rw [convert_unit' tbl s r _ hc]; exact this
              · cases hd
            · cases hd
          · cases hd
        · split at h
          · rename_i c hfs
            cases h
            rw [← hsq]
            obtain ⟨id, _, hf⟩ := List.exists_of_findSome?_eq_some hfs
            split at hf
            · split at hf
              · rename_i c' hc
                cases hf
                have := convert_phys' tbl hp s r _ hc
                unfold phys; rw [convert_unit' tbl s r _ hc]; exact this
              · cases hf
            · cases hf
          · cases h; exact hsq

theorem simplifyReg_respects_flag (tbl : Table α) (reg : List RegRow) (q : Quantity α)
    (h : q.canSimplify = false) : fullSimplifyReg tbl reg q = some q := by
  unfold fullSimplifyReg
  rw [simplify_respects_flag tbl q h]
  simp [h]

/-- `x -> U` is displayed in exactly `U`: the VM's conversion result carries `U` and is left alone by the
simplification applied to displayed values. -/
theorem convert_not_simplified (tbl : Table α) (reg : List RegRow) (a b r : Quantity α)
    (h : vmConvertTo tbl a b = .ok r) : r.unit = b.unit ∧ fullSimplifyReg tbl reg r = some r := by
  unfold vmConvertTo at h
  split at h
  · rename_i c hc
    cases h
    exact ⟨convert_unit' tbl a c b.unit hc, simplifyReg_respects_flag tbl reg _ rfl⟩
  · cases h

/-! ### totality: the `unwrap` of heuristic 3 cannot fail -/

theorem foldl_step_some {σ β : Type} (step : Option σ → β → Option σ) (P : β → Prop)
    (hstep : ∀ (acc : σ) (g : β), P g → ∃ r, step (some acc) g = some r) :
    ∀ (gs : List β), (∀ g ∈ gs, P g) → ∀ acc : σ, ∃ r, gs.foldl step (some acc) = some r := by
  intro gs
  induction gs with
  | nil => intro _ acc; exact ⟨acc, rfl⟩
  | cons g gs ih =>
    intro h acc
    simp only [List.foldl_cons]
    obtain ⟨r, hr⟩ := hstep acc g (h g List.mem_cons_self)
    rw [hr]
    exact ih (fun x hx => h x (List.mem_cons_of_mem _ hx)) r

theorem foldl_step_ne_none {σ β : Type} (step : Option σ → β → Option σ) (P : β → Prop)
    (hstep : ∀ (acc : σ) (g : β), P g → ∃ r, step (some acc) g = some r)
    (gs : List β) (hP : ∀ g ∈ gs, P g) (acc : σ) : gs.foldl step (some acc) ≠ none := by
  obtain ⟨r, hr⟩ := foldl_step_some step P hstep gs hP acc
  rw [hr]; simp

/-- **`full_simplify` is total**: for every unit table whose definitions refer to earlier rows only and whose
rows have distinct names (both kernel-checked for the regenerated prelude table), the grouped conversion of
heuristic 3 always succeeds — the `unwrap` in `Quantity::full_simplify` cannot panic.  (Before the repair
`275b2e3` it could: the exponent of the group was computed from the first factor of the *stored* definition
instead of the canonical base representation.) -/
theorem simplify_total (tbl : Table α) (hwf : WF tbl) (hn : NamesDistinct tbl) (q : Quantity α) :
    ∃ r, fullSimplify tbl q = some r := by
  unfold fullSimplify
  split
  · exact ⟨q, rfl⟩
  · split
    · exact ⟨_, rfl⟩
    · simp only
      split
      · exact ⟨_, rfl⟩
      · -- heuristic 3
        have hgroups := chunkBy_spec (fun f : Factor => sortKey tbl f.unit) (canon tbl q.unit)
        split
        · rename_i hfold
          exfalso
          refine foldl_step_ne_none _
            (fun g : Unit => g ≠ [] ∧ ∀ x ∈ g, ∀ y ∈ g, sortKey tbl x.unit = sortKey tbl y.unit) ?_ _ hgroups (one, []) hfold
          intro acc g hg
          obtain ⟨factor, simplified⟩ := acc
          obtain ⟨rep, hrep, hmem⟩ := maxBy_mem (fun (f1 f2 : Factor) =>
              if (isBaseUnit tbl f1.unit != isBaseUnit tbl f2.unit) = true then
                !isBaseUnit tbl f1.unit && isBaseUnit tbl f2.unit
              else decide (f1.exp ≤ f2.exp)) g hg.1
          simp only [hrep]
          have hkey : ∀ f ∈ g, sortKey tbl f.unit = sortKey tbl rep.unit := fun f hf => hg.2 f hf rep hmem
          obtain ⟨c, hc⟩ := convComplete tbl hn ⟨one, g, true⟩ _ (fun b => h3_target_vec tbl hwf hn g rep hkey b)
          rw [hc]
          exact ⟨_, rfl⟩
        · exact ⟨_, rfl⟩

/-- the registry-based simplification (what the interpreter applies to displayed results) is total too: its only
`none` is the one of `full_simplify` -/
theorem simplifyReg_total (tbl : Table α) (hwf : WF tbl) (hn : NamesDistinct tbl) (reg : List RegRow) (q : Quantity α) :
    ∃ r, fullSimplifyReg tbl reg q = some r := by
  obtain ⟨s, hs⟩ := simplify_total tbl hwf hn q
  unfold fullSimplifyReg
  rw [hs]
  simp only
  split
  · exact ⟨_, rfl⟩
  · split
    · exact ⟨_, rfl⟩
    · split
      · exact ⟨_, rfl⟩
      · split <;> exact ⟨_, rfl⟩

end NumbatModel.Qty
