import NumbatModel.Lemmas.QtyCanon
import NumbatModel.Lemmas.QtyProg
set_option linter.unusedSectionVars false
/-!
# C01 — accepted programs never go wrong dimensionally at run time

The statement for the expression fragment of the language (numbers incl. the polymorphic zero, units with
prefixes, `+ − × ÷`, negation, powers with compile-time exponents).  `HasDim` is the static typing relation
over dimension vectors, `evalQ` the run-time semantics (the VM's quantity operations), `ValOK` says that a
run-time value agrees with a static dimension.

`soundness`: for every typed expression over a unit table with distinct unit names, evaluation never fails
with a unit incompatibility and every value has the dimension of its static type.  It follows from
`soundness_partial` (the same under the explicit hypothesis `ConvComplete`: conversions between units of
equal dimension vector succeed) and `convComplete` (Lemmas/QtyCanon.lean: the canonical form of base
representations is unique, so equal dimension vectors give equal base representations).  The statements
about functions, structs and lists of the property are covered by the implementation oracle of this check
only (they need the typed core language of C09/C02).
-/
namespace NumbatModel.Qty
open NumOps LawfulNum

variable {α : Type} [NumOps α] [Lean.Grind.Field α] [L : LawfulNum α]

theorem isZero_mul_left (x y : Quantity α) (h : x.isZero = true) : (qmul x y).isZero = true := by
  rw [isZero_iff] at *
  simp only [qmul, mul_eq, h]; grind

theorem isZero_mul_right (x y : Quantity α) (h : y.isZero = true) : (qmul x y).isZero = true := by
  rw [isZero_iff] at *
  simp only [qmul, mul_eq, h]; grind

/-- what `qadd`/`qsub` return when both operands agree with the same static dimension -/
theorem addsub_ok (tbl : Table α) (hc : ConvComplete tbl) (d : DimV) (x y : Quantity α)
    (hx : ValOK tbl x d) (hy : ValOK tbl y d)
    (op : α → α → α) (zeroLeft : Quantity α) (hzl : ValOK tbl zeroLeft d)
    (f : Table α → Quantity α → Quantity α → Except QErr (Quantity α))
    (hf : f tbl x y =
      if x.isZero then .ok zeroLeft
      else if y.isZero then .ok x
      else if unitEq tbl x.unit y.unit then .ok ⟨op x.value y.value, x.unit, true⟩
      else
        let u := smallerUnit tbl x.unit y.unit
        match convertTo tbl x u, convertTo tbl y u with
        | .ok a', .ok b' => .ok ⟨op a'.value b'.value, u, true⟩
        | .error e, _ => .error e
        | _, .error e => .error e) :
    ∃ r, f tbl x y = .ok r ∧ ValOK tbl r d := by
  rw [hf]
  by_cases hxz : x.isZero = true
  · simp only [hxz, if_true]; exact ⟨zeroLeft, rfl, hzl⟩
  · by_cases hyz : y.isZero = true
    · simp only [hxz, hyz, if_true, Bool.false_eq_true, if_false]; exact ⟨x, rfl, hx⟩
    · have hxv : ∀ b, unitVec tbl x.unit b = d b := by
        rcases hx with h | h
        · exact absurd h hxz
        · exact h
      have hyv : ∀ b, unitVec tbl y.unit b = d b := by
        rcases hy with h | h
        · exact absurd h hyz
        · exact h
      simp only [hxz, hyz, Bool.false_eq_true, if_false]
      split
      · exact ⟨_, rfl, Or.inr hxv⟩
      · have hu : ∀ b, unitVec tbl (smallerUnit tbl x.unit y.unit) b = d b := by
          unfold smallerUnit; split
          · exact hxv
          · exact hyv
        obtain ⟨a', ha'⟩ := hc x (smallerUnit tbl x.unit y.unit) (fun b => by rw [hxv, hu])
        obtain ⟨b', hb'⟩ := hc y (smallerUnit tbl x.unit y.unit) (fun b => by rw [hyv, hu])
        simp only [ha', hb']
        exact ⟨_, rfl, Or.inr hu⟩

/-- **Soundness** of the typing relation for the expression fragment, under `ConvComplete`:
evaluation of a well-typed expression either yields a value that agrees with the static dimension, or
fails with a division by zero — never with a unit incompatibility. -/
theorem soundness_partial (tbl : Table α) (hc : ConvComplete tbl) (e : QExpr α) (d : DimV)
    (ht : HasDim tbl e d) :
    (∃ q, evalQ tbl e = .ok q ∧ ValOK tbl q d) ∨ evalQ tbl e = .error .divZero := by
  induction ht with
  | num v d h =>
    left
    refine ⟨⟨v, [], true⟩, rfl, ?_⟩
    rcases h with h | h
    · right; intro b; simp [unitVec, h b]
    · left; exact h
  | unit f => left; exact ⟨⟨one, [f], true⟩, rfl, Or.inr (fun _ => rfl)⟩
  | @neg a d _ ih =>
    rcases ih with ⟨q, hq, hv⟩ | he
    · left
      refine ⟨q.neg, by simp [evalQ, hq, Except.map], ?_⟩
      rcases hv with hz | hv
      · left
        rw [isZero_iff] at *
        simp only [Quantity.neg, neg_eq, hz]; grind
      · right; exact hv
    · right; simp [evalQ, he, Except.map]
  | @add a b d _ _ iha ihb =>
    rcases iha with ⟨x, hx, hvx⟩ | he
    · rcases ihb with ⟨y, hy, hvy⟩ | he
      · left
        obtain ⟨r, hr, hvr⟩ := addsub_ok tbl hc d x y hvx hvy NumOps.add y hvy qadd (by unfold qadd; rfl)
        exact ⟨r, by simp only [evalQ, hx, hy]; exact hr, hvr⟩
      · right; simp only [evalQ, hx, he]
    · right; simp only [evalQ, he]
  | @sub a b d _ _ iha ihb =>
    rcases iha with ⟨x, hx, hvx⟩ | he
    · rcases ihb with ⟨y, hy, hvy⟩ | he
      · left
        have hneg : ValOK tbl y.neg d := by
          rcases hvy with hz | hv
          · left
            rw [isZero_iff] at *
            simp only [Quantity.neg, neg_eq, hz]; grind
          · right; exact hv
        obtain ⟨r, hr, hvr⟩ := addsub_ok tbl hc d x y hvx hvy NumOps.sub y.neg hneg qsub (by unfold qsub; rfl)
        exact ⟨r, by simp only [evalQ, hx, hy]; exact hr, hvr⟩
      · right; simp only [evalQ, hx, he]
    · right; simp only [evalQ, he]
  | @mul a b d₁ d₂ _ _ iha ihb =>
    rcases iha with ⟨x, hx, hvx⟩ | he
    · rcases ihb with ⟨y, hy, hvy⟩ | he
      · left
        refine ⟨qmul x y, by simp only [evalQ, hx, hy], ?_⟩
        rcases hvx with hz | hvx
        · left; exact isZero_mul_left x y hz
        · rcases hvy with hz | hvy
          · left; exact isZero_mul_right x y hz
          · right; intro b
            simp only [qmul, Unit.mul, unitVec_append, hvx, hvy]
      · right; simp only [evalQ, hx, he]
    · right; simp only [evalQ, he]
  | @div a b d₁ d₂ _ _ iha ihb =>
    rcases iha with ⟨x, hx, hvx⟩ | he
    · rcases ihb with ⟨y, hy, hvy⟩ | he
      · simp only [evalQ, hx, hy, checkedDiv]
        by_cases hyz : y.isZero = true
        · right; simp [hyz]
        · left
          simp only [hyz, Bool.false_eq_true, if_false]
          refine ⟨qdiv x y, rfl, ?_⟩
          have hvy' : ∀ b, unitVec tbl y.unit b = d₂ b := by
            rcases hvy with h | h
            · exact absurd h hyz
            · exact h
          rcases hvx with hz | hvx
          · left
            rw [isZero_iff] at *
            simp only [qdiv, div_eq, hz]; grind
          · right; intro b
            simp only [qdiv, Unit.div, Unit.invert, unitVec_append, unitVec_power, hvx, hvy']
            grind
      · right; simp only [evalQ, hx, he]
    · right; simp only [evalQ, he]
  | @pow a d r _ ih =>
    rcases ih with ⟨x, hx, hvx⟩ | he
    · simp only [evalQ, hx, checkedPower]
      by_cases hc' : (decide (r < 0) && x.isZero) = true
      · right; simp [hc']
      · left
        simp only [hc', Bool.false_eq_true, if_false]
        refine ⟨_, rfl, ?_⟩
        rcases hvx with hz | hvx
        · -- a (polymorphic) zero base
          have hr : ¬ r < 0 := by
            intro hlt; apply hc'; simp [hlt, hz]
          by_cases hr0 : r = 0
          · right; intro b
            simp only [unitVec_power, hr0]; grind
          · left
            have hpos : 0 < r := by grind
            rw [isZero_iff] at *
            simp only [hz]
            exact rpow_zero_base r hpos
        · right; intro b
          simp only [unitVec_power, hvx]
    · right; simp only [evalQ, he]

/-- **Soundness**, unconditional in the conversion hypothesis: for every unit table whose rows have distinct
names (checked by the kernel on the regenerated prelude table), a well-typed expression evaluates to a value
that agrees with its static dimension, or fails with a division by zero. -/
theorem soundness (tbl : Table α) (hn : NamesDistinct tbl) (e : QExpr α) (d : DimV) (ht : HasDim tbl e d) :
    (∃ q, evalQ tbl e = .ok q ∧ ValOK tbl q d) ∨ evalQ tbl e = .error .divZero :=
  soundness_partial tbl (convComplete tbl hn) e d ht

/-- corollary: a well-typed expression never fails with a unit incompatibility -/
theorem no_incompatible_units (tbl : Table α) (hc : ConvComplete tbl) (e : QExpr α) (d : DimV)
    (ht : HasDim tbl e d) : evalQ tbl e ≠ .error .incompatible := by
  rcases soundness_partial tbl hc e d ht with ⟨q, hq, _⟩ | he
  · rw [hq]; simp
  · rw [he]; simp

/-! ## The program fragment: variables, conversions, comparisons, boolean logic, conditionals, functions, `let`/`fn` sequences -/

theorem binQ_ok {x y : Except PErr (PVal α)} {f : Quantity α → Quantity α → Except PErr (PVal α)} {v : PVal α}
    (h : binQ x y f = .ok v) : ∃ a b, x = .ok (.q a) ∧ y = .ok (.q b) ∧ f a b = .ok v := by
  unfold binQ at h
  split at h <;> first | exact ⟨_, _, rfl, rfl, h⟩ | cases h

theorem pos_div' (a b : α) (ha : Pos a) (hb : Pos b) : Pos (a / b) := by
  have h1 := rpow_add b 1 (-1) hb
  have h2 := rpow_zero b hb
  have h3 := rpow_one b hb
  have h4 : (1 : Rat) + -1 = 0 := by grind
  rw [h4, h2, h3] at h1
  have hne := pos_ne_zero b hb
  have : a / b = a * rpow b (-1) := by grind
  rw [this]
  exact pos_mul _ _ ha (pos_rpow b (-1) hb)

/-- the value of a unit expression is positive (it is a product of powers of ones), in particular not a zero -/
theorem unitExpr_pos (tbl : Table α) (fns : List (FnDef α)) (glob : List (PVal α)) : ∀ (t : PExpr α),
    t.isUnitExpr = true → ∀ fuel loc y, evalP tbl fns glob fuel loc t = .ok (.q y) → Pos y.value := by
  intro t
  induction t with
  | unit f =>
    intro _ fuel loc y h
    cases fuel with
    | zero => simp [evalP] at h
    | succ fuel =>
      simp only [evalP] at h
      injection h with h; injection h with h; subst h
      show Pos (one : α)
      rw [one_eq]; exact pos_one
  | mul a b iha ihb =>
    intro hu fuel loc y h
    simp only [PExpr.isUnitExpr, Bool.and_eq_true] at hu
    cases fuel with
    | zero => simp [evalP] at h
    | succ fuel =>
      simp only [evalP] at h
      obtain ⟨x, z, hx, hz, hf⟩ := binQ_ok h
      injection hf with hf; injection hf with hf; subst hf
      show Pos (mul x.value z.value)
      rw [mul_eq]
      exact pos_mul _ _ (iha hu.1 fuel loc x hx) (ihb hu.2 fuel loc z hz)
  | div a b iha ihb =>
    intro hu fuel loc y h
    simp only [PExpr.isUnitExpr, Bool.and_eq_true] at hu
    cases fuel with
    | zero => simp [evalP] at h
    | succ fuel =>
      simp only [evalP] at h
      obtain ⟨x, z, hx, hz, hf⟩ := binQ_ok h
      have hzp := ihb hu.2 fuel loc z hz
      have hz0 : z.isZero = false := by
        cases hzz : z.isZero
        · rfl
        · exact absurd ((isZero_iff z).mp hzz) (pos_ne_zero _ hzp)
      simp only [checkedDiv, hz0, liftQ] at hf
      injection hf with hf; injection hf with hf; subst hf
      show Pos (div x.value z.value)
      rw [div_eq]
      exact pos_div' _ _ (iha hu.1 fuel loc x hx) hzp
  | pow a r iha =>
    intro hu fuel loc y h
    simp only [PExpr.isUnitExpr] at hu
    cases fuel with
    | zero => simp [evalP] at h
    | succ fuel =>
      simp only [evalP] at h
      split at h
      · rename_i x hx
        have hxp := iha hu fuel loc x hx
        have hx0 : x.isZero = false := by
          cases hzz : x.isZero
          · rfl
          · exact absurd ((isZero_iff x).mp hzz) (pos_ne_zero _ hxp)
        simp only [checkedPower, hx0, Bool.and_false, liftQ] at h
        injection h with h; injection h with h; subst h
        exact pos_rpow _ _ hxp
      · cases h
      · cases h
  | num _ => intro hu; simp [PExpr.isUnitExpr] at hu
  | var _ => intro hu; simp [PExpr.isUnitExpr] at hu
  | loc _ => intro hu; simp [PExpr.isUnitExpr] at hu
  | neg _ _ => intro hu; simp [PExpr.isUnitExpr] at hu
  | add _ _ _ _ => intro hu; simp [PExpr.isUnitExpr] at hu
  | sub _ _ _ _ => intro hu; simp [PExpr.isUnitExpr] at hu
  | conv _ _ _ _ => intro hu; simp [PExpr.isUnitExpr] at hu
  | cmp _ _ _ _ _ => intro hu; simp [PExpr.isUnitExpr] at hu
  | eq _ _ _ _ => intro hu; simp [PExpr.isUnitExpr] at hu
  | ne _ _ _ _ => intro hu; simp [PExpr.isUnitExpr] at hu
  | and _ _ _ _ => intro hu; simp [PExpr.isUnitExpr] at hu
  | or _ _ _ _ => intro hu; simp [PExpr.isUnitExpr] at hu
  | not _ _ => intro hu; simp [PExpr.isUnitExpr] at hu
  | blit _ => intro hu; simp [PExpr.isUnitExpr] at hu
  | ite _ _ _ _ _ _ => intro hu; simp [PExpr.isUnitExpr] at hu
  | call _ _ _ => intro hu; simp [PExpr.isUnitExpr] at hu
  | noarg => intro hu; simp [PExpr.isUnitExpr] at hu
  | arg _ _ _ _ => intro hu; simp [PExpr.isUnitExpr] at hu
  | lst _ _ => intro hu; simp [PExpr.isUnitExpr] at hu
  | head _ _ => intro hu; simp [PExpr.isUnitExpr] at hu
  | tail _ _ => intro hu; simp [PExpr.isUnitExpr] at hu
  | cons _ _ _ _ => intro hu; simp [PExpr.isUnitExpr] at hu
  | len _ _ => intro hu; simp [PExpr.isUnitExpr] at hu
  | mk _ _ => intro hu; simp [PExpr.isUnitExpr] at hu
  | get _ _ _ => intro hu; simp [PExpr.isUnitExpr] at hu

theorem vok_dim {tbl : Table α} {v : PVal α} {d : DimV} (h : VOK tbl v (.dim d)) : ∃ x, v = .q x ∧ ValOK tbl x d := by
  cases v with
  | q x => exact ⟨x, rfl, by simpa [VOK] using h⟩
  | b _ => simp [VOK] at h
  | list _ => simp [VOK] at h
  | struct _ => simp [VOK] at h

theorem vok_bool {tbl : Table α} {v : PVal α} (h : VOK tbl v .bool) : ∃ x, v = .b x := by
  cases v with
  | q _ => simp [VOK] at h
  | b x => exact ⟨x, rfl⟩
  | list _ => simp [VOK] at h
  | struct _ => simp [VOK] at h

theorem vok_struct {tbl : Table α} {v : PVal α} {ts : List PTy} (h : VOK tbl v (.struct ts)) :
    ∃ vs, v = .struct vs ∧ EnvOK tbl vs ts := by
  cases v with
  | q _ => simp [VOK] at h
  | b _ => simp [VOK] at h
  | list _ => simp [VOK] at h
  | struct vs => exact ⟨vs, rfl, by simpa [VOK] using h⟩

theorem envOK_reverse (tbl : Table α) : ∀ (vs : List (PVal α)) (ts : List PTy), EnvOK tbl vs ts →
    EnvOK tbl vs.reverse ts.reverse
  | [], [], _ => by simp [EnvOK]
  | [], _ :: _, h => by simp [EnvOK] at h
  | _ :: _, [], h => by simp [EnvOK] at h
  | v :: vs, t :: ts, h => by
    simp only [EnvOK] at h
    simp only [List.reverse_cons]
    exact envOK_snoc tbl _ _ (envOK_reverse tbl vs ts h.2) v t h.1

theorem vok_list {tbl : Table α} {v : PVal α} {t : PTy} (h : VOK tbl v (.list t)) :
    ∃ vs, v = .list vs ∧ VOKAll tbl vs t := by
  cases v with
  | q _ => simp [VOK] at h
  | b _ => simp [VOK] at h
  | list vs => exact ⟨vs, rfl, by simpa [VOK] using h⟩
  | struct _ => simp [VOK] at h

/-- values that agree position by position with copies of one type all agree with that type -/
theorem vokAll_of_envOK (tbl : Table α) (t : PTy) : ∀ (vs : List (PVal α)) (ts : List PTy),
    EnvOK tbl vs ts → (∀ x ∈ ts, x = t) → VOKAll tbl vs t
  | [], [], _, _ => by simp [VOKAll]
  | [], _ :: _, h, _ => by simp [EnvOK] at h
  | _ :: _, [], h, _ => by simp [EnvOK] at h
  | v :: vs, t' :: ts, h, hall => by
    obtain ⟨hv, hrest⟩ := h
    have ht : t' = t := hall t' List.mem_cons_self
    subst ht
    simp only [VOKAll]
    exact ⟨hv, vokAll_of_envOK tbl t' vs ts hrest (fun x hx => hall x (List.mem_cons_of_mem _ hx))⟩

/-- the failures a well-typed run may end in: a division by zero (a run-time error numbat reports), or the
model's fuel ran out (a non-terminating recursion; not an outcome of the interpreter), or `head`/`tail` of an
empty list (a run-time error numbat reports) -/
def Bad {β : Type} (r : Except PErr β) : Prop :=
  r = .error (.q .divZero) ∨ r = .error .emptyList ∨ r = .error .outOfFuel

/-- the outcome of evaluating a typed sub-expression, as the induction hypothesis states it -/
def Sound (tbl : Table α) (r : Except PErr (PVal α)) (t : PTy) : Prop :=
  (∃ v, r = .ok v ∧ VOK tbl v t) ∨ Bad r

def SoundArgs (tbl : Table α) (r : Except PErr (List (PVal α))) (ts : List PTy) : Prop :=
  (∃ vs, r = .ok vs ∧ EnvOK tbl vs ts) ∨ Bad r

theorem binQ_bad_left {ea eb : Except PErr (PVal α)} (f : Quantity α → Quantity α → Except PErr (PVal α))
    (h : Bad ea) : Bad (binQ ea eb f) := by
  rcases h with h | h | h <;> (rw [h]; unfold binQ Bad; simp)

theorem binQ_bad_right {x : Quantity α} {eb : Except PErr (PVal α)}
    (f : Quantity α → Quantity α → Except PErr (PVal α)) (h : Bad eb) : Bad (binQ (.ok (.q x)) eb f) := by
  rcases h with h | h | h <;> (rw [h]; unfold binQ Bad; simp)

theorem binQ_cases (tbl : Table α) {ea eb : Except PErr (PVal α)} {d₁ d₂ : DimV}
    (f : Quantity α → Quantity α → Except PErr (PVal α))
    (ha : Sound tbl ea (.dim d₁)) (hb : Sound tbl eb (.dim d₂)) :
    (∃ x y, ValOK tbl x d₁ ∧ ValOK tbl y d₂ ∧ ea = .ok (.q x) ∧ eb = .ok (.q y) ∧ binQ ea eb f = f x y) ∨
      Bad (binQ ea eb f) := by
  rcases ha with ⟨va, hea, hva⟩ | hea
  · obtain ⟨x, hx, hvx⟩ := vok_dim hva
    subst hx
    rcases hb with ⟨vb, heb, hvb⟩ | heb
    · obtain ⟨y, hy, hvy⟩ := vok_dim hvb
      subst hy
      left; exact ⟨x, y, hvx, hvy, hea, heb, by rw [hea, heb]; rfl⟩
    · right; rw [hea]; exact binQ_bad_right f heb
  · right; exact binQ_bad_left f hea

theorem binB_cases (tbl : Table α) {ea eb : Except PErr (PVal α)} (f : Bool → Bool → Bool)
    (ha : Sound tbl ea .bool) (hb : Sound tbl eb .bool) : Sound tbl (binB ea eb f) .bool := by
  rcases ha with ⟨va, hea, hva⟩ | hea
  · obtain ⟨x, hx⟩ := vok_bool hva
    subst hx
    rcases hb with ⟨vb, heb, hvb⟩ | heb
    · obtain ⟨y, hy⟩ := vok_bool hvb
      subst hy
      left; exact ⟨.b (f x y), by rw [hea, heb]; rfl, trivial⟩
    · right; rcases heb with h | h | h <;> (rw [hea, h]; unfold binB Bad; simp)
  · right; rcases hea with h | h | h <;> (rw [h]; unfold binB Bad; simp)

theorem convertTo_unit' (tbl : Table α) (q q' : Quantity α) (U : Unit)
    (h : convertTo tbl q U = .ok q') : q'.unit = U := by
  unfold convertTo at h
  split at h
  · cases h; rfl
  · simp only at h
    split at h
    · cases h; rfl
    · cases h

theorem convertTo_zero_ok (tbl : Table α) (q : Quantity α) (U : Unit) (h : q.isZero = true) :
    convertTo tbl q U = .ok ⟨q.value, U, true⟩ := by
  unfold convertTo; simp [h]

/-- converting a value that agrees with `d` into a unit of dimension `d` succeeds -/
theorem convert_ok_of_valOK (tbl : Table α) (hc : ConvComplete tbl) (x : Quantity α) (U : Unit) (d : DimV)
    (hx : ValOK tbl x d) (hU : ∀ b, unitVec tbl U b = d b) : ∃ r, convertTo tbl x U = .ok r ∧ r.unit = U := by
  rcases hx with hz | hv
  · exact ⟨_, convertTo_zero_ok tbl x U hz, rfl⟩
  · obtain ⟨r, hr⟩ := hc x U (fun b => by rw [hv, hU])
    exact ⟨r, hr, convertTo_unit' tbl x r U hr⟩

/-- an ordering comparison of two values of the same static dimension never reports incompatible units -/
theorem vmCompare_ok (tbl : Table α) (hc : ConvComplete tbl) (op : CmpOp) (x y : Quantity α) (d : DimV)
    (hx : ValOK tbl x d) (hy : ValOK tbl y d) : ∃ r, vmCompare tbl op x y = .ok r := by
  have hq : qcmp tbl x y ≠ .incompatible := by
    unfold qcmp
    simp only [isNaN_false, Bool.or_self, Bool.false_eq_true, if_false]
    split
    · rename_i hz
      rw [convertTo_zero_ok tbl x y.unit hz]
      simp only
      unfold cmpValues
      split <;> (try split) <;> (try split) <;> simp
    · rename_i hz
      have hxv : ∀ b, unitVec tbl x.unit b = d b := by
        rcases hx with h | h
        · exact absurd h hz
        · exact h
      obtain ⟨r, hr, _⟩ := convert_ok_of_valOK tbl hc y x.unit d hy hxv
      rw [hr]
      simp only
      unfold cmpValues
      split <;> (try split) <;> (try split) <;> simp
  unfold vmCompare
  cases hres : qcmp tbl x y with
  | incompatible => exact absurd hres hq
  | nan => exact ⟨_, rfl⟩
  | lt => exact ⟨_, rfl⟩
  | eq => exact ⟨_, rfl⟩
  | gt => exact ⟨_, rfl⟩

/-- every function of the session was checked against a context that is still valid: its body is typed, for
its signature, under signatures and global types that the current ones include -/
def FnsOK (tbl : Table α) (fns : List (FnDef α)) (S : List FnSig) (Γ : List GTy) : Prop :=
  ∀ (f : Nat) (sig : FnSig), S[f]? = some sig → ∃ fd, fns[f]? = some fd ∧ ∀ ps r, sig.inst ps r →
    fd.arity = ps.length ∧ r.isVal = true ∧ ∃ S₁ Γ₁ ws, Incl S₁ S ∧ Incl Γ₁ Γ ∧
      WheresOK tbl S₁ Γ₁ ps fd.wheres ws ∧ HasTy tbl S₁ Γ₁ (ps ++ ws) fd.body r

theorem whereStep_error (ev : List (PVal α) → PExpr α → Except PErr (PVal α)) (err : PErr) (l : List (PExpr α)) :
    l.foldl (whereStep ev) (.error err) = .error err := by
  induction l with
  | nil => rfl
  | cons x xs ih => simp only [List.foldl_cons, whereStep]; exact ih

/-- the `where` clauses of a call: if the evaluator `ev` is sound for typed expressions, running the clauses
from locals that agree with `L` ends with locals that agree with `L ++ ws`, or badly -/
theorem wheres_sound (tbl : Table α) (ev : List (PVal α) → PExpr α → Except PErr (PVal α))
    (S₁ : List FnSig) (Γ₁ : List GTy)
    (hev : ∀ (L : List PTy) (loc : List (PVal α)) (w : PExpr α) (t : PTy), EnvOK tbl loc L →
      HasTy tbl S₁ Γ₁ L w t → t.isVal = true → Sound tbl (ev loc w) t)
    (L : List PTy) (wexprs : List (PExpr α)) (wts : List PTy) (hwo : WheresOK tbl S₁ Γ₁ L wexprs wts) :
    ∀ loc₀, EnvOK tbl loc₀ L →
      (∃ loc', wexprs.foldl (whereStep ev) (.ok loc₀) = .ok loc' ∧ EnvOK tbl loc' (L ++ wts)) ∨
      Bad (wexprs.foldl (whereStep ev) (.ok loc₀)) := by
  induction hwo with
  | nil L => intro loc₀ h0; left; exact ⟨loc₀, rfl, by simpa using h0⟩
  | @cons L w tw rest wts' hv hwt _ ihw =>
    intro loc₀ h0
    simp only [List.foldl_cons]
    rcases hev L loc₀ w tw h0 hwt hv with ⟨v, hv', hvok⟩ | he
    · have hstep : whereStep ev (.ok loc₀) w = .ok (loc₀ ++ [v]) := by simp only [whereStep, hv']
      rw [hstep]
      rcases ihw (loc₀ ++ [v]) (envOK_snoc tbl loc₀ L h0 v tw hvok) with ⟨loc', hl', hok'⟩ | hb
      · left; exact ⟨loc', hl', by simpa [List.append_assoc] using hok'⟩
      · right; exact hb
    · right
      rcases he with h | h | h
      · have hstep : whereStep ev (.ok loc₀) w = .error (.q .divZero) := by simp only [whereStep, h]
        rw [hstep, whereStep_error]; left; rfl
      · have hstep : whereStep ev (.ok loc₀) w = .error .emptyList := by simp only [whereStep, h]
        rw [hstep, whereStep_error]; right; left; rfl
      · have hstep : whereStep ev (.ok loc₀) w = .error .outOfFuel := by simp only [whereStep, h]
        rw [hstep, whereStep_error]; right; right; rfl

/-- **Soundness for expressions of the program fragment**, for every fuel: in a session whose globals agree
with their types and whose functions were checked (`FnsOK`), an expression typed under included contexts
evaluates to a value that agrees with its static type, or fails with a division by zero (or the fuel runs out) —
never with a unit incompatibility and never with an operand of the wrong kind.  Second part: the same for the
argument chain of a call. -/
theorem expr_soundness (tbl : Table α) (hc : ConvComplete tbl) (fns : List (FnDef α)) (S : List FnSig)
    (Γ : List GTy) (glob : List (PVal α)) (henv : GlobOK tbl glob Γ) (hfns : FnsOK tbl fns S Γ) :
    ∀ fuel : Nat,
      (∀ (S₀ : List FnSig) (Γ₀ : List GTy) (L : List PTy) (loc : List (PVal α)) (e : PExpr α) (t : PTy),
        Incl S₀ S → Incl Γ₀ Γ → EnvOK tbl loc L → HasTy tbl S₀ Γ₀ L e t → t.isVal = true →
        Sound tbl (evalP tbl fns glob fuel loc e) t) ∧
      (∀ (S₀ : List FnSig) (Γ₀ : List GTy) (L : List PTy) (loc : List (PVal α)) (e : PExpr α) (ts : List PTy),
        Incl S₀ S → Incl Γ₀ Γ → EnvOK tbl loc L → HasTy tbl S₀ Γ₀ L e (.args ts) →
        SoundArgs tbl (evalArgs tbl fns glob fuel loc e) ts) := by
  intro fuel
  induction fuel with
  | zero =>
    constructor
    · intro _ _ _ _ _ _ _ _ _ _ _; right; right; right; simp [evalP]
    · intro _ _ _ _ _ _ _ _ _ _; right; right; right; simp [evalArgs]
  | succ fuel ih =>
    obtain ⟨ihE, ihA⟩ := ih
    constructor
    · intro S₀ Γ₀ L loc e t hS hΓ hloc ht hval
      have IH : ∀ (e' : PExpr α) (t' : PTy), HasTy tbl S₀ Γ₀ L e' t' → t'.isVal = true →
          Sound tbl (evalP tbl fns glob fuel loc e') t' :=
        fun e' t' h' hv' => ihE S₀ Γ₀ L loc e' t' hS hΓ hloc h' hv'
      cases ht with
      | num v d h =>
        left
        refine ⟨.q ⟨v, [], true⟩, by simp only [evalP], ?_⟩
        rcases h with h | h
        · right; intro b; simp [unitVec, h b]
        · left; exact h
      | unit f => left; exact ⟨.q ⟨one, [f], true⟩, by simp only [evalP], Or.inr (fun _ => rfl)⟩
      | var i T _ h hT =>
        obtain ⟨v, hv, hvok⟩ := globOK_get tbl glob Γ henv i T (hΓ i T h)
        left; exact ⟨v, by simp only [evalP, hv], hvok t hT⟩
      | loc i _ h =>
        obtain ⟨v, hv, hvok⟩ := envOK_get tbl loc L hloc i t h
        left; exact ⟨v, by simp only [evalP, hv], hvok⟩
      | @neg a d ha =>
        simp only [evalP]
        rcases IH a _ ha rfl with ⟨v, hv, hvok⟩ | he
        · obtain ⟨x, hx, hvx⟩ := vok_dim hvok
          subst hx
          left
          refine ⟨.q x.neg, by rw [hv], ?_⟩
          rcases hvx with hz | hvx
          · left
            rw [isZero_iff] at *
            simp only [Quantity.neg, neg_eq, hz]; grind
          · right; exact hvx
        · right; rcases he with h | h | h <;> (rw [h]; unfold Bad; simp)
      | @add a b d ha hb =>
        simp only [evalP]
        rcases binQ_cases tbl _ (IH a _ ha rfl) (IH b _ hb rfl) with ⟨x, y, hvx, hvy, _, _, hf⟩ | he
        · rw [hf]
          obtain ⟨r, hr, hvr⟩ := addsub_ok tbl hc d x y hvx hvy NumOps.add y hvy qadd (by unfold qadd; rfl)
          left; exact ⟨.q r, by simp only [hr, liftQ], hvr⟩
        · right; exact he
      | @sub a b d ha hb =>
        simp only [evalP]
        rcases binQ_cases tbl _ (IH a _ ha rfl) (IH b _ hb rfl) with ⟨x, y, hvx, hvy, _, _, hf⟩ | he
        · rw [hf]
          have hneg : ValOK tbl y.neg d := by
            rcases hvy with hz | hv
            · left
              rw [isZero_iff] at *
              simp only [Quantity.neg, neg_eq, hz]; grind
            · right; exact hv
          obtain ⟨r, hr, hvr⟩ := addsub_ok tbl hc d x y hvx hvy NumOps.sub y.neg hneg qsub (by unfold qsub; rfl)
          left; exact ⟨.q r, by simp only [hr, liftQ], hvr⟩
        · right; exact he
      | @mul a b d₁ d₂ ha hb =>
        simp only [evalP]
        rcases binQ_cases tbl _ (IH a _ ha rfl) (IH b _ hb rfl) with ⟨x, y, hvx, hvy, _, _, hf⟩ | he
        · rw [hf]
          left
          refine ⟨.q (qmul x y), rfl, ?_⟩
          rcases hvx with hz | hvx
          · left; exact isZero_mul_left x y hz
          · rcases hvy with hz | hvy
            · left; exact isZero_mul_right x y hz
            · right; intro b
              simp only [qmul, Unit.mul, unitVec_append, hvx, hvy]
        · right; exact he
      | @div a b d₁ d₂ ha hb =>
        simp only [evalP]
        rcases binQ_cases tbl _ (IH a _ ha rfl) (IH b _ hb rfl) with ⟨x, y, hvx, hvy, _, _, hf⟩ | he
        · rw [hf]
          simp only [checkedDiv]
          by_cases hyz : y.isZero = true
          · right; left; simp [hyz, liftQ]
          · left
            simp only [hyz, Bool.false_eq_true, if_false, liftQ]
            refine ⟨.q (qdiv x y), rfl, ?_⟩
            have hvy' : ∀ b, unitVec tbl y.unit b = d₂ b := by
              rcases hvy with h | h
              · exact absurd h hyz
              · exact h
            rcases hvx with hz | hvx
            · left
              rw [isZero_iff] at *
              simp only [qdiv, div_eq, hz]; grind
            · right; intro b
              simp only [qdiv, Unit.div, Unit.invert, unitVec_append, unitVec_power, hvx, hvy']
              grind
        · right; exact he
      | @pow a d r ha =>
        simp only [evalP]
        rcases IH a _ ha rfl with ⟨v, hv, hvok⟩ | he
        · obtain ⟨x, hx, hvx⟩ := vok_dim hvok
          subst hx
          rw [hv]
          simp only [checkedPower]
          by_cases hc' : (decide (r < 0) && x.isZero) = true
          · right; left; simp [hc', liftQ]
          · left
            simp only [hc', Bool.false_eq_true, if_false, liftQ]
            refine ⟨_, rfl, ?_⟩
            rcases hvx with hz | hvx
            · have hr : ¬ r < 0 := by
                intro hlt; apply hc'; simp [hlt, hz]
              by_cases hr0 : r = 0
              · right; intro b
                simp only [unitVec_power, hr0]; grind
              · left
                have hpos : 0 < r := by grind
                rw [isZero_iff] at *
                simp only [hz]
                exact rpow_zero_base r hpos
            · right; intro b
              simp only [unitVec_power, hvx]
        · right; rcases he with h | h | h <;> (rw [h]; unfold Bad; simp)
      | @conv a tt d ha hu htt =>
        simp only [evalP]
        rcases binQ_cases tbl _ (IH a _ ha rfl) (IH tt _ htt rfl) with ⟨x, y, hvx, hvy, _, hey, hf⟩ | he
        · rw [hf]
          have hyp := unitExpr_pos tbl fns glob tt hu fuel loc y hey
          have hyv : ∀ b, unitVec tbl y.unit b = d b := by
            rcases hvy with hz | hv
            · exact absurd ((isZero_iff y).mp hz) (pos_ne_zero _ hyp)
            · exact hv
          obtain ⟨r, hr, hru⟩ := convert_ok_of_valOK tbl hc x y.unit d hvx hyv
          left
          refine ⟨.q { r with canSimplify := false }, by simp only [vmConvertTo, hr, liftQ], ?_⟩
          right; intro b
          show unitVec tbl r.unit b = d b
          rw [hru]; exact hyv b
        · right; exact he
      | @cmp a b d op ha hb =>
        simp only [evalP]
        rcases binQ_cases tbl _ (IH a _ ha rfl) (IH b _ hb rfl) with ⟨x, y, hvx, hvy, _, _, hf⟩ | he
        · rw [hf]
          obtain ⟨r, hr⟩ := vmCompare_ok tbl hc op x y d hvx hvy
          left; exact ⟨.b r, by simp only [hr, liftB], trivial⟩
        · right; exact he
      | @eq a b d ha hb =>
        simp only [evalP]
        rcases binQ_cases tbl _ (IH a _ ha rfl) (IH b _ hb rfl) with ⟨x, y, _, _, _, _, hf⟩ | he
        · rw [hf]; left; exact ⟨_, rfl, trivial⟩
        · right; exact he
      | @ne a b d ha hb =>
        simp only [evalP]
        rcases binQ_cases tbl _ (IH a _ ha rfl) (IH b _ hb rfl) with ⟨x, y, _, _, _, _, hf⟩ | he
        · rw [hf]; left; exact ⟨_, rfl, trivial⟩
        · right; exact he
      | @and a b ha hb => simp only [evalP]; exact binB_cases tbl _ (IH a _ ha rfl) (IH b _ hb rfl)
      | @or a b ha hb => simp only [evalP]; exact binB_cases tbl _ (IH a _ ha rfl) (IH b _ hb rfl)
      | @not a ha =>
        simp only [evalP]
        rcases IH a _ ha rfl with ⟨v, hv, hvok⟩ | he
        · obtain ⟨x, hx⟩ := vok_bool hvok
          subst hx
          left; exact ⟨.b (!x), by rw [hv], trivial⟩
        · right; rcases he with h | h | h <;> (rw [h]; unfold Bad; simp)
      | blit v => left; exact ⟨.b v, by simp only [evalP], trivial⟩
      | @ite c tt ee _ hty hcnd htt hee =>
        simp only [evalP]
        rcases IH c _ hcnd rfl with ⟨v, hv, hvok⟩ | he
        · obtain ⟨x, hx⟩ := vok_bool hvok
          subst hx
          rw [hv]
          cases x with
          | true => exact IH tt _ htt hty
          | false => exact IH ee _ hee hty
        · right; rcases he with h | h | h <;> (rw [h]; unfold Bad; simp)
      | @call f args sig hsig ps _ hinst hargs =>
        simp only [evalP]
        rcases ihA S₀ Γ₀ L loc args ps hS hΓ hloc hargs with ⟨vs, hvs, hvsok⟩ | he
        · rw [hvs]
          obtain ⟨fd, hfd, hall⟩ := hfns f sig (hS f sig hsig)
          obtain ⟨har, hret, S₁, Γ₁, ws, hS₁, hΓ₁, hwh, hbody⟩ := hall ps t hinst
          have hlen : vs.length = fd.arity := by rw [har]; exact envOK_length tbl vs ps hvsok
          simp only [hfd, hlen, if_true]
          -- the `where` clauses: every value agrees with its type, or the run ends badly
          have hw := wheres_sound tbl (fun l w => evalP tbl fns glob fuel l w) S₁ Γ₁
            (fun L loc₀ w tw h0 hwt hv => ihE S₁ Γ₁ L loc₀ w tw hS₁ hΓ₁ h0 hwt hv)
          rcases hw ps fd.wheres ws hwh vs hvsok with ⟨loc', hl', hok'⟩ | hb
          · rw [hl']
            exact ihE S₁ Γ₁ (ps ++ ws) loc' fd.body t hS₁ hΓ₁ hok' hbody hret
          · rcases hb with h | h | h <;> (rw [h]; right; unfold Bad; simp)
        · right; rcases he with h | h | h <;> (rw [h]; unfold Bad; simp)
      | noarg => simp [PTy.isVal] at hval
      | arg _ _ _ => simp [PTy.isVal] at hval
      | @lst elems ts t' htv hall hel =>
        simp only [evalP]
        rcases ihA S₀ Γ₀ L loc elems ts hS hΓ hloc hel with ⟨vs, hvs, hvsok⟩ | he
        · rw [hvs]
          left; exact ⟨.list vs, rfl, by simp only [VOK]; exact vokAll_of_envOK tbl t' vs ts hvsok hall⟩
        · right; rcases he with h | h | h <;> (rw [h]; unfold Bad; simp)
      | @head l _ htv hl =>
        simp only [evalP]
        rcases IH l _ hl (by simpa [PTy.isVal] using htv) with ⟨v, hv, hvok⟩ | he
        · obtain ⟨vs, hx, hall⟩ := vok_list hvok
          subst hx
          rw [hv]
          cases vs with
          | nil => right; right; left; rfl
          | cons x xs => left; simp only [VOKAll] at hall; exact ⟨x, rfl, hall.1⟩
        · right; rcases he with h | h | h <;> (rw [h]; unfold Bad; simp)
      | @tail l t' hl =>
        simp only [evalP]
        rcases IH l _ hl hval with ⟨v, hv, hvok⟩ | he
        · obtain ⟨vs, hx, hall⟩ := vok_list hvok
          subst hx
          rw [hv]
          cases vs with
          | nil => right; right; left; rfl
          | cons x xs => left; simp only [VOKAll] at hall; exact ⟨.list xs, rfl, by simp only [VOK]; exact hall.2⟩
        · right; rcases he with h | h | h <;> (rw [h]; unfold Bad; simp)
      | @cons a l t' ha hl =>
        simp only [evalP]
        have htv : t'.isVal = true := by simpa [PTy.isVal] using hval
        rcases IH a _ ha htv with ⟨v, hv, hvok⟩ | he
        · rw [hv]
          rcases IH l _ hl hval with ⟨w, hw, hwok⟩ | he
          · obtain ⟨vs, hx, hall⟩ := vok_list hwok
            subst hx
            rw [hw]
            left; exact ⟨.list (v :: vs), rfl, by simp only [VOK, VOKAll]; exact ⟨hvok, hall⟩⟩
          · right; rcases he with h | h | h <;> (rw [h]; unfold Bad; simp)
        · right; rcases he with h | h | h <;> (rw [h]; unfold Bad; simp)
      | @mk fields ts hall hf =>
        simp only [evalP]
        rcases ihA S₀ Γ₀ L loc fields ts hS hΓ hloc hf with ⟨vs, hvs, hvsok⟩ | he
        · rw [hvs]
          left; exact ⟨.struct vs.reverse, rfl, by simp only [VOK]; exact envOK_reverse tbl vs ts hvsok⟩
        · right; rcases he with h | h | h <;> (rw [h]; unfold Bad; simp)
      | @get e' ts i _ htv hall hi he' =>
        simp only [evalP]
        rcases IH e' _ he' (by simpa [PTy.isVal] using hall) with ⟨v, hv, hvok⟩ | hbad
        · obtain ⟨vs, hx, hok⟩ := vok_struct hvok
          subst hx
          rw [hv]
          obtain ⟨w, hw, hwok⟩ := envOK_get tbl vs ts hok i t hi
          simp only [hw]
          left; exact ⟨w, rfl, hwok⟩
        · right; rcases hbad with h | h | h <;> (rw [h]; unfold Bad; simp)
      | @len l t' htv hl =>
        simp only [evalP]
        rcases IH l _ hl (by simpa [PTy.isVal] using htv) with ⟨v, hv, hvok⟩ | he
        · obtain ⟨vs, hx, _⟩ := vok_list hvok
          subst hx
          rw [hv]
          left; exact ⟨_, rfl, by simp only [VOK]; exact Or.inr (fun _ => rfl)⟩
        · right; rcases he with h | h | h <;> (rw [h]; unfold Bad; simp)
    · intro S₀ Γ₀ L loc e ts hS hΓ hloc ht
      generalize hteq : PTy.args ts = t at ht
      cases ht with
      | noarg =>
        injection hteq with hteq; subst hteq
        left; exact ⟨[], by simp only [evalArgs], trivial⟩
      | @arg a rest t' ts' hv ha hrest =>
        injection hteq with hteq; subst hteq
        simp only [evalArgs]
        rcases ihE S₀ Γ₀ L loc a t' hS hΓ hloc ha hv with ⟨v, hv', hvok⟩ | he
        · rw [hv']
          rcases ihA S₀ Γ₀ L loc rest ts' hS hΓ hloc hrest with ⟨vs, hvs, hvsok⟩ | he
          · rw [hvs]; left; exact ⟨v :: vs, rfl, ⟨hvok, hvsok⟩⟩
          · right; rcases he with h | h | h <;> (rw [h]; unfold Bad; simp)
        · right; rcases he with h | h | h <;> (rw [h]; unfold Bad; simp)
      | var i T _ h hT =>
        -- a global of an `args` type cannot exist: no value agrees with it
        subst hteq
        obtain ⟨v, _, hvok⟩ := globOK_get tbl glob Γ henv i T (hΓ i T h)
        have := hvok _ hT
        cases v <;> simp [VOK] at this
      | loc i _ h =>
        subst hteq
        obtain ⟨v, _, hvok⟩ := envOK_get tbl loc L hloc i _ h
        cases v <;> simp [VOK] at hvok
      | @ite c tt ee _ hty _ _ _ => subst hteq; simp [PTy.isVal] at hty
      | @call f args sig hsig ps _ hinst hargs =>
        obtain ⟨fd, _, hall⟩ := hfns f sig (hS f sig hsig)
        obtain ⟨_, hret, _⟩ := hall ps _ hinst
        rw [← hteq] at hret
        simp [PTy.isVal] at hret
      | num _ _ _ => cases hteq
      | unit _ => cases hteq
      | neg _ => cases hteq
      | add _ _ => cases hteq
      | sub _ _ => cases hteq
      | mul _ _ => cases hteq
      | div _ _ => cases hteq
      | pow _ _ => cases hteq
      | conv _ _ _ => cases hteq
      | cmp _ _ _ => cases hteq
      | eq _ _ => cases hteq
      | ne _ _ => cases hteq
      | and _ _ => cases hteq
      | or _ _ => cases hteq
      | not _ => cases hteq
      | blit _ => cases hteq
      | lst _ _ _ _ => cases hteq
      | @head l _ htv _ => subst hteq; simp [PTy.isVal] at htv
      | tail _ => cases hteq
      | cons _ _ => cases hteq
      | len _ _ => cases hteq
      | mk _ _ => cases hteq
      | @get e' ts i _ htv _ _ _ => subst hteq; simp [PTy.isVal] at htv

/-- the invariant of a session of the fragment: globals agree with their types, functions were checked -/
def StateOK (tbl : Table α) (st : PState α) (S : List FnSig) (Γ : List GTy) : Prop :=
  GlobOK tbl st.glob Γ ∧ FnsOK tbl st.fns S Γ

theorem fnsOK_grow_glob (tbl : Table α) {fns : List (FnDef α)} {S : List FnSig} {Γ : List GTy} (T : GTy)
    (h : FnsOK tbl fns S Γ) : FnsOK tbl fns S (Γ ++ [T]) := by
  intro f sig hs
  obtain ⟨fd, hfd, hall⟩ := h f sig hs
  refine ⟨fd, hfd, fun ps r hi => ?_⟩
  obtain ⟨har, hret, S₁, Γ₁, ws, hS₁, hΓ₁, hw, hb⟩ := hall ps r hi
  exact ⟨har, hret, S₁, Γ₁, ws, hS₁, hΓ₁.trans (Incl.append Γ [T]), hw, hb⟩

theorem fnsOK_add_fn (tbl : Table α) {fns : List (FnDef α)} {S : List FnSig} {Γ : List GTy} (d : FnDef α)
    (sig : FnSig) (hlen : fns.length = S.length)
    (hb : ∀ ps r, sig.inst ps r → r.isVal = true ∧ d.arity = ps.length ∧
      ∃ ws, WheresOK tbl (S ++ [sig]) Γ ps d.wheres ws ∧ HasTy tbl (S ++ [sig]) Γ (ps ++ ws) d.body r)
    (h : FnsOK tbl fns S Γ) :
    FnsOK tbl (fns ++ [d]) (S ++ [sig]) Γ := by
  intro f sg hs
  by_cases hf : f < S.length
  · rw [List.getElem?_append_left hf] at hs
    obtain ⟨fd, hfd, hall⟩ := h f sg hs
    refine ⟨fd, ?_, fun ps r hi => ?_⟩
    · rw [List.getElem?_append_left (by omega)]; exact hfd
    · obtain ⟨har', hret', S₁, Γ₁, ws, hS₁, hΓ₁, hw', hb'⟩ := hall ps r hi
      exact ⟨har', hret', S₁, Γ₁, ws, hS₁.trans (Incl.append S [sig]), hΓ₁, hw', hb'⟩
  · have hfe : f = S.length := by
      rcases Nat.lt_or_ge f (S.length + 1) with h' | h'
      · omega
      · rw [List.getElem?_eq_none (by simp; omega)] at hs; cases hs
    subst hfe
    simp at hs; subst hs
    refine ⟨d, ?_, fun ps r hi => ?_⟩
    · rw [← hlen]; simp
    · obtain ⟨hret, har, ws, hw, hbody⟩ := hb ps r hi
      exact ⟨har, hret, S ++ [sig], Γ, ws, Incl.refl _, Incl.refl _, hw, hbody⟩

/-- **Soundness for programs** (sequences of `let` and `fn` definitions), for every fuel: running a well-typed
program in a session that satisfies the invariant either fails with a division by zero (or runs out of fuel), or
ends in a session in which *every* global — the earlier ones and each newly defined one — agrees with its
static type and every function is checked. -/
theorem program_soundness (tbl : Table α) (hc : ConvComplete tbl) (fuel : Nat) (S S' : List FnSig)
    (Γ Γ' : List GTy) (prog : List (PStmt α)) (hp : ProgOK tbl S Γ prog S' Γ') :
    ∀ st : PState α, StateOK tbl st S Γ → st.fns.length = S.length →
    (∃ st', runProg tbl fuel prog st = .ok st' ∧ StateOK tbl st' S' Γ') ∨ Bad (runProg tbl fuel prog st) := by
  induction hp with
  | nil S Γ => intro st hst _; left; exact ⟨st, rfl, hst⟩
  | @letv S Γ e rest S' Γ' T hne hall _ ih =>
    intro st hst hlen
    obtain ⟨henv, hfns⟩ := hst
    obtain ⟨t₀, ht₀⟩ := hne
    have hsound : ∀ t, T t → Sound tbl (evalP tbl st.fns st.glob fuel [] e) t := fun t ht =>
      (expr_soundness tbl hc st.fns S Γ st.glob henv hfns fuel).1 S Γ [] [] e t (Incl.refl _) (Incl.refl _)
        trivial (hall t ht).2 (hall t ht).1
    rcases hsound t₀ ht₀ with ⟨v, hv, _⟩ | he
    · simp only [runProg, hv]
      have hvall : ∀ t, T t → VOK tbl v t := by
        intro t ht
        rcases hsound t ht with ⟨v', hv', hvok'⟩ | he'
        · rw [hv] at hv'; injection hv' with hv'; subst hv'; exact hvok'
        · rcases he' with h | h | h <;> (rw [hv] at h; cases h)
      exact ih { st with glob := st.glob ++ [v] }
        ⟨globOK_snoc tbl st.glob Γ henv v T hvall, fnsOK_grow_glob tbl T hfns⟩ hlen
    · right; rcases he with h | h | h <;> (simp only [runProg, h]; unfold Bad; simp)
  | @fn S Γ d rest S' Γ' sig hb _ ih =>
    intro st hst hlen
    obtain ⟨henv, hfns⟩ := hst
    simp only [runProg]
    exact ih { st with fns := st.fns ++ [d] } ⟨henv, fnsOK_add_fn tbl d sig hlen hb hfns⟩ (by simp [hlen])

/-- the same for the prelude's kind of table (distinct unit names), started from the empty session -/
theorem program_soundness_closed (tbl : Table α) (hn : NamesDistinct tbl) (fuel : Nat) (S' : List FnSig)
    (Γ' : List GTy) (prog : List (PStmt α)) (hp : ProgOK tbl [] [] prog S' Γ') :
    (∃ st', runProg tbl fuel prog {} = .ok st' ∧ StateOK tbl st' S' Γ') ∨ Bad (runProg tbl fuel prog {}) :=
  program_soundness tbl (convComplete tbl hn) fuel [] S' [] Γ' prog hp {}
    ⟨trivial, fun f sig h => by simp at h⟩ rfl

/-- corollary: a well-typed program never fails with a unit incompatibility and never gets stuck on an
operand of the wrong kind -/
theorem program_no_incompatible (tbl : Table α) (hc : ConvComplete tbl) (fuel : Nat) (S' : List FnSig)
    (Γ' : List GTy) (prog : List (PStmt α)) (hp : ProgOK tbl [] [] prog S' Γ') :
    runProg tbl fuel prog {} ≠ .error (.q .incompatible) ∧ runProg tbl fuel prog {} ≠ .error .stuck := by
  rcases program_soundness tbl hc fuel [] S' [] Γ' prog hp {} ⟨trivial, fun f sig h => by simp at h⟩ rfl with
    ⟨st', h, _⟩ | h | h | h
  · rw [h]; exact ⟨by simp, by simp⟩
  · rw [h]; exact ⟨by simp, by simp⟩
  · rw [h]; exact ⟨by simp, by simp⟩
  · rw [h]; exact ⟨by simp, by simp⟩

/-- the signature `fn f<D: Dim>(x: D) -> D` as a set of instances -/
def sigIdDim : FnSig := ⟨fun ps r => ∃ d, ps = [.dim d] ∧ r = .dim d⟩

/-- non-vacuity: a program with a *polymorphic* global (`let z = 0`, usable at every dimension), a *generic*
recursive function (one instance per dimension), comparisons, a conditional and calls at two different
dimensions is typed by `ProgOK` (over any table), so the hypotheses of `program_soundness` are satisfiable:

    let z = 0
    fn f(x) = if x <= z then x else f(y) where y = x + z      -- fn f<D: Dim>(x: D) -> D
    let a = f(3)                                     -- at Scalar
    let b = f(1 u)                                   -- at the dimension of the unit `u`
-/
example (tbl : Table α) (v : α) (u : Factor) :
    ProgOK tbl [] []
      [.letv (.num zero),
       .fn ⟨1, [.add (.loc 0) (.var 0)], .ite (.cmp .le (.loc 0) (.var 0)) (.loc 0) (.call 0 (.arg (.loc 1) .noarg))⟩,
       .letv (.call 0 (.arg (.num v) .noarg)),
       .letv (.call 0 (.arg (.unit u) .noarg))]
      [sigIdDim]
      [fun t => ∃ d, t = .dim d, fun t => t = .dim (fun _ => 0), fun t => t = .dim (unitVec tbl [u])] := by
  have hz : beq (zero : α) zero = true := (beq_iff _ _).mpr rfl
  refine .letv (fun t => ∃ d, t = .dim d) ⟨.dim (fun _ => 0), _, rfl⟩ ?_
    (.fn sigIdDim ?_
      (.letv (fun t => t = .dim (fun _ => 0)) ⟨_, rfl⟩ ?_
        (.letv (fun t => t = .dim (unitVec tbl [u])) ⟨_, rfl⟩ ?_ (.nil _ _))))
  · rintro t ⟨d, rfl⟩
    exact ⟨rfl, .num zero d (Or.inr hz)⟩
  · rintro ps r ⟨d, rfl, rfl⟩
    refine ⟨rfl, rfl, [.dim d], ?_, ?_⟩
    · exact .cons rfl (.add (.loc 0 _ rfl) (.var 0 _ (.dim d) rfl ⟨d, rfl⟩)) (.nil _)
    · refine .ite rfl (.cmp .le (.loc 0 _ rfl) (.var 0 _ (.dim d) rfl ⟨d, rfl⟩)) (.loc 0 _ rfl) ?_
      exact .call sigIdDim rfl [.dim d] (.dim d) ⟨d, rfl, rfl⟩ (.arg rfl (.loc 1 _ rfl) .noarg)
  · rintro t rfl
    exact ⟨rfl, .call sigIdDim rfl [.dim (fun _ => 0)] _ ⟨_, rfl, rfl⟩ (.arg rfl (.num v _ (Or.inl fun _ => rfl)) .noarg)⟩
  · rintro t rfl
    exact ⟨rfl, .call sigIdDim rfl [.dim (unitVec tbl [u])] _ ⟨_, rfl, rfl⟩ (.arg rfl (.unit u) .noarg)⟩

/-- the signature `fn sum<D: Dim>(xs: List<D>) -> D` as a set of instances -/
def sigSum : FnSig := ⟨fun ps r => ∃ d, ps = [.list (.dim d)] ∧ r = .dim d⟩

/-- non-vacuity for lists: the generic recursive list function

    fn sum(xs) = if len(xs) == 0 then 0 else head(xs) + sum(tail(xs))      -- fn sum<D: Dim>(xs: List<D>) -> D
    let s = sum([1 u, 0, 1 u])

is typed by `ProgOK` (the literal `0` in the list and in the base case are polymorphic zeros). -/
example (tbl : Table α) (u : Factor) :
    ProgOK tbl [] []
      [.fn ⟨1, [], .ite (.eq (.len (.loc 0)) (.num zero)) (.num zero)
          (.add (.head (.loc 0)) (.call 0 (.arg (.tail (.loc 0)) .noarg)))⟩,
       .letv (.call 0 (.arg (.lst (.arg (.unit u) (.arg (.num zero) (.arg (.unit u) .noarg)))) .noarg))]
      [sigSum] [fun t => t = .dim (unitVec tbl [u])] := by
  have hz : beq (zero : α) zero = true := (beq_iff _ _).mpr rfl
  refine .fn sigSum ?_ (.letv (fun t => t = .dim (unitVec tbl [u])) ⟨_, rfl⟩ ?_ (.nil _ _))
  · rintro ps r ⟨d, rfl, rfl⟩
    refine ⟨rfl, rfl, [], .nil _, ?_⟩
    refine .ite rfl (.eq (.len (t := .dim d) rfl (.loc 0 _ rfl)) (.num zero _ (Or.inl fun _ => rfl)))
      (.num zero d (Or.inr hz)) ?_
    exact .add (.head rfl (.loc 0 _ rfl))
      (.call sigSum rfl [.list (.dim d)] (.dim d) ⟨d, rfl, rfl⟩ (.arg rfl (.tail (.loc 0 _ rfl)) .noarg))
  · rintro t rfl
    refine ⟨rfl, .call sigSum rfl [.list (.dim (unitVec tbl [u]))] _ ⟨_, rfl, rfl⟩ (.arg rfl ?_ .noarg)⟩
    refine .lst (ts := [.dim (unitVec tbl [u]), .dim (unitVec tbl [u]), .dim (unitVec tbl [u])]) (.dim (unitVec tbl [u])) rfl
      (by intro x hx; simp at hx; exact hx) ?_
    exact .arg rfl (.unit u) (.arg rfl (.num zero _ (Or.inr hz)) (.arg rfl (.unit u) .noarg))

/-- non-vacuity for structs: `struct S { a: D, b: Bool }`, `let p = S { b: true, a: 1 u }`, `let x = p.a` — the
fields are evaluated in the reverse of the definition order (`b` first), the value lists them in definition order -/
example (tbl : Table α) (u : Factor) :
    ProgOK tbl [] []
      [.letv (.mk (.arg (.blit true) (.arg (.unit u) .noarg))), .letv (.get (.var 0) 0)]
      [] [fun t => t = .struct [.dim (unitVec tbl [u]), .bool], fun t => t = .dim (unitVec tbl [u])] := by
  refine .letv (fun t => t = .struct [.dim (unitVec tbl [u]), .bool]) ⟨_, rfl⟩ ?_
    (.letv (fun t => t = .dim (unitVec tbl [u])) ⟨_, rfl⟩ ?_ (.nil _ _))
  · rintro t rfl
    refine ⟨rfl, ?_⟩
    exact .mk (ts := [.bool, .dim (unitVec tbl [u])]) rfl (.arg rfl (.blit true) (.arg rfl (.unit u) .noarg))
  · rintro t rfl
    exact ⟨rfl, .get (ts := [.dim (unitVec tbl [u]), .bool]) 0 _ rfl rfl rfl (.var 0 _ _ rfl rfl)⟩

end NumbatModel.Qty
