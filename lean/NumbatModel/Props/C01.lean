import NumbatModel.Lemmas.QtyCanon
set_option linter.unusedSectionVars false
/-!
# C01 — accepted programs never go wrong dimensionally at run time

The statement for the expression fragment of the language (numbers incl. the polymorphic zero, units with
prefixes, `+ − × ÷`, negation, powers with compile-time exponents).  `HasDim` is the static typing relation
over dimension vectors, `evalQ` the run-time semantics (the VM's quantity operations), `ValOK` says that a
run-time value agrees with a static dimension.

`soundness`: for every typed expression over a unit table with distinct unit names, evaluation never fails
with a unit incompatibility and every value has the dimension of its static type.  It follows from
`soundness_partial` (the same under the explicit hypothesis `ConvComplete`: conversions between units of
equal dimension vector succeed) and `convComplete` (Lemmas/QtyCanon.lean: the canonical form of base
representations is unique, so equal dimension vectors give equal base representations).  The statements
about functions, structs and lists of the property are covered by the implementation oracle of this check
only (they need the typed core language of C09/C02).
-/
namespace NumbatModel.Qty
open NumOps LawfulNum

variable {α : Type} [NumOps α] [Lean.Grind.Field α] [L : LawfulNum α]

theorem isZero_mul_left (x y : Quantity α) (h : x.isZero = true) : (qmul x y).isZero = true := by
  rw [isZero_iff] at *
  simp only [qmul, mul_eq, h]; grind

theorem isZero_mul_right (x y : Quantity α) (h : y.isZero = true) : (qmul x y).isZero = true := by
  rw [isZero_iff] at *
  simp only [qmul, mul_eq, h]; grind

/-- what `qadd`/`qsub` return when both operands agree with the same static dimension -/
theorem addsub_ok (tbl : Table α) (hc : ConvComplete tbl) (d : DimV) (x y : Quantity α)
    (hx : ValOK tbl x d) (hy : ValOK tbl y d)
    (op : α → α → α) (zeroLeft : Quantity α) (hzl : ValOK tbl zeroLeft d)
    (f : Table α → Quantity α → Quantity α → Except QErr (Quantity α))
    (hf : f tbl x y =
      if x.isZero then .ok zeroLeft
      else if y.isZero then .ok x
      else if unitEq tbl x.unit y.unit then .ok ⟨op x.value y.value, x.unit, true⟩
      else
        let u := smallerUnit tbl x.unit y.unit
        match convertTo tbl x u, convertTo tbl y u with
        | .ok a', .ok b' => .ok ⟨op a'.value b'.value, u, true⟩
        | .error e, _ => .error e
        | _, .error e => .error e) :
    ∃ r, f tbl x y = .ok r ∧ ValOK tbl r d := by
  rw [hf]
  by_cases hxz : x.isZero = true
  · simp only [hxz, if_true]; exact ⟨zeroLeft, rfl, hzl⟩
  · by_cases hyz : y.isZero = true
    · simp only [hxz, hyz, if_true, Bool.false_eq_true, if_false]; exact ⟨x, rfl, hx⟩
    · have hxv : ∀ b, unitVec tbl x.unit b = d b := by
        rcases hx with h | h
        · exact absurd h hxz
        · exact h
      have hyv : ∀ b, unitVec tbl y.unit b = d b := by
        rcases hy with h | h
        · exact absurd h hyz
        · exact h
      simp only [hxz, hyz, Bool.false_eq_true, if_false]
      split
      · exact ⟨_, rfl, Or.inr hxv⟩
      · have hu : ∀ b, unitVec tbl (smallerUnit tbl x.unit y.unit) b = d b := by
          unfold smallerUnit; split
          · exact hxv
          · exact hyv
        obtain ⟨a', ha'⟩ := hc x (smallerUnit tbl x.unit y.unit) (fun b => by rw [hxv, hu])
        obtain ⟨b', hb'⟩ := hc y (smallerUnit tbl x.unit y.unit) (fun b => by rw [hyv, hu])
        simp only [ha', hb']
        exact ⟨_, rfl, Or.inr hu⟩

/-- **Soundness** of the typing relation for the expression fragment, under `ConvComplete`:
evaluation of a well-typed expression either yields a value that agrees with the static dimension, or
fails with a division by zero — never with a unit incompatibility. -/
theorem soundness_partial (tbl : Table α) (hc : ConvComplete tbl) (e : QExpr α) (d : DimV)
    (ht : HasDim tbl e d) :
    (∃ q, evalQ tbl e = .ok q ∧ ValOK tbl q d) ∨ evalQ tbl e = .error .divZero := by
  induction ht with
  | num v d h =>
    left
    refine ⟨⟨v, [], true⟩, rfl, ?_⟩
    rcases h with h | h
    · right; intro b; simp [unitVec, h b]
    · left; exact h
  | unit f => left; exact ⟨⟨one, [f], true⟩, rfl, Or.inr (fun _ => rfl)⟩
  | @neg a d _ ih =>
    rcases ih with ⟨q, hq, hv⟩ | he
    · left
      refine ⟨q.neg, by simp [evalQ, hq, Except.map], ?_⟩
      rcases hv with hz | hv
      · left
        rw [isZero_iff] at *
        simp only [Quantity.neg, neg_eq, hz]; grind
      · right; exact hv
    · right; simp [evalQ, he, Except.map]
  | @add a b d _ _ iha ihb =>
    rcases iha with ⟨x, hx, hvx⟩ | he
    · rcases ihb with ⟨y, hy, hvy⟩ | he
      · left
        obtain ⟨r, hr, hvr⟩ := addsub_ok tbl hc d x y hvx hvy NumOps.add y hvy qadd (by unfold qadd; rfl)
        exact ⟨r, by simp only [evalQ, hx, hy]; exact hr, hvr⟩
      · right; simp only [evalQ, hx, he]
    · right; simp only [evalQ, he]
  | @sub a b d _ _ iha ihb =>
    rcases iha with ⟨x, hx, hvx⟩ | he
    · rcases ihb with ⟨y, hy, hvy⟩ | he
      · left
        have hneg : ValOK tbl y.neg d := by
          rcases hvy with hz | hv
          · left
            rw [isZero_iff] at *
            simp only [Quantity.neg, neg_eq, hz]; grind
          · right; exact hv
        obtain ⟨r, hr, hvr⟩ := addsub_ok tbl hc d x y hvx hvy NumOps.sub y.neg hneg qsub (by unfold qsub; rfl)
        exact ⟨r, by simp only [evalQ, hx, hy]; exact hr, hvr⟩
      · right; simp only [evalQ, hx, he]
    · right; simp only [evalQ, he]
  | @mul a b d₁ d₂ _ _ iha ihb =>
    rcases iha with ⟨x, hx, hvx⟩ | he
    · rcases ihb with ⟨y, hy, hvy⟩ | he
      · left
        refine ⟨qmul x y, by simp only [evalQ, hx, hy], ?_⟩
        rcases hvx with hz | hvx
        · left; exact isZero_mul_left x y hz
        · rcases hvy with hz | hvy
          · left; exact isZero_mul_right x y hz
          · right; intro b
            simp only [qmul, Unit.mul, unitVec_append, hvx, hvy]
      · right; simp only [evalQ, hx, he]
    · right; simp only [evalQ, he]
  | @div a b d₁ d₂ _ _ iha ihb =>
    rcases iha with ⟨x, hx, hvx⟩ | he
    · rcases ihb with ⟨y, hy, hvy⟩ | he
      · simp only [evalQ, hx, hy, checkedDiv]
        by_cases hyz : y.isZero = true
        · right; simp [hyz]
        · left
          simp only [hyz, Bool.false_eq_true, if_false]
          refine ⟨qdiv x y, rfl, ?_⟩
          have hvy' : ∀ b, unitVec tbl y.unit b = d₂ b := by
            rcases hvy with h | h
            · exact absurd h hyz
            · exact h
          rcases hvx with hz | hvx
          · left
            rw [isZero_iff] at *
            simp only [qdiv, div_eq, hz]; grind
          · right; intro b
            simp only [qdiv, Unit.div, Unit.invert, unitVec_append, unitVec_power, hvx, hvy']
            grind
      · right; simp only [evalQ, hx, he]
    · right; simp only [evalQ, he]
  | @pow a d r _ ih =>
    rcases ih with ⟨x, hx, hvx⟩ | he
    · simp only [evalQ, hx, checkedPower]
      by_cases hc' : (decide (r < 0) && x.isZero) = true
      · right; simp [hc']
      · left
        simp only [hc', Bool.false_eq_true, if_false]
        refine ⟨_, rfl, ?_⟩
        rcases hvx with hz | hvx
        · -- a (polymorphic) zero base
          have hr : ¬ r < 0 := by
            intro hlt; apply hc'; simp [hlt, hz]
          by_cases hr0 : r = 0
          · right; intro b
            simp only [unitVec_power, hr0]; grind
          · left
            have hpos : 0 < r := by grind
            rw [isZero_iff] at *
            simp only [hz]
            exact rpow_zero_base r hpos
        · right; intro b
          simp only [unitVec_power, hvx]
    · right; simp only [evalQ, he]

/-- **Soundness**, unconditional in the conversion hypothesis: for every unit table whose rows have distinct
names (checked by the kernel on the regenerated prelude table), a well-typed expression evaluates to a value
that agrees with its static dimension, or fails with a division by zero. -/
theorem soundness (tbl : Table α) (hn : NamesDistinct tbl) (e : QExpr α) (d : DimV) (ht : HasDim tbl e d) :
    (∃ q, evalQ tbl e = .ok q ∧ ValOK tbl q d) ∨ evalQ tbl e = .error .divZero :=
  soundness_partial tbl (convComplete tbl hn) e d ht

/-- corollary: a well-typed expression never fails with a unit incompatibility -/
theorem no_incompatible_units (tbl : Table α) (hc : ConvComplete tbl) (e : QExpr α) (d : DimV)
    (ht : HasDim tbl e d) : evalQ tbl e ≠ .error .incompatible := by
  rcases soundness_partial tbl hc e d ht with ⟨q, hq, _⟩ | he
  · rw [hq]; simp
  · rw [he]; simp

end NumbatModel.Qty
