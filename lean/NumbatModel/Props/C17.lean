import NumbatModel.Lemmas.Modules
import NumbatModel.Lemmas.ModulesOrder
import NumbatModel.Lemmas.ModulesCheck
/-!
# C17 — standard-library modules compose in any order

Property theorems about the model of `Resolver::inlining_pass` (`Model/Modules.lean`, the definitions the
driver `drv_c17` executes).  All of them hold for **every** importer table (cyclic or not, with or without
unknown modules), every list of already imported modules and every input (any mixture of `use` lines and
other statements), unless a hypothesis says otherwise.  Helper lemmas are in `Lemmas/Modules.lean`.

* `inline_once`        each module is inlined at most once, completely, in textual order; a module already
                       recorded contributes nothing; `imported_modules` grows exactly by the entered modules
* `reimport_nothing`   re-importing anything recorded as imported yields no statement and changes nothing
* `deps_before_use`    when a statement of `M` is emitted, every module `M` imported textually before it has been
                       emitted completely — or is still open, which happens only on an import cycle through
                       both modules, and then exactly a textual prefix of it has been emitted
* `order_independent`  (closed, clash-free, acyclic table) every order of root imports covering the same closure
                       yields the same definitions and the same environment
-/
namespace NumbatModel.Modules

/-- **Each module is inlined at most once** — for every table, every `imported_modules` list `imp` before and
every input `prog`: if `Resolver::resolve` succeeds with trace `tr`, then
(1) `imported_modules` afterwards is the old list followed by the modules entered, in order of entering;
(2) no module is entered twice and none that was already recorded;
(3) every entered module contributes exactly its own statements, each once, in textual order;
(4) a module that is not entered (already imported before, or not imported at all) contributes nothing;
(5) the statements of the input itself are kept in order. -/
theorem inline_once (t : Table) (imp prog imp' tr) (h : resolve t imp prog = (imp', .ok tr)) :
    imp' = imp ++ entered tr ∧
    (entered tr).Nodup ∧ (∀ m ∈ entered tr, m ∉ imp) ∧
    (∀ m ∈ entered tr, ∀ b, body t m = some b → stmtsOf (some m) tr = defsOf 0 b) ∧
    (∀ m, m ∉ entered tr → stmtsOf (some m) tr = []) ∧
    stmtsOf none tr = defsOf 0 prog := by
  have hr := resolve_run h
  refine ⟨hr.imported, hr.fresh.1, hr.fresh.2, hr.stmtsOf_entered (originOk_none imp), ?_,
    hr.stmtsOf_self (originOk_none imp)⟩
  intro m hm
  exact hr.stmtsOf_other (some m) (by simp) (by intro m' h; cases h; exact hm)

example : resolve [(0, [.use 1, .defn [10] [11]]), (1, [.defn [11] []])] [] [.use 0, .use 1, .use 0] =
    ([0, 1], .ok [.enter 0, .enter 1, .stmt (some 1) 0 [11] [], .exit 1, .stmt (some 0) 1 [10] [11], .exit 0]) := by
  rfl

/-- **Re-importing adds nothing**: an input consisting of `use` lines for modules that are all recorded as
imported yields no statement and leaves `imported_modules` as it is (for every table, whether or not the
modules exist). -/
theorem reimport_nothing (t : Table) (imp : List Nat) (ms : List Nat) (h : ∀ m ∈ ms, m ∈ imp) :
    resolve t imp (ms.map .use) = (imp, .ok []) := by
  unfold resolve
  generalize (0 : Nat) = i
  induction ms generalizing i with
  | nil => rfl
  | cons m ms ih =>
    have hm : imp.contains m = true := by simpa using h m (by simp)
    simp only [List.map_cons, inlItems, hm, if_true]
    exact ih (fun x hx => h x (by simp [hx])) (i + 1)

/-- ... in particular after any successful input: importing the same modules (or any module recorded by then)
again changes nothing. -/
theorem reimport_after (t : Table) (imp prog imp' tr) (h : resolve t imp prog = (imp', .ok tr))
    (ms : List Nat) (hms : ∀ m ∈ ms, m ∈ usesOf prog ∨ m ∈ imp') :
    resolve t imp' (ms.map .use) = (imp', .ok []) := by
  apply reimport_nothing
  intro m hm
  rcases hms m hm with h1 | h1
  · exact (resolve_run h).uses_imported m h1
  · exact h1

example : resolve [(0, [.use 1, .defn [10] [11]]), (1, [.defn [11] []])] [0, 1] [.use 1, .use 0] = ([0, 1], .ok []) := by
  rfl

/-- **Dependencies before use** — for every table (cyclic or not), every `imported_modules` list `imp` before
and every input: at the moment a statement of module `M` (position `k`) is emitted — `pre` is the trace before
it — each module `N` named by a `use` line of `M` textually before position `k`
* was already imported before this input (`N ∈ imp`: nothing of it is emitted now), or
* has been emitted completely: it is exited and `pre` contains exactly its statements, each once, in order, or
* is still open (entered, not exited). Then `M` is reachable from `N` along `use` lines — `M` and `N` lie on an
  import cycle — and `pre` contains a textual prefix of the statements of `N` (those before the `use` line
  through which `M` was reached), nothing else of `N`. -/
theorem deps_before_use (t : Table) (imp prog imp' tr) (h : resolve t imp prog = (imp', .ok tr))
    (pre post : List Event) (M k : Nat) (ns us : List Nat)
    (hsplit : tr = pre ++ .stmt (some M) k ns us :: post)
    (bM : List Item) (hbM : body t M = some bM) (j N : Nat) (hj : j < k) (hjN : bM[j]? = some (.use N))
    (bN : List Item) (hbN : body t N = some bN) :
    N ∈ imp ∨
    (N ∈ exited pre ∧ stmtsOf (some N) pre = defsOf 0 bN) ∨
    (N ∈ entered pre ∧ N ∉ exited pre ∧ Reach t N M ∧ stmtsOf (some N) pre <+: defsOf 0 bN) := by
  have hr := resolve_run h
  have ok0 : SrcOk t none 0 prog imp := by intro M b h; cases h
  have hin := (hr.uses_before ok0 pre _ post hsplit M bM hbM).1 k ns us rfl j N hj hjN
  rcases List.mem_append.mp hin with hin | hin
  · exact Or.inl hin
  · right
    by_cases hex : N ∈ exited pre
    · left
      exact ⟨hex, hr.exited_complete (originOk_none imp) pre _ hsplit N hex bN hbN⟩
    · right
      refine ⟨hin, hex, hr.open_reach pre _ post hsplit M rfl N hin hex, ?_⟩
      have hall := hr.stmtsOf_entered (originOk_none imp) N (by rw [hsplit]; simp [hin]) bN hbN
      rw [hsplit, stmtsOf_append] at hall
      exact ⟨_, hall⟩

/-- In an acyclic table the third case cannot occur: every module imported textually before a statement was
imported by an earlier input or has been emitted completely before that statement. -/
theorem deps_before_use_acyclic (t : Table) (hac : Acyclic t) (imp prog imp' tr)
    (h : resolve t imp prog = (imp', .ok tr))
    (pre post : List Event) (M k : Nat) (ns us : List Nat)
    (hsplit : tr = pre ++ .stmt (some M) k ns us :: post)
    (bM : List Item) (hbM : body t M = some bM) (j N : Nat) (hj : j < k) (hjN : bM[j]? = some (.use N))
    (bN : List Item) (hbN : body t N = some bN) :
    N ∈ imp ∨ (N ∈ exited pre ∧ stmtsOf (some N) pre = defsOf 0 bN) := by
  rcases deps_before_use t imp prog imp' tr h pre post M k ns us hsplit bM hbM j N hj hjN bN hbN with
    h1 | h1 | ⟨_, _, hreach, _⟩
  · exact Or.inl h1
  · exact Or.inr h1
  · exact absurd hreach (hac.no_back hbM (mem_usesOf_of_getElem? hjN))

-- a cycle: 0 uses 1, 1 uses 0; when the statement of 1 is emitted, 0 is open and nothing of it has been emitted
example : resolve [(0, [.use 1, .defn [10] []]), (1, [.use 0, .defn [11] [10]])] [] [.use 0] =
    ([0, 1], .ok [.enter 0, .enter 1, .stmt (some 1) 1 [11] [10], .exit 1, .stmt (some 0) 1 [10] [], .exit 0]) := by
  rfl

/-- **One input or many**: a list of `use` lines resolved as one input gives the same as resolving the first
line as an input of its own and the rest afterwards (the traces are concatenated; an error stops both).  By
induction, any way of cutting a sequence of `use` lines into inputs gives the same statements and the same
`imported_modules`. -/
theorem resolve_uses_cons (t : Table) (imp : List Nat) (m : Nat) (ms : List Nat) :
    resolve t imp ((m :: ms).map .use) =
      match resolve t imp [.use m] with
      | (imp1, .error e) => (imp1, .error e)
      | (imp1, .ok tr1) =>
        match resolve t imp1 (ms.map .use) with
        | (imp2, .ok tr2) => (imp2, .ok (tr1 ++ tr2))
        | (imp2, .error e) => (imp2, .error e) := by
  unfold resolve
  simp only [List.map_cons, inlItems]
  split
  · simp only
    rw [inlItems_uses_index t _ none ms (0 + 1) 0 imp]
    cases inlItems t (inlMod t t.length) none 0 imp (ms.map Item.use) with
    | mk imp2 r2 => cases r2 <;> simp
  · cases body t m with
    | none => rfl
    | some b =>
      simp only
      cases inlMod t t.length (imp ++ [m]) m b with
      | mk imp1 r1 =>
        cases r1 with
        | error e => rfl
        | ok tr1 =>
          simp only
          rw [inlItems_uses_index t _ none ms (0 + 1) 0 imp1]
          cases inlItems t (inlMod t t.length) none 0 imp1 (ms.map Item.use) with
          | mk imp2 r2 => cases r2 <;> simp

/-- **Order independence** — for every table in which every `use` target exists, that is acyclic, closed (every
name a statement uses is introduced earlier in its module or by a module in the import closure of an earlier
`use` line of its module) and clash-free (a name is introduced at one place only), and for any two lists of
root imports that cover the same import closure (in any order, with any repetitions), starting from a fresh
session:
(1) both resolve successfully;
(2) the same modules are recorded as imported;
(3) the resulting statements are the same up to order (each statement of each module of the closure once);
(4) whatever the meaning `sem` of a definition as a function of the values of the names it uses, both statement
    sequences evaluate without an unknown name, and the two environments agree on every name. -/
theorem order_independent {V : Type} (t : Table) (hu : UsesExist t) (hac : Acyclic t) (hcl : Closed t)
    (hcf : ClashFree t) (roots1 roots2 : List Nat)
    (hex1 : ∀ r ∈ roots1, body t r ≠ none) (hex2 : ∀ r ∈ roots2, body t r ≠ none)
    (hclos : ∀ m, (∃ r ∈ roots1, Reach t r m) ↔ (∃ r ∈ roots2, Reach t r m))
    (sem : Sem V) :
    ∃ imp1 tr1 imp2 tr2 env1 env2,
      resolve t [] (roots1.map .use) = (imp1, .ok tr1) ∧
      resolve t [] (roots2.map .use) = (imp2, .ok tr2) ∧
      (∀ m, m ∈ imp1 ↔ m ∈ imp2) ∧
      (stmts tr1).Perm (stmts tr2) ∧
      evalStmts sem [] tr1 = .ok env1 ∧ evalStmts sem [] tr2 = .ok env2 ∧
      ∀ n, env1.lookup n = env2.lookup n := by
  obtain ⟨imp1, tr1, h1⟩ := resolve_ok hu [] (roots1.map .use) (by rw [usesOf_map_use]; exact hex1)
  obtain ⟨imp2, tr2, h2⟩ := resolve_ok hu [] (roots2.map .use) (by rw [usesOf_map_use]; exact hex2)
  have r1 := resolve_run h1
  have r2 := resolve_run h2
  have himp : ∀ m, m ∈ imp1 ↔ m ∈ imp2 := by
    intro m
    rw [r1.imported_iff_reach m, r2.imported_iff_reach m, usesOf_map_use, usesOf_map_use]
    exact hclos m
  have e1 : imp1 = entered tr1 := by simpa using r1.imported
  have e2 : imp2 = entered tr2 := by simpa using r2.imported
  have hperm : (stmts tr1).Perm (stmts tr2) := by
    have p1 := r1.stmts_perm
    have p2 := r2.stmts_perm
    rw [defEvents_map_use, List.nil_append] at p1 p2
    have pe : (entered tr1).Perm (entered tr2) :=
      (List.perm_ext_iff_of_nodup r1.fresh.1 r2.fresh.1).mpr (by intro m; rw [← e1, ← e2]; exact himp m)
    exact p1.trans ((pe.flatMap_right _).trans p2.symm)
  have hsame : ∀ o k ns us, Event.stmt o k ns us ∈ tr1 ↔ Event.stmt o k ns us ∈ tr2 := by
    intro o k ns us
    have := hperm.mem_iff (a := Event.stmt o k ns us)
    simp only [mem_stmts] at this
    constructor
    · intro h; exact (this.mp ⟨h, o, k, ns, us, rfl⟩).1
    · intro h; exact (this.mpr ⟨h, o, k, ns, us, rfl⟩).1
  obtain ⟨env1, env2, he1, he2, heq⟩ := evalStmts_order_independent sem tr1 tr2 hsame
    (r1.respects hcl hac) (r1.noRebind hcf) (r2.respects hcl hac) (r2.noRebind hcf)
  exact ⟨imp1, tr1, imp2, tr2, env1, env2, h1, h2, himp, hperm, he1, he2, heq⟩

/-- a diamond: 2 imports 0 and 1, 0 imports 1 -/
def exTable : Table :=
  [(0, [.use 1, .defn [10] [11]]), (1, [.defn [11] []]), (2, [.use 0, .use 1, .defn [12] [10, 11]])]

-- the hypotheses of `order_independent` are satisfiable, and importing `2` or `1, 0, 2` covers the same closure
example (V : Type) (sem : Sem V) :=
  have hu : UsesExist exTable := usesExistB_sound (by decide)
  have hac : Acyclic exTable := acyclicB_sound (r := [1, 0, 2]) (by decide)
  order_independent exTable hu hac
    (closedB_sound hu (closCertB_sound (c := [[0, 1], [1], [0, 1, 2]]) hu hac (by decide)) (by decide))
    (clashFreeB_sound (by decide)) [2] [1, 0, 2] (by decide) (by decide)
    (by
      have r20 : Reach exTable 2 0 := .step (b := [.use 0, .use 1, .defn [12] [10, 11]]) rfl (by simp [usesOf]) (.refl 0)
      have r21 : Reach exTable 2 1 := .step (b := [.use 0, .use 1, .defn [12] [10, 11]]) rfl (by simp [usesOf]) (.refl 1)
      intro m
      constructor
      · rintro ⟨r, hr, h⟩; exact ⟨r, by simp at hr; simp [hr], h⟩
      · rintro ⟨r, hr, h⟩
        simp only [List.mem_cons, List.not_mem_nil, or_false] at hr
        rcases hr with rfl | rfl | rfl
        · exact ⟨2, by simp, r21.trans h⟩
        · exact ⟨2, by simp, r20.trans h⟩
        · exact ⟨2, by simp, h⟩)
    sem

end NumbatModel.Modules
