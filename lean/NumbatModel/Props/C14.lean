import NumbatModel.Lemmas.NumFmtPost
/-!
# C14 — displayed numbers read back as the value they show

Property theorems only (model and specification vocabulary: `Model/NumFmt.lean`; helper lemmas:
`Lemmas/NumFmt.lean`, `Lemmas/NumFmtPost.lean`).  `pretty_dtoa` (digit generation and rounding to the configured
number of significant digits) is a parameter: the float-branch theorems speak about *every* string `raw` that
satisfies the decidable shape contract `wellFormedRaw`, which the driver checks on every string the real crate
returns.

Integer branch (all integers, all thresholds, every separator without digit or `-`):
* `int_all_digits`      removing the separator gives `-`? followed by exactly the decimal digits of `|n|`;
* `int_reads_back`      that text is a valid numbat literal whose exact value is `n`;
* `int_grouping`        without grouping there is no separator; with grouping the digits are split into a first
                        group of 1–3 and groups of exactly three, joined by the separator;
* `grouping_iff_digit_count` grouping is applied iff the separator is non-empty and the number has at least
                        `threshold` digits (for `n ≠ 0`);
* `integer_branch`      for a bit pattern whose value is an integer of magnitude below 2^53 the displayed text is
                        `fmtInt` of that integer, whatever `pretty_dtoa` returns; `integerValue_exact` ties the
                        integer to the bit pattern.
Float branch:
* `float_post_same_value` for every well-formed `raw`, the post-processed text is a valid numbat literal
                        (optionally under a unary minus) with exactly the decimal value of `raw`;
* `nan_inf_keywords`    NaN and ±inf never take the integer branch and their `dtoa` texts `NaN`, `inf`, `-inf`
                        are displayed unchanged.
-/
namespace NumbatModel.NumFmt

/-- a separator that cannot be confused with the number: no digit and no minus sign in it -/
def SepOK (sep : List Char) : Prop := ∀ c ∈ sep, isDigitChar c = false ∧ c ≠ '-'

theorem digits_not_in_sep {sep : List Char} (h : SepOK sep) {n : Nat} :
    ∀ c ∈ natDigits n, c ∉ sep := by
  intro c hc hs
  have := natDigits_isDigit hc
  simp [(h c hs).1] at this

/-! ## integer branch -/

/-- **All digits.** For every integer, threshold and admissible separator: removing the separator from the
displayed text leaves a `-` iff `n < 0`, followed by exactly the decimal digits of `|n|`. -/
theorem int_all_digits (n : Int) (opts : FormatOptions) (h : SepOK opts.digitSeparator) :
    removeSep opts.digitSeparator (fmtInt n opts) =
      (if n < 0 then ['-'] else []) ++ Nat.toDigits 10 n.natAbs := by
  have hd := digits_not_in_sep h (n := n.natAbs)
  have hbody : ∀ body, (body = natDigits n.natAbs ∨
      body = writeDigits opts.digitSeparator (natDigits n.natAbs).reverse 0 []) →
      removeSepAux opts.digitSeparator 0 body = natDigits n.natAbs := by
    intro body hb
    rcases hb with rfl | rfl
    · exact removeSep_of_disjoint _ _ hd
    · rw [removeSep_writeDigits _ _ _ _ (fun c hc => hd c (by simpa using hc))]
      simp [removeSepAux]
  have hminus : '-' ∉ opts.digitSeparator := fun hm => (h '-' hm).2 rfl
  unfold fmtInt removeSep
  simp only
  split
  · rw [removeSep_cons_of_not_mem _ _ _ hminus]
    split
    · rw [hbody _ (Or.inl rfl)]; rfl
    · rw [hbody _ (Or.inr rfl)]; rfl
  · split
    · rw [hbody _ (Or.inl rfl)]; rfl
    · rw [hbody _ (Or.inr rfl)]; rfl

example : fmtInt (-1234567) ⟨['_'], 6, 6⟩ = ['-', '1', '_', '2', '3', '4', '_', '5', '6', '7'] := by decide
example : fmtInt 12345 ⟨['_'], 6, 6⟩ = ['1', '2', '3', '4', '5'] := by decide

theorem digits_valid (n : Nat) : (RawNum.mk false (natDigits n) none none).Valid :=
  ⟨Nat.toDigits_ne_nil, fun _ hc => natDigits_isDigit hc, by simp, trivial⟩

/-- **Read-back.** The displayed integer without separator is a valid numbat literal (under a unary minus for
negative numbers) whose exact decimal value is `n`. -/
theorem int_reads_back (n : Int) (opts : FormatOptions) (h : SepOK opts.digitSeparator) :
    isSignedNumberLiteral (removeSep opts.digitSeparator (fmtInt n opts)) = true ∧
    decimalValue (removeSep opts.digitSeparator (fmtInt n opts)) = some (n : Rat) := by
  rw [int_all_digits n opts h]
  have hval : digitsToNat (natDigits n.natAbs) = n.natAbs := by
    simp [digitsToNat, natDigits]
  by_cases hn : n < 0
  · have hv : (RawNum.mk true (natDigits n.natAbs) none none).Valid :=
      ⟨Nat.toDigits_ne_nil, fun _ hc => natDigits_isDigit hc, by simp, trivial⟩
    have hr : (RawNum.mk true (natDigits n.natAbs) none none).render = '-' :: Nat.toDigits 10 n.natAbs := by
      simp [RawNum.render, renderSign, RawNum.renderAbs, renderTail, renderFrac, renderExp, natDigits]
    simp only [hn, if_true, List.singleton_append]
    rw [← hr]
    refine ⟨isSignedNumberLiteral_render _ hv, ?_⟩
    rw [decimalValue_render _ hv]
    simp only [RawNum.value, RawNum.absValue, RawNum.mantissa, expValue, if_true, hval]
    have : ((n.natAbs : Nat) : Int) = -n := by omega
    have h2 : ((n.natAbs : Nat) : Rat) = (((n.natAbs : Nat) : Int) : Rat) := (Rat.intCast_natCast _).symm
    rw [h2, this, Rat.intCast_neg]; simp
  · have hv := digits_valid n.natAbs
    have hr : (RawNum.mk false (natDigits n.natAbs) none none).render = Nat.toDigits 10 n.natAbs := by
      simp [RawNum.render, renderSign, RawNum.renderAbs, renderTail, renderFrac, renderExp, natDigits]
    simp only [hn, if_false, List.nil_append]
    rw [← hr]
    refine ⟨isSignedNumberLiteral_render _ hv, ?_⟩
    rw [decimalValue_render _ hv]
    simp only [RawNum.value, RawNum.absValue, RawNum.mantissa, expValue, Bool.false_eq_true, if_false, hval]
    have : ((n.natAbs : Nat) : Int) = n := by omega
    have h2 : ((n.natAbs : Nat) : Rat) = (((n.natAbs : Nat) : Int) : Rat) := (Rat.intCast_natCast _).symm
    rw [h2, this]

/-- **Grouping in threes from the right.** Without grouping the text is sign and digits; with grouping it is the
sign followed by groups joined by the separator, where the groups concatenate to the digits, the first group
has 1–3 digits and every other group exactly three. -/
theorem int_grouping (n : Int) (opts : FormatOptions) :
    (useGrouping n opts = false →
      fmtInt n opts = (if n < 0 then ['-'] else []) ++ Nat.toDigits 10 n.natAbs) ∧
    (useGrouping n opts = true →
      ∃ g0 gs, fmtInt n opts = (if n < 0 then ['-'] else []) ++ joinGroups opts.digitSeparator (g0 :: gs) ∧
        (g0 :: gs).flatten = Nat.toDigits 10 n.natAbs ∧ 1 ≤ g0.length ∧ g0.length ≤ 3 ∧
        ∀ g ∈ gs, g.length = 3) := by
  constructor
  · intro hu
    unfold fmtInt
    simp only [hu, Bool.not_false, Bool.or_true, if_true, natDigits]
    split <;> simp
  · intro hu
    have hsep : opts.digitSeparator.isEmpty = false := by
      unfold useGrouping at hu
      cases hse : opts.digitSeparator.isEmpty
      · rfl
      · simp [hse] at hu
    have hne : (natDigits n.natAbs).reverse ≠ [] := by
      simp [natDigits, Nat.toDigits_ne_nil]
    obtain ⟨g0, gs, h1, h2, h3, h4, h5⟩ :=
      writeDigits_groups opts.digitSeparator (natDigits n.natAbs).reverse 0 [] [] rfl (by omega)
        (by simp) (Or.inl hne)
    refine ⟨g0, gs, ?_, by simpa [natDigits] using h2, h3, h4, h5⟩
    unfold fmtInt
    simp only [hu, hsep, Bool.not_true, Bool.or_false, Bool.false_eq_true, if_false]
    have h1' : writeDigits opts.digitSeparator (natDigits n.natAbs).reverse 0 [] =
        joinGroups opts.digitSeparator (g0 :: gs) := by simpa [joinGroups] using h1
    rw [h1']
    split <;> simp

/-- **When grouping is applied.** For `n ≠ 0`: iff the separator is non-empty and the number has at least
`threshold` digits. (For `n = 0` the code never groups; with one digit it makes no difference.) -/
theorem grouping_iff_digit_count (n : Int) (opts : FormatOptions) (hn : n ≠ 0) :
    useGrouping n opts = true ↔
      opts.digitSeparator ≠ [] ∧ opts.digitGroupingThreshold ≤ (Nat.toDigits 10 n.natAbs).length := by
  have hpos : 1 ≤ n.natAbs := by omega
  have hlen : 1 ≤ (Nat.toDigits 10 n.natAbs).length := Nat.length_toDigits_pos
  unfold useGrouping
  have hs : (!opts.digitSeparator.isEmpty) = true ↔ opts.digitSeparator ≠ [] := by
    cases opts.digitSeparator <;> simp
  rw [Bool.and_eq_true, hs]
  apply and_congr_right
  intro _
  by_cases ht : opts.digitGroupingThreshold = 0
  · simp [ht, hpos]
  · simp only [ht, if_false, decide_eq_true_eq]
    by_cases h1 : opts.digitGroupingThreshold = 1
    · simp [h1, hpos, hlen]
    · have hk : 0 < opts.digitGroupingThreshold - 1 := by omega
      have := Nat.length_toDigits_le_iff (b := 10) (n := n.natAbs) (by decide) hk
      constructor
      · intro h
        by_cases hc : opts.digitGroupingThreshold ≤ (Nat.toDigits 10 n.natAbs).length
        · exact hc
        · have : (Nat.toDigits 10 n.natAbs).length ≤ opts.digitGroupingThreshold - 1 := by omega
          have := (Nat.length_toDigits_le_iff (b := 10) (n := n.natAbs) (by decide) hk).mp this
          omega
      · intro h
        by_cases hc : n.natAbs < 10 ^ (opts.digitGroupingThreshold - 1)
        · have := (Nat.length_toDigits_le_iff (b := 10) (n := n.natAbs) (by decide) hk).mpr hc
          omega
        · omega

/-! ## from the bit pattern -/

/-- exact rational value of a finite f64 -/
def Finite.toRat (f : Finite) : Rat :=
  (if f.neg then -1 else 1) * (f.mant : Rat) *
    (if f.exp2 ≥ 0 then ((2 ^ f.exp2.toNat : Nat) : Rat) else mkRat 1 (2 ^ (-f.exp2).toNat))

/-- **The integer branch.** If the bit pattern denotes an integer of magnitude below 2^53 then (without
configuration override) the displayed text is `fmtInt` of that integer — independent of `pretty_dtoa` — so all of
`int_all_digits`, `int_reads_back`, `int_grouping` apply; and the magnitude really is below 2^53. -/
theorem integer_branch (bits : Nat) (n : Int) (opts : FormatOptions) (b : Bool) (raw : List Char)
    (h : integerValue bits = some n) :
    prettyPrint bits opts false b raw = fmtInt n opts ∧ n.natAbs < 2 ^ 53 := by
  refine ⟨by simp [prettyPrint, h], ?_⟩
  unfold integerValue at h
  cases hd : decodeBits bits with
  | nan => simp [hd] at h
  | inf s => simp [hd] at h
  | finite f =>
    simp only [hd] at h
    cases ha : f.absInteger with
    | none => simp [ha] at h
    | some a =>
      simp only [ha] at h
      split at h
      · simp only [Option.some.injEq] at h
        subst h
        split <;> omega
      · exact absurd h (by simp)

/-- `integerValue` is exact: the integer it returns is the value of the bit pattern. -/
theorem integerValue_exact (bits : Nat) (n : Int) (h : integerValue bits = some n) :
    ∃ f, decodeBits bits = .finite f ∧ (n : Rat) = f.toRat := by
  unfold integerValue at h
  cases hd : decodeBits bits with
  | nan => simp [hd] at h
  | inf s => simp [hd] at h
  | finite f =>
    refine ⟨f, rfl, ?_⟩
    simp only [hd] at h
    cases ha : f.absInteger with
    | none => simp [ha] at h
    | some a =>
      simp only [ha] at h
      split at h
      · simp only [Option.some.injEq] at h
        -- |x| as a rational is `a`
        have habs : (a : Rat) = (f.mant : Rat) *
            (if f.exp2 ≥ 0 then ((2 ^ f.exp2.toNat : Nat) : Rat) else mkRat 1 (2 ^ (-f.exp2).toNat)) := by
          unfold Finite.absInteger at ha
          by_cases he : f.exp2 ≥ 0
          · simp only [he, if_true, Option.some.injEq] at ha ⊢
            rw [← ha, Rat.natCast_mul]
          · simp only [he, if_false] at ha ⊢
            split at ha
            · rename_i hm
              simp only [Option.some.injEq] at ha
              have hm' : f.mant % 2 ^ (-f.exp2).toNat = 0 := by simpa using hm
              have hmant : f.mant = a * 2 ^ (-f.exp2).toNat := by
                rw [← ha]; exact (Nat.div_mul_cancel (Nat.dvd_of_mod_eq_zero hm')).symm
              have hpos : (2 ^ (-f.exp2).toNat : Nat) ≠ 0 :=
                Nat.pos_iff_ne_zero.mp (Nat.pow_pos (by decide))
              have e1 : mkRat 1 (2 ^ (-f.exp2).toNat) * ((2 ^ (-f.exp2).toNat : Nat) : Rat) = 1 := by
                rw [Rat.mkRat_eq_div]
                have hne : ((2 ^ (-f.exp2).toNat : Nat) : Rat) ≠ 0 := by
                  intro hz; exact hpos (by exact_mod_cast hz)
                grind
              conv => rhs; rw [hmant, Rat.natCast_mul, Rat.mul_assoc, Rat.mul_comm _ (mkRat _ _), e1]
              simp
            · exact absurd ha (by simp)
        unfold Finite.toRat
        subst h
        cases f.neg
        · simp only [Bool.false_eq_true, if_false, Rat.intCast_natCast]
          rw [Rat.mul_assoc, ← habs]; grind
        · simp only [if_true, Rat.intCast_neg, Rat.intCast_natCast]
          rw [Rat.mul_assoc, ← habs]; grind
      · exact absurd h (by simp)

example : integerValue 0x4059000000000000 = some 100 := by decide        -- 100.0
example : integerValue 0x8000000000000000 = some 0 := by decide +kernel          -- -0.0 is shown as 0
example : integerValue 0x433FFFFFFFFFFFFF = some 9007199254740991 := by decide  -- 2^53 - 1
example : integerValue 0x4340000000000000 = none := by decide            -- 2^53 goes to the float branch
example : integerValue 0x3FF8000000000000 = none := by decide +kernel            -- 1.5

/-! ## float branch -/

/-- **Post-processing keeps the value.** For every string satisfying the `pretty_dtoa` shape contract, what numbat
displays is a valid numbat number literal (possibly under one unary minus) and denotes exactly the same
decimal value as the string `pretty_dtoa` returned. -/
theorem float_post_same_value (raw : List Char) (maxSigIsSome : Bool) (h : wellFormedRaw raw = true) :
    isSignedNumberLiteral (postProcess raw maxSigIsSome) = true ∧
    (decimalValue raw).isSome = true ∧
    decimalValue (postProcess raw maxSigIsSome) = decimalValue raw := by
  obtain ⟨r, hv, hs, rfl⟩ := wellFormedRaw_render raw h
  have hpv := postNum_valid r maxSigIsSome hv
  rw [postProcess_render r maxSigIsSome hv hs]
  refine ⟨isSignedNumberLiteral_render _ hpv, ?_, ?_⟩
  · rw [decimalValue_render r hv]; rfl
  · rw [decimalValue_render _ hpv, decimalValue_render r hv, postNum_value]

example : wellFormedRaw "-1.50e16".toList = true ∧ postProcess "-1.50e16".toList true = "-1.50e+16".toList := by decide
example : wellFormedRaw "12.3400".toList = true ∧ postProcess "12.3400".toList true = "12.34".toList := by decide
example : postProcess "5.000".toList true = "5.0".toList ∧ postProcess "5.000".toList false = "5.000".toList := by decide
example : postProcess "1.0e-7".toList true = "1.0e-7".toList := by decide

/-- the float branch of `prettyPrint` is the post-processing (no override: `max_sig_digits` is set) -/
theorem float_branch (bits : Nat) (opts : FormatOptions) (raw : List Char) (h : integerValue bits = none) :
    prettyPrint bits opts false true raw = postProcess raw true := by
  simp [prettyPrint, h]

/-- **Keywords.** NaN and ±inf never take the integer branch, and the texts `pretty_dtoa` returns for them
(`NaN`, `inf`, `-inf`) are displayed unchanged — the keywords numbat's tokenizer reads back. -/
theorem nan_inf_keywords (bits : Nat) (opts : FormatOptions) (b : Bool) :
    (decodeBits bits = .nan → prettyPrint bits opts false b ['N', 'a', 'N'] = ['N', 'a', 'N']) ∧
    (decodeBits bits = .inf false → prettyPrint bits opts false b ['i', 'n', 'f'] = ['i', 'n', 'f']) ∧
    (decodeBits bits = .inf true → prettyPrint bits opts false b ['-', 'i', 'n', 'f'] = ['-', 'i', 'n', 'f']) := by
  refine ⟨?_, ?_, ?_⟩ <;> intro h <;> simp [prettyPrint, integerValue, h] <;> decide

example : decodeBits 0x7FF8000000000000 = .nan ∧ decodeBits 0x7FF0000000000000 = .inf false ∧
    decodeBits 0xFFF0000000000000 = .inf true := by decide

/-! ## headline -/

/-- **C14 for integers of magnitude below 2^53**, from the bit pattern to the read-back: whatever the settings
(admissible separator) and whatever `pretty_dtoa` returns, the displayed text without separator is a valid
numbat literal, shows all decimal digits of the value, and denotes exactly the value of the f64. -/
theorem displayed_integer_reads_back (bits : Nat) (n : Int) (opts : FormatOptions) (b : Bool) (raw : List Char)
    (hsep : SepOK opts.digitSeparator) (h : integerValue bits = some n) :
    let shown := removeSep opts.digitSeparator (prettyPrint bits opts false b raw)
    shown = (if n < 0 then ['-'] else []) ++ Nat.toDigits 10 n.natAbs ∧
    isSignedNumberLiteral shown = true ∧
    ∃ f, decodeBits bits = .finite f ∧ decimalValue shown = some f.toRat := by
  simp only
  rw [(integer_branch bits n opts b raw h).1]
  obtain ⟨f, hf, hx⟩ := integerValue_exact bits n h
  exact ⟨int_all_digits n opts hsep, (int_reads_back n opts hsep).1, f, hf,
    by rw [(int_reads_back n opts hsep).2, hx]⟩

end NumbatModel.NumFmt
