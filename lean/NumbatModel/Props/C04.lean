import NumbatModel.Lemmas.QtyCanon
set_option linter.unusedSectionVars false
/-!
# C04 — conversion yields exactly the requested unit and the same quantity

Theorems about `convertTo` (the model of `Quantity::convert_to`, including the common-factor
cancellation heuristic), for every unit table with positive factors, every quantity, every target unit
and every lawful numeric instance.
-/
namespace NumbatModel.Qty
open NumOps LawfulNum

variable {α : Type} [NumOps α]

/-- `q -> U` is expressed in exactly `U`: the same factor list, no canonicalisation, prefixes preserved. -/
theorem convert_unit (tbl : Table α) (q q' : Quantity α) (U : Unit)
    (h : convertTo tbl q U = .ok q') : q'.unit = U := by
  unfold convertTo at h
  split at h
  · cases h; rfl
  · simp only at h
    split at h
    · cases h; rfl
    · cases h

variable [Lean.Grind.Field α] [L : LawfulNum α]

/-- `q -> U` denotes the same physical quantity: magnitude × conversion factor to base units is unchanged.
(A zero converts to any unit; both sides are then 0.) -/
theorem convert_phys (tbl : Table α) (hp : PosTbl tbl) (q q' : Quantity α) (U : Unit)
    (h : convertTo tbl q U = .ok q') :
    q'.value * factorOf tbl U = q.value * factorOf tbl q.unit := by
  rw [factorOf_eq, factorOf_eq]
  unfold convertTo at h
  split at h
  · rename_i hc
    cases h
    simp only
    rcases Bool.or_eq_true _ _ ▸ hc with he | hz
    · rw [prodW_of_unitEq tbl hp _ _ he]
    · have : q.value = 0 := by
        unfold Quantity.isZero at hz
        rw [beq_iff] at hz
        rw [hz, zero_eq]
      rw [this]; grind
  · simp only at h
    split at h
    · cases h
      simp only
      rw [factorOf_eq, factorOf_eq, prodW_canon tbl hp]
      simp only [Unit.div, prodW_append, div_eq, mul_eq, one_eq]
      have hinv := prodW_invert tbl hp
        (commonFactors (canon tbl q.unit) (canon tbl U))
      have hU := pos_ne_zero _ (pos_prodW tbl hp U)
      have hI := pos_ne_zero _ (pos_prodW tbl hp (Unit.invert (commonFactors (canon tbl q.unit) (canon tbl U))))
      grind
    · cases h

/-- The common-factor cancellation is irrelevant for the result: the magnitude is
`value · F(source) / F(target)`, the conversion computed without removing anything. -/
theorem convert_value (tbl : Table α) (hp : PosTbl tbl) (q q' : Quantity α) (U : Unit)
    (h : convertTo tbl q U = .ok q') :
    q'.value = q.value * factorOf tbl q.unit / factorOf tbl U := by
  have h1 := convert_phys tbl hp q q' U h
  have hU : factorOf tbl U ≠ 0 := by rw [factorOf_eq]; exact pos_ne_zero _ (pos_prodW tbl hp U)
  grind

/-- Converting the result back to `q`'s unit restores `q`'s magnitude (exactly, in exact arithmetic). -/
theorem convert_roundtrip (tbl : Table α) (hp : PosTbl tbl) (q q' q'' : Quantity α) (U : Unit)
    (h1 : convertTo tbl q U = .ok q') (h2 : convertTo tbl q' q.unit = .ok q'') :
    q''.value = q.value := by
  have e1 := convert_phys tbl hp q q' U h1
  have e2 := convert_phys tbl hp q' q'' q.unit h2
  rw [convert_unit tbl q q' U h1] at e2
  have hq : factorOf tbl q.unit ≠ 0 := by rw [factorOf_eq]; exact pos_ne_zero _ (pos_prodW tbl hp _)
  grind

/-- Converting through an intermediate unit `W` agrees with converting directly. -/
theorem convert_transitive (tbl : Table α) (hp : PosTbl tbl) (q qw qu qd : Quantity α) (W U : Unit)
    (h1 : convertTo tbl q W = .ok qw) (h2 : convertTo tbl qw U = .ok qu)
    (h3 : convertTo tbl q U = .ok qd) : qu.value = qd.value ∧ qu.unit = qd.unit := by
  have e1 := convert_phys tbl hp q qw W h1
  have e2 := convert_phys tbl hp qw qu U h2
  have e3 := convert_phys tbl hp q qd U h3
  rw [convert_unit tbl q qw W h1] at e2
  have hU : factorOf tbl U ≠ 0 := by rw [factorOf_eq]; exact pos_ne_zero _ (pos_prodW tbl hp _)
  refine ⟨by grind, ?_⟩
  rw [convert_unit tbl qw qu U h2, convert_unit tbl q qd U h3]

theorem convert_zero' {β : Type} [NumOps β] (tbl : Table β) (q : Quantity β) (U : Unit) (hz : q.isZero = true) :
    convertTo tbl q U = .ok ⟨q.value, U, true⟩ := by
  unfold convertTo
  simp [hz]

/-- A zero converts to every unit, keeping the magnitude zero. -/
theorem convert_zero (tbl : Table α) (q : Quantity α) (U : Unit) (hz : q.isZero = true) :
    convertTo tbl q U = .ok ⟨q.value, U, true⟩ := by
  unfold convertTo
  simp [hz]


/-- A conversion succeeds exactly when the quantity is zero or source and target have the same dimension
vector (for unit tables with distinct names). -/
theorem convert_ok_iff {β : Type} [NumOps β] (tbl : Table β) (hn : NamesDistinct tbl) (q : Quantity β) (U : Unit) :
    (∃ q', convertTo tbl q U = .ok q') ↔ (q.isZero = true ∨ ∀ b, unitVec tbl q.unit b = unitVec tbl U b) := by
  constructor
  · rintro ⟨q', h⟩
    unfold convertTo at h
    split at h
    · rename_i hc
      rcases Bool.or_eq_true _ _ ▸ hc with he | hz
      · right
        intro b
        unfold unitEq at he
        have : canon tbl q.unit = canon tbl U := by simpa using he
        rw [← unitVec_canon tbl q.unit, this, unitVec_canon]
      · left; exact hz
    · right
      simp only at h
      split at h
      · rename_i he
        have he' : baseRep tbl (canon tbl (Unit.div q.unit (commonFactors (canon tbl q.unit) (canon tbl U))))
            = baseRep tbl (canon tbl (Unit.div U (commonFactors (canon tbl q.unit) (canon tbl U)))) := by
          simpa using he
        intro b
        have h1 := congrArg (fun l => vecOfBase l b) he'
        simp only [baseRep, vecOfBase_canonBase, vecOfBase_baseRepRaw, unitVec_canon, Unit.div, unitVec_append] at h1
        grind
      · cases h
  · rintro (hz | hv)
    · exact ⟨_, convert_zero' tbl q U hz⟩
    · exact convComplete tbl hn q U hv

/-- `q -> U` is displayed as a multiple of `U` exactly when `U` has a magnitude other than 1, in exactly the
unit of `U`, and the explicit conversion switches automatic simplification off. A display target of an earlier
conversion never survives. -/
theorem display_target {β : Type} [NumOps β] (tbl : Table β) (a b : Quantity β) (d : Displayed β)
    (h : vmConvertDisplay tbl a b = .ok d) :
    d.q.unit = b.unit ∧ d.q.canSimplify = false ∧
      (d.target = if beq b.value one then none else some b) := by
  unfold vmConvertDisplay vmConvertTo at h
  cases hc : convertTo tbl a b.unit with
  | error e => rw [hc] at h; cases h
  | ok r =>
    rw [hc] at h
    cases h
    refine ⟨?_, rfl, rfl⟩
    simp only
    unfold convertTo at hc
    split at hc
    · cases hc; rfl
    · simp only at hc
      split at hc
      · cases hc; rfl
      · cases hc

end NumbatModel.Qty
