import NumbatModel.Model.Printer
import NumbatModel.Model.EchoParser
import NumbatModel.Lemmas.Printer
import NumbatModel.Lemmas.EchoParserMain
import NumbatModel.Lemmas.EchoPrintIdem
/-! # C15 — the echoed form of an input means the same as the input (property theorems) -/
namespace NumbatModel.Printer

/-- `escape_unescape`: for **every** string `s`, the parser's `strip_and_escape` applied to the quoted
output of `escape_numbat_string` gives back `s` (no condition on `s` is needed: the two functions are
exact inverses on escaped text, including `\\`, `{`, `}`, quotes, NUL and the control characters). -/
theorem escape_unescape (s : List Char) : stripAndEscape ('"' :: (escape s ++ ['"'])) = some s := by
  have okn : OkLast none := ⟨by simp, by simp, by simp⟩
  simp [stripAndEscape, List.getLast?_append, unesc_escape s none okn]


example : stripAndEscape ('"' :: (escape ['a', '\\', '{', '"', '\n', '}'] ++ ['"'])) = some ['a', '\\', '{', '"', '\n', '}'] :=
  escape_unescape _

/-- `escape_token_boundary`: the tokenizer's string scan (`consume_string`), started after the opening
quote, runs over the whole escaped text of any string and stops exactly at the closing quote — an escaped
string never ends the token early and never opens an interpolation. -/
theorem escape_token_boundary (s rest : List Char) :
    consumeString .normal (escape s ++ '"' :: rest) = (escape s).length := by
  induction s with
  | nil => simp [escape, consumeString]
  | cons c cs ih =>
    simp only [escape]
    by_cases c1 : c = '\n'
    · subst c1; simp [consumeString, ih]; omega
    · by_cases c2 : c = '\r'
      · subst c2; simp [consumeString, ih]; omega
      · by_cases c3 : c = '\t'
        · subst c3; simp [consumeString, ih]; omega
        · by_cases c4 : c = '"'
          · subst c4; simp [consumeString, ih]; omega
          · by_cases c5 : c = '\x00'
            · subst c5; simp [consumeString, ih]; omega
            · by_cases c6 : c = '{' ∨ c = '}' ∨ c = '\\'
              · simp only [c1, c2, c3, c4, c5, c6, if_true, if_false]
                rcases c6 with c6 | c6 | c6 <;> subst c6 <;> simp [consumeString, ih] <;> omega
              · simp only [c1, c2, c3, c4, c5, c6, if_false]
                have c6' : c ≠ '{' ∧ c ≠ '}' ∧ c ≠ '\\' := by
                  refine ⟨fun h => c6 (Or.inl h), fun h => c6 (Or.inr (Or.inl h)), fun h => c6 (Or.inr (Or.inr h))⟩
                simp [consumeString, c4, c6'.1, c6'.2.1, c6'.2.2, ih]; omega

example : consumeString .normal (escape ['{', '\\', '"'] ++ '"' :: ['x']) = 6 := by
  rw [escape_token_boundary]; decide

/-! ## re-reading the printed form -/

/-- `print_parse`: for **every** expression tree of the fragment `Frag` (scalars, identifiers, units,
booleans, unary minus, factorial, logical negation, all fourteen binary operators incl. the fused forms
`2 metre` / `2 x`, the superscripts `²` `³`, and conditionals, nested arbitrarily), the tokens numbat prints
are read back — by the level-by-level parser of the documented grammar, with any sufficient fuel — as
exactly one tree, `canon e`: the same tree up to left-nesting of the `+`, `×` and `➞` chains that the
printer writes without parentheses (and a unit being one name, `x^2` being `x²`).
`Frag` excludes only: a conditional as the right operand of `➞` (see `print_parse_fails_conv_cond`), a
scalar whose printed text is negative (arises only from `⁻¹`-style exponents, see
`print_not_fixed_point_negative_exponent`), factorial of order 0, and the constructors the parser model
does not read (calls, strings, structs, lists, field access, date arithmetic). -/
theorem print_parse (e : Expr) (h : Frag e = true) :
    ∃ n0, ∀ n, n0 ≤ n → parseToks n (toks e) = some (canon e) := by
  have hP := (main e h).P 0 [] (Nat.zero_le _) (NoCont.nil 0)
  obtain ⟨n0, hn⟩ := hP
  refine ⟨n0, fun n hn0 => ?_⟩
  have := hn n hn0
  simp only [List.append_nil] at this
  simp [parseToks, this]

/-- `(2 + (3 x + 4)) / 2 m ➞ -(a!)` — right-nested sum, fused products, division, conversion, unary
minus over a factorial -/
def exTree : Expr :=
  .bin .conv
    (.bin .div (.bin .add (.num 1 ['2']) (.bin .add (.bin .mul (.num 2 ['3']) (.ident ['x'])) (.num 3 ['4'])))
      (.bin .mul (.num 1 ['2']) (.unit [] ['m'])))
    (.neg (.fact 1 (.ident ['a'])))

example : Frag exTree = true := by decide
example : pp exTree = "(2 + 3 x + 4) / 2 m ➞ -(a!)".toList := by decide
example : (parseToks 60 (toks exTree)).map pp = some (pp (canon exTree)) := by decide

/-- `print_parse_conv_cond_repaired`: the shape excluded from `Frag` — a conditional as the *target* of a
conversion — was a real failure of the pinned code (`2 ➞ (if true then a else b)` was printed as
`2 ➞ if true then a else b`, which the grammar does not derive: known finding C15-conv-rhs-conditional). After
the repair in numbat (the printer parenthesises a conditional on either side of `➞`) it is printed with the
parentheses and reads back as itself.  (`Frag` still excludes the shape: `print_parse` is stated as before.)
Replayed on the implementation: corpus/C15/findings.txt, `2 m -> (if true then cm else mm)`. -/
theorem print_parse_conv_cond_repaired :
    let e := Expr.bin .conv (.num 1 ['2']) (.cond (.bool true) (.ident ['a']) (.ident ['b']))
    Frag e = false ∧ pp e = "2 ➞ (if true then a else b)".toList ∧
      (parseToks 60 (toks e)).map pp = some (pp e) := by decide

/-- `print_not_fixed_point_negative_exponent`: `metre⁻¹` carries the scalar `-1`; it is printed as
`metre^-1`, read back as `metre^(-(1))`, and that tree is printed as `metre^(-1)`.
Replayed on the implementation: known finding C15-pow-negative-literal-exponent. -/
theorem print_not_fixed_point_negative_exponent :
    let e := Expr.bin .pow (.unit [] "metre".toList) (.num (2 ^ 63 + 0x3ff0000000000000) ['-', '1'])
    pp e = "metre^-1".toList ∧ (parseToks 60 (toks e)).map pp = some "metre^(-1)".toList := by decide

/-- `print_not_fixed_point_regrouped_product`: `2 × (cm × s)` is printed as `2 × cm × s`, read back as
`(2 cm) × s` and printed as `2 cm × s` — the tree read back is `canon e` (so `print_parse` holds), but
its printed form differs. Replayed on the implementation: known finding C15-mul-chain-regrouped. -/
theorem print_not_fixed_point_regrouped_product :
    let e := Expr.bin .mul (.num 1 ['2']) (.bin .mul (.unit [] ['c', 'm']) (.unit [] ['s']))
    Frag e = true ∧ pp e = "2 × cm × s".toList ∧ pp (canon e) = "2 cm × s".toList := by decide

/-! ## the printed form is a fixed point -/

/-- `print_idempotent`: for **every** tree satisfying `Stable` (no constructor is excluded), printing the
re-read tree `canon e` gives exactly the text of `e`.  `Stable` excludes two shapes only, each with a
witness below: a scalar times a right-nested product that starts with a unit or identifier
(`2 × (cm × s)`), and a conversion whose right operand is a conversion chain starting with a conditional
(`a ➞ ((if …) ➞ c)`). -/
theorem print_idempotent (e : Expr) (h : Stable e = true) : pp (canon e) = pp e := by
  have := (idem e h).same.2
  simp [pp, this]

/-- `print_parse_print`: on `Frag ∩ Stable`, print ∘ parse ∘ print = print. -/
theorem print_parse_print (e : Expr) (hF : Frag e = true) (hS : Stable e = true) :
    ∃ n0, ∀ n, n0 ≤ n → (parseToks n (toks e)).map pp = some (pp e) := by
  obtain ⟨n0, h⟩ := print_parse e hF
  exact ⟨n0, fun n hn => by rw [h n hn]; simp [print_idempotent e hS]⟩

example : Stable exTree = true := by decide
example : pp (canon exTree) = pp exTree := print_idempotent exTree (by decide)

/-- `print_fixed_point_conv_chain_cond_repaired`: `a ➞ ((if true then b else c) ➞ d)` is in `Frag` but not in
`Stable`; before the repair its re-read (left-nested) tree was printed as `a ➞ if true then b else c ➞ d`, which
no longer parsed as the same tree.  Now both trees are printed as `a ➞ (if true then b else c) ➞ d`.
(`Stable` still excludes the shape: `print_idempotent` is stated as before; the *regrouping* of a conversion
chain — the re-read tree is the left-nested one — remains, known finding C15-conv-chain-conditional.) -/
theorem print_fixed_point_conv_chain_cond_repaired :
    let e := Expr.bin .conv (.ident ['a'])
      (.bin .conv (.cond (.bool true) (.ident ['b']) (.ident ['c'])) (.ident ['d']))
    Frag e = true ∧ Stable e = false ∧ pp e = "a ➞ (if true then b else c) ➞ d".toList ∧
      pp (canon e) = pp e := by decide

end NumbatModel.Printer
