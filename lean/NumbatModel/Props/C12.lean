import NumbatModel.Lemmas.Qty
set_option linter.unusedSectionVars false
/-!
# C12 — addition commutes and subtraction anti-commutes, units included
-/
namespace NumbatModel.Qty
open NumOps LawfulNum

variable {α : Type} [NumOps α] [Lean.Grind.Field α] [L : LawfulNum α]

theorem unitEq_symm (tbl : Table α) (u v : Unit) : unitEq tbl u v = unitEq tbl v u := by
  unfold unitEq
  cases h1 : (canon tbl u == canon tbl v) <;> cases h2 : (canon tbl v == canon tbl u) <;> try rfl
  · have : canon tbl v = canon tbl u := by simpa using h2
    rw [this] at h1; simp at h1
  · have : canon tbl u = canon tbl v := by simpa using h1
    rw [this] at h2; simp at h2

/-- the only error `convert_to` can return is `IncompatibleUnits` -/
theorem convertTo_err {β : Type} [NumOps β] (tbl : Table β) (q : Quantity β) (U : Unit) (e : QErr)
    (h : convertTo tbl q U = .error e) : e = .incompatible := by
  unfold convertTo at h
  split at h
  · cases h
  · simp only at h
    split at h
    · cases h
    · cases h; rfl

/-- the physical value of a sum is the sum of the physical values -/
theorem add_phys (tbl : Table α) (hp : PosTbl tbl) (a b r : Quantity α) (h : qadd tbl a b = .ok r) :
    phys tbl r = phys tbl a + phys tbl b := add_phys_lem tbl hp a b r h

/-- the physical value of a difference is the difference of the physical values -/
theorem sub_phys (tbl : Table α) (hp : PosTbl tbl) (a b r : Quantity α) (h : qsub tbl a b = .ok r) :
    phys tbl r = phys tbl a - phys tbl b := sub_phys_lem tbl hp a b r h

/-- `a + b` and `b + a` denote the same physical quantity -/
theorem add_comm_phys (tbl : Table α) (hp : PosTbl tbl) (a b r₁ r₂ : Quantity α)
    (h₁ : qadd tbl a b = .ok r₁) (h₂ : qadd tbl b a = .ok r₂) : phys tbl r₁ = phys tbl r₂ := by
  rw [add_phys tbl hp a b r₁ h₁, add_phys tbl hp b a r₂ h₂]; grind

/-- `a - b` denotes the negation of `b - a` -/
theorem sub_anticomm_phys (tbl : Table α) (hp : PosTbl tbl) (a b r₁ r₂ : Quantity α)
    (h₁ : qsub tbl a b = .ok r₁) (h₂ : qsub tbl b a = .ok r₂) : phys tbl r₁ = - phys tbl r₂ := by
  rw [sub_phys tbl hp a b r₁ h₁, sub_phys tbl hp b a r₂ h₂]; grind

/-- three-operand sums: every order and association has the same physical value -/
theorem add3_phys (tbl : Table α) (hp : PosTbl tbl) (a b c ab r bc r' : Quantity α)
    (h₁ : qadd tbl a b = .ok ab) (h₂ : qadd tbl ab c = .ok r)
    (h₃ : qadd tbl b c = .ok bc) (h₄ : qadd tbl bc a = .ok r') : phys tbl r = phys tbl r' := by
  rw [add_phys tbl hp ab c r h₂, add_phys tbl hp a b ab h₁, add_phys tbl hp bc a r' h₄,
    add_phys tbl hp b c bc h₃]; grind

theorem smallerUnit_comm (tbl : Table α) (u v : Unit) (hne : factorOf tbl u ≠ factorOf tbl v) :
    smallerUnit tbl u v = smallerUnit tbl v u := by
  unfold smallerUnit
  cases h1 : le (factorOf tbl u) (factorOf tbl v) <;> cases h2 : le (factorOf tbl v) (factorOf tbl u) <;> simp
  · -- neither ≤: impossible by totality
    exfalso
    have n1 : ¬ (lt (factorOf tbl u) (factorOf tbl v) = true ∨ factorOf tbl u = factorOf tbl v) := by
      rw [← le_iff]; simp [h1]
    have n2 : ¬ (lt (factorOf tbl v) (factorOf tbl u) = true ∨ factorOf tbl v = factorOf tbl u) := by
      rw [← le_iff]; simp [h2]
    have a1 : lt (factorOf tbl u) (factorOf tbl v) = false := by
      cases h : lt (factorOf tbl u) (factorOf tbl v) <;> simp_all
    have a2 : lt (factorOf tbl v) (factorOf tbl u) = false := by
      cases h : lt (factorOf tbl v) (factorOf tbl u) <;> simp_all
    exact hne (lt_total _ _ a1 a2)
  · -- both ≤: then equal
    exfalso
    rw [le_iff] at h1 h2
    rcases h1 with h1 | h1
    · rcases h2 with h2 | h2
      · have := lt_asymm _ _ h1; rw [this] at h2; cases h2
      · exact hne h2.symm
    · exact hne h1

/-- When the operands' units differ in size and not both operands are zero, `a + b` and `b + a` are the
same value in the same unit (syntactically). -/
theorem add_comm_display (tbl : Table α) (hp : PosTbl tbl) (a b : Quantity α)
    (hne : factorOf tbl a.unit ≠ factorOf tbl b.unit)
    (hz : ¬ (a.isZero = true ∧ b.isZero = true)) :
    (qadd tbl a b).map (fun q => (q.value, q.unit)) = (qadd tbl b a).map (fun q => (q.value, q.unit)) := by
  have hue : unitEq tbl a.unit b.unit = false := by
    cases h : unitEq tbl a.unit b.unit
    · rfl
    · exfalso; apply hne; rw [factorOf_eq, factorOf_eq]; exact prodW_of_unitEq tbl hp _ _ h
  have hue' : unitEq tbl b.unit a.unit = false := by rw [unitEq_symm]; exact hue
  unfold qadd
  by_cases haz : a.isZero = true
  · have hbz : b.isZero = false := by
      cases h : b.isZero
      · rfl
      · exact absurd ⟨haz, h⟩ hz
    simp [haz, hbz]
  · have haz' : a.isZero = false := by simpa using haz
    by_cases hbz : b.isZero = true
    · simp [haz', hbz]
    · have hbz' : b.isZero = false := by simpa using hbz
      simp only [haz', hbz', hue, hue', Bool.false_eq_true, if_false]
      rw [smallerUnit_comm tbl b.unit a.unit (Ne.symm hne)]
      cases ha : convertTo tbl a (smallerUnit tbl a.unit b.unit) <;>
        cases hb : convertTo tbl b (smallerUnit tbl a.unit b.unit) <;> simp [Except.map, add_eq]
      · rw [convertTo_err tbl _ _ _ ha, convertTo_err tbl _ _ _ hb]
      · grind

end NumbatModel.Qty
