import NumbatModel.Lemmas.Qty
set_option linter.unusedSectionVars false
/-!
# C11 — comparisons do not depend on operand order

For every unit table with positive factors and every lawful numeric instance (exact arithmetic).  "Same
dimension" is the hypothesis that each operand can be converted into the other's unit.  On `f64` the
one-sided conversion rounds; the Float instance of the same definitions reproduces the implementation
bit-for-bit (correspondence), and the rounding asymmetry it exhibits is listed as a known finding.
-/
namespace NumbatModel.Qty
open NumOps LawfulNum

variable {α : Type} [NumOps α] [Lean.Grind.Field α] [L : LawfulNum α]

/-- `a == b` equals `b == a` -/
theorem eq_symm (tbl : Table α) (hp : PosTbl tbl) (a b a' b' : Quantity α)
    (hb : convertTo tbl b a.unit = .ok b') (ha : convertTo tbl a b.unit = .ok a') :
    vmEq tbl a b = vmEq tbl b a := by
  unfold vmEq
  rw [qeq_phys tbl hp a b b' hb, qeq_phys tbl hp b a a' ha]
  cases h1 : beq (phys tbl a) (phys tbl b) <;> cases h2 : beq (phys tbl b) (phys tbl a) <;> try rfl
  · rw [beq_iff] at h2; rw [← beq_iff] at h2; rw [beq_iff] at h2
    have := h2.symm; rw [← beq_iff] at this; rw [this] at h1; cases h1
  · rw [beq_iff] at h1
    have := h1.symm; rw [← beq_iff] at this; rw [this] at h2; cases h2

/-- `a != b` is the negation of `a == b` -/
theorem ne_not_eq (tbl : Table α) (a b : Quantity α) : vmNe tbl a b = !vmEq tbl a b := rfl

theorem qcmp_swap (tbl : Table α) (hp : PosTbl tbl) (a b a' b' : Quantity α)
    (hb : convertTo tbl b a.unit = .ok b') (ha : convertTo tbl a b.unit = .ok a') :
    qcmp tbl b a = match qcmp tbl a b with | .lt => .gt | .gt => .lt | o => o := by
  rw [qcmp_phys tbl hp a b b' hb, qcmp_phys tbl hp b a a' ha]
  exact cmpValues_swap _ _

/-- `a < b` equals `b > a` -/
theorem lt_gt (tbl : Table α) (hp : PosTbl tbl) (a b a' b' : Quantity α)
    (hb : convertTo tbl b a.unit = .ok b') (ha : convertTo tbl a b.unit = .ok a') :
    vmCompare tbl .lt a b = vmCompare tbl .gt b a := by
  unfold vmCompare
  rw [qcmp_swap tbl hp a b a' b' hb ha]
  cases qcmp tbl a b <;> rfl

/-- `a <= b` equals `b >= a` -/
theorem le_ge (tbl : Table α) (hp : PosTbl tbl) (a b a' b' : Quantity α)
    (hb : convertTo tbl b a.unit = .ok b') (ha : convertTo tbl a b.unit = .ok a') :
    vmCompare tbl .le a b = vmCompare tbl .ge b a := by
  unfold vmCompare
  rw [qcmp_swap tbl hp a b a' b' hb ha]
  cases qcmp tbl a b <;> rfl

/-- for (non-NaN) operands of the same dimension exactly one of `a < b`, `a == b`, `a > b` holds -/
theorem trichotomy (tbl : Table α) (hp : PosTbl tbl) (a b b' : Quantity α)
    (hb : convertTo tbl b a.unit = .ok b') :
    (vmCompare tbl .lt a b = .ok true ∧ vmEq tbl a b = false ∧ vmCompare tbl .gt a b = .ok false) ∨
    (vmCompare tbl .lt a b = .ok false ∧ vmEq tbl a b = true ∧ vmCompare tbl .gt a b = .ok false) ∨
    (vmCompare tbl .lt a b = .ok false ∧ vmEq tbl a b = false ∧ vmCompare tbl .gt a b = .ok true) := by
  unfold vmCompare vmEq
  rw [qcmp_phys tbl hp a b b' hb, qeq_phys tbl hp a b b' hb]
  rcases cmpValues_cases (phys tbl a) (phys tbl b) with h | h | h
  · left
    rw [h]
    refine ⟨rfl, ?_, rfl⟩
    cases hbq : beq (phys tbl a) (phys tbl b)
    · rfl
    · rw [beq_iff] at hbq
      have := (cmpValues_eq_iff (phys tbl a) (phys tbl b)).mpr hbq
      rw [this] at h; cases h
  · right; left
    rw [h]
    refine ⟨rfl, ?_, rfl⟩
    have := (cmpValues_eq_iff _ _).mp h
    rw [← beq_iff] at this; exact this
  · right; right
    rw [h]
    refine ⟨rfl, ?_, rfl⟩
    cases hbq : beq (phys tbl a) (phys tbl b)
    · rfl
    · rw [beq_iff] at hbq
      have := (cmpValues_eq_iff (phys tbl a) (phys tbl b)).mpr hbq
      rw [this] at h; cases h

/-- every ordering comparison involving NaN is false (this holds for *every* `NumOps` instance, in
particular for Float: no lawfulness needed) -/
theorem nan_false {β : Type} [NumOps β] (tbl : Table β) (op : CmpOp) (a b : Quantity β)
    (h : isNaN a.value = true ∨ isNaN b.value = true) : vmCompare tbl op a b = .ok false := by
  unfold vmCompare qcmp
  have : (isNaN a.value || isNaN b.value) = true := by
    rcases h with h | h <;> simp [h]
  simp [this]

end NumbatModel.Qty
