import NumbatModel.Lemmas.ListM
/-!
# C18 — lists behave as immutable values despite internal sharing

Property theorems only (helper lemmas are in `Lemmas/ListM.lean`).

* `step_refines` : one operation of the shared-storage representation changes the abstract contents of
  *that* handle as the same operation on a plain `List` and leaves every other live handle's contents
  unchanged (the latter is inside the equation: `Spec.step` only touches slot `k`), returns the same
  result, never takes a panicking branch, and preserves the view invariant.
* `run_refines` : the same for every operation sequence from the empty heap — every reachable state.
-/
namespace NumbatModel.ListM

variable {α : Type}

theorem step_refines (h : Heap α) (op : Op α) (hi : Inv h) :
    Inv (step h op).1 ∧ ((step h op).1.abs, (step h op).2) = Spec.step h.abs op := by
  cases op with
  | new =>
    constructor
    · intro j hdj hj
      simp only [step] at hj
      by_cases hlt : j < h.live.length
      · rw [List.getElem?_append_left hlt] at hj
        exact handleOK_append_left (hi j hdj hj)
      · have : j = h.live.length := by
          have := (List.getElem?_eq_some_iff.mp hj).1
          simp at this; omega
        subst this
        simp at hj; subst hj
        exact ⟨by simp [step], by intro s e hv; simp at hv⟩
    · simp only [step, Spec.step, Heap.abs, List.map_append, List.map_cons, List.map_nil, Option.map,
        Prod.mk.injEq, and_true]
      congr 1
      · apply List.map_congr_left
        intro o ho
        cases o with
        | none => rfl
        | some hd =>
          obtain ⟨j, hj⟩ := List.getElem?_of_mem ho
          simp only [Option.map]
          rw [contents_append_left (hi j hd hj).1]
      · simp [contents, allocOf_append_new]
  | cap n =>
    constructor
    · intro j hdj hj
      simp only [step] at hj
      by_cases hlt : j < h.live.length
      · rw [List.getElem?_append_left hlt] at hj
        exact handleOK_append_left (hi j hdj hj)
      · have : j = h.live.length := by
          have := (List.getElem?_eq_some_iff.mp hj).1
          simp at this; omega
        subst this
        simp at hj; subst hj
        exact ⟨by simp [step], by intro s e hv; simp at hv⟩
    · simp only [step, Spec.step, Heap.abs, List.map_append, List.map_cons, List.map_nil, Option.map,
        Prod.mk.injEq, and_true]
      congr 1
      · apply List.map_congr_left
        intro o ho
        cases o with
        | none => rfl
        | some hd =>
          obtain ⟨j, hj⟩ := List.getElem?_of_mem ho
          simp only [Option.map]
          rw [contents_append_left (hi j hd hj).1]
      · simp [contents, allocOf_append_new]
  | clone k =>
    cases hg : h.get k with
    | none => simp [step, Spec.step, hg, get_eq_none_abs hg]; exact hi
    | some hd =>
      have hk := get_eq_some.mp hg
      simp only [step, Spec.step, hg, get_some_abs hg]
      constructor
      · intro j hdj hj
        simp only at hj
        by_cases hlt : j < h.live.length
        · rw [List.getElem?_append_left hlt] at hj
          exact hi j hdj hj
        · have : j = h.live.length := by
            have := (List.getElem?_eq_some_iff.mp hj).1
            simp at this; omega
          subst this
          simp at hj; subst hj
          exact hi k hd hk
      · simp [Heap.abs]
  | drop k =>
    cases hg : h.get k with
    | none => simp [step, Spec.step, hg, get_eq_none_abs hg]; exact hi
    | some hd =>
      simp only [step, Spec.step, hg, get_some_abs hg]
      constructor
      · intro j hdj hj
        simp only at hj
        rw [List.getElem?_set] at hj
        by_cases hkj : k = j
        · simp [hkj] at hj
        · simp [hkj] at hj; exact hi j hdj hj
      · simp [Heap.abs, List.map_set]
  | pf k x =>
    cases hg : h.get k with
    | none => simp [step, Spec.step, hg, get_eq_none_abs hg]; exact hi
    | some hd0 =>
      have hk0 := get_eq_some.mp hg
      obtain ⟨hi1, habs1, hk1, hex1, hc1⟩ := makeMut_spec h k hd0 hi hk0
      simp only [step, Spec.step, hg, get_some_abs hg]
      generalize makeMut h k hd0 = r at hi1 habs1 hk1 hex1 hc1
      obtain ⟨h1, hd⟩ := r
      simp only at hi1 habs1 hk1 hex1 hc1 ⊢
      have hok := (hi1 k hd hk1)
      rw [contents_eq_viewOf] at hc1
      cases hv : hd.view with
      | none =>
        simp only
        have hm := mutate_spec h1 k hd none (x :: allocOf h1.allocs hd.alloc) hi1 hk1 hex1
          (by intro s e hh; simp at hh)
        have hself : h1.live.set k (some ⟨hd.alloc, none⟩) = h1.live := by
          apply set_self; rw [hk1]; cases hd; simp_all
        rw [hself] at hm
        refine ⟨hm.1, ?_⟩
        rw [hm.2, habs1, ← hc1, hv]; rfl
      | some p =>
        obtain ⟨s, e⟩ := p
        obtain ⟨hse, he⟩ := hok.2 s e hv
        simp only
        by_cases hs0 : s = 0
        · subst hs0
          simp only [beq_self_eq_true, if_true]
          have hm := mutate_spec h1 k hd (some (0, e + 1)) (x :: allocOf h1.allocs hd.alloc) hi1 hk1 hex1
            (by intro s' e' hh; simp at hh; obtain ⟨h1', h2'⟩ := hh; subst h1' h2'; simp; omega)
          refine ⟨hm.1, ?_⟩
          rw [hm.2, habs1, ← hc1, hv, viewOf_pf_zero]
        · have hsb : (s == 0) = false := by simp [hs0]
          have hlt : s - 1 < (allocOf h1.allocs hd.alloc).length := by omega
          simp only [hsb, hlt, if_true, Bool.false_eq_true, if_false]
          have hm := mutate_spec h1 k hd (some (s - 1, e)) ((allocOf h1.allocs hd.alloc).set (s - 1) x) hi1 hk1 hex1
            (by intro s' e' hh; simp at hh; obtain ⟨h1', h2'⟩ := hh; subst h1' h2'; simp; omega)
          refine ⟨hm.1, ?_⟩
          rw [hm.2, habs1, ← hc1, hv, viewOf_pf_pos _ _ _ _ (by omega) hse he]
  | pb k x =>
    cases hg : h.get k with
    | none => simp [step, Spec.step, hg, get_eq_none_abs hg]; exact hi
    | some hd0 =>
      have hk0 := get_eq_some.mp hg
      obtain ⟨hi1, habs1, hk1, hex1, hc1⟩ := makeMut_spec h k hd0 hi hk0
      simp only [step, Spec.step, hg, get_some_abs hg]
      generalize makeMut h k hd0 = r at hi1 habs1 hk1 hex1 hc1
      obtain ⟨h1, hd⟩ := r
      simp only at hi1 habs1 hk1 hex1 hc1 ⊢
      have hok := (hi1 k hd hk1)
      rw [contents_eq_viewOf] at hc1
      cases hv : hd.view with
      | none =>
        simp only
        have hm := mutate_spec h1 k hd none (allocOf h1.allocs hd.alloc ++ [x]) hi1 hk1 hex1
          (by intro s e hh; simp at hh)
        have hself : h1.live.set k (some ⟨hd.alloc, none⟩) = h1.live := by
          apply set_self; rw [hk1]; cases hd; simp_all
        rw [hself] at hm
        refine ⟨hm.1, ?_⟩
        rw [hm.2, habs1, ← hc1, hv]; rfl
      | some p =>
        obtain ⟨s, e⟩ := p
        obtain ⟨hse, he⟩ := hok.2 s e hv
        have heb : (e == (allocOf h1.allocs hd.alloc).length) = true := by simp [he]
        simp only [heb, if_true]
        have hm := mutate_spec h1 k hd (some (s, e + 1)) (allocOf h1.allocs hd.alloc ++ [x]) hi1 hk1 hex1
          (by intro s' e' hh; simp at hh; obtain ⟨h1', h2'⟩ := hh; subst h1' h2'; simp; omega)
        refine ⟨hm.1, ?_⟩
        rw [hm.2, habs1, ← hc1, hv, viewOf_pb _ _ _ _ hse he]
  | tail k =>
    cases hg : h.get k with
    | none => simp [step, Spec.step, hg, get_eq_none_abs hg]; exact hi
    | some hd =>
      have hk := get_eq_some.mp hg
      have hok := hi k hd hk
      have hklt := lt_of_get hk
      simp only [step, Spec.step, hg, get_some_abs hg]
      rw [contents_eq_viewOf]
      cases hv : hd.view with
      | some p =>
        obtain ⟨s, e⟩ := p
        obtain ⟨hse, he⟩ := hok.2 s e hv
        have hnlt : ¬ e < s := by omega
        simp only [hnlt, if_false]
        by_cases hz : e - s = 0
        · simp only [hz, beq_self_eq_true, if_true]
          have : viewOf (allocOf h.allocs hd.alloc) (some (s, e)) = [] := by simp [viewOf, hz]
          rw [this]
          exact ⟨hi, rfl⟩
        · have hzb : (e - s == 0) = false := by simp [hz]
          simp only [hzb, Bool.false_eq_true, if_false]
          have hex : Inv (⟨h.allocs, h.live.set k (some ⟨hd.alloc, some (s + 1, e)⟩)⟩ : Heap α) := by
            intro j hdj hj
            simp only at hj
            rw [List.getElem?_set] at hj
            by_cases hkj : k = j
            · simp [hkj] at hj
              have := hj.2; subst this
              refine ⟨hok.1, ?_⟩
              intro s' e' hh; simp at hh; obtain ⟨h1', h2'⟩ := hh; subst h1' h2'
              exact ⟨by omega, he⟩
            · simp [hkj] at hj; exact hi j hdj hj
          refine ⟨hex, ?_⟩
          have hne : viewOf (allocOf h.allocs hd.alloc) (some (s, e)) ≠ [] := by
            intro hc
            have := congrArg List.length hc
            simp [viewOf] at this
            omega
          cases hvw : viewOf (allocOf h.allocs hd.alloc) (some (s, e)) with
          | nil => exact absurd hvw hne
          | cons y l =>
            simp only [Heap.abs, List.map_set, Option.map, Prod.mk.injEq, and_true]
            congr 2
            rw [contents_eq_viewOf]
            simp only
            rw [viewOf_tail_some, hvw]; rfl
      | none =>
        simp only
        by_cases hz : (allocOf h.allocs hd.alloc).length = 0
        · simp only [hz, beq_self_eq_true, if_true]
          have : allocOf h.allocs hd.alloc = [] := List.eq_nil_of_length_eq_zero hz
          simp only [viewOf, this]
          exact ⟨hi, trivial⟩
        · have hzb : ((allocOf h.allocs hd.alloc).length == 0) = false := by simp [hz]
          simp only [hzb, Bool.false_eq_true, if_false]
          have hex : Inv (⟨h.allocs, h.live.set k (some ⟨hd.alloc, some (1, (allocOf h.allocs hd.alloc).length)⟩)⟩ : Heap α) := by
            intro j hdj hj
            simp only at hj
            rw [List.getElem?_set] at hj
            by_cases hkj : k = j
            · simp [hkj] at hj
              have := hj.2; subst this
              refine ⟨hok.1, ?_⟩
              intro s' e' hh; simp at hh; obtain ⟨h1', h2'⟩ := hh; subst h1' h2'
              exact ⟨by omega, rfl⟩
            · simp [hkj] at hj; exact hi j hdj hj
          refine ⟨hex, ?_⟩
          cases hvw : allocOf h.allocs hd.alloc with
          | nil => simp [hvw] at hz
          | cons y l =>
            simp only [viewOf, Heap.abs, List.map_set, Option.map, Prod.mk.injEq, and_true]
            congr 2
            rw [contents_eq_viewOf]
            simp only
            rw [← hvw, viewOf_tail_none, hvw]; rfl
  | head k =>
    cases hg : h.get k with
    | none => simp [step, Spec.step, hg, get_eq_none_abs hg]; exact hi
    | some hd =>
      have hk := get_eq_some.mp hg
      have hok := hi k hd hk
      simp only [step, Spec.step, hg, get_some_abs hg]
      constructor
      · intro j hdj hj
        simp only at hj
        rw [List.getElem?_set] at hj
        by_cases hkj : k = j
        · simp [hkj] at hj
        · simp [hkj] at hj; exact hi j hdj hj
      · simp only [Heap.abs, List.map_set, Option.map, Prod.mk.injEq, true_and]
        rw [contents_eq_viewOf]
        cases hv : hd.view with
        | none => simp [viewOf, List.head?_eq_getElem?]
        | some p =>
          obtain ⟨s, e⟩ := p
          obtain ⟨hse, he⟩ := hok.2 s e hv
          simp only
          rw [viewOf_head _ _ _ hse he]

/-- the empty heap satisfies the invariant -/
theorem inv_empty : Inv (Heap.empty : Heap α) := by
  intro k hd hk; simp [Heap.empty] at hk

/-- Every operation sequence, from any state satisfying the invariant: same results, same contents of
every handle, invariant preserved — in particular no panicking branch is ever taken. -/
theorem run_refines_from (ops : List (Op α)) (h : Heap α) (hi : Inv h) :
    Inv (run h ops).1 ∧ ((run h ops).1.abs, (run h ops).2) = Spec.run h.abs ops := by
  induction ops generalizing h with
  | nil => exact ⟨hi, rfl⟩
  | cons op ops ih =>
    obtain ⟨hi1, he1⟩ := step_refines h op hi
    obtain ⟨hi2, he2⟩ := ih (step h op).1 hi1
    simp only [run, Spec.run]
    rw [← he1]
    simp only
    rw [← he2]
    exact ⟨hi2, rfl⟩

/-- C18, every reachable state: any sequence of list operations from the empty heap. -/
theorem run_refines (ops : List (Op α)) :
    Inv (run Heap.empty ops).1 ∧
      ((run Heap.empty ops).1.abs, (run Heap.empty ops).2) = Spec.run [] ops :=
  run_refines_from ops Heap.empty inv_empty

/-- no reachable operation takes a branch on which the Rust code would panic -/
theorem never_panics (ops : List (Op α)) : Res.panic ∉ (run Heap.empty ops).2 := by
  have h := (run_refines ops).2
  have h2 : (run Heap.empty ops).2 = (Spec.run ([] : Spec α) ops).2 := by rw [← h]
  rw [h2]
  have key : ∀ (ops : List (Op α)) (s : Spec α), Res.panic ∉ (Spec.run s ops).2 := by
    intro ops
    induction ops with
    | nil => intro s; simp [Spec.run]
    | cons op ops ih =>
      intro s
      simp only [Spec.run, List.mem_cons, not_or]
      refine ⟨?_, ih _⟩
      cases op <;> simp only [Spec.step] <;> (try split) <;> (try split) <;> simp
  exact key ops []

/-- non-vacuity: a reachable state with two handles sharing storage, one of them a view -/
example : (run (Heap.empty : Heap Nat) [.new, .pb 0 1, .pb 0 2, .clone 0, .tail 1]).1.abs
    = [some [1, 2], some [2]] ∧
    ((run (Heap.empty : Heap Nat) [.new, .pb 0 1, .pb 0 2, .clone 0, .tail 1]).1.strong 0 = 2) := by
  decide

/-- **Equality is equality of the sequences.**  For two handles that satisfy the representation invariant (every
live handle of every reachable heap does: `run_refines`), `==` on the shared-storage representation — lengths, then
elements pairwise — is equality of the two plain sequences the handles hold, for any element equality `beq`,
reflexive or not.  In particular the answer does not depend on whether the handles share an allocation or a view
(the pinned code answered `true` for shared storage without looking at the elements, which is wrong for `[NaN]`;
repaired by numbat 2bb906d, and compared on the real interpreter by the language-level stream). -/
theorem eq_is_sequence_equality (beq : α → α → Bool) {allocs : List (List α)} {a b : Handle}
    (ha : HandleOK allocs a) (hb : HandleOK allocs b) :
    eqHandles beq allocs a b = seqEq beq (contents allocs a) (contents allocs b) := by
  unfold eqHandles
  rw [lenOf_eq_length ha, lenOf_eq_length hb]
  by_cases hl : (contents allocs a).length = (contents allocs b).length
  · rw [zip_all_eq_seqEq beq _ _ hl]; simp [hl]
  · have : seqEq beq (contents allocs a) (contents allocs b) = false := by
      cases hs : seqEq beq (contents allocs a) (contents allocs b) with
      | false => rfl
      | true => exact absurd (seqEq_length hs) hl
    rw [this]
    simp [hl]

/-- non-vacuity: a shared one-element list whose element is not equal to itself is not equal to itself -/
example : eqHandles (fun (_ _ : Nat) => false) [[7]] ⟨0, none⟩ ⟨0, none⟩ = false := by decide

end NumbatModel.ListM
