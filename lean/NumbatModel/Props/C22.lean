import NumbatModel.Model.Cli
/-!
# C22 — the command-line tool reports success and failure faithfully

Property theorems about `Cli.cliMain` / `Cli.runLoop` of `Model/Cli.lean` (the functions the driver `drv_c22`
executes), for an arbitrary library function `eval` (= `Context::interpret_with_settings` as seen by the CLI).

* `exit_zero_iff_all_ok`  — the exit status is 0 iff the prelude and every input succeed (each evaluated in
  the session its predecessors left), and 1 otherwise.
* `stops_at_first_failure` — nothing after the first failing input is evaluated or written.
* `results_to_stdout_errors_to_stderr` — stdout is exactly the printed lines and results of the successful
  inputs, in order; stderr is exactly the diagnostic of the first failing input (if any) followed by the
  `Interpreter stopped` line; a failing input contributes nothing to stdout (its collected prints are dropped).
* `exprs_eq_file` — `-e e₁ … -e eₙ` behaves like a file containing these lines, provided the library does not
  distinguish the two source kinds; `exprs_eq_file_upto_labels` — the realistic form: the kinds differ in the
  label `<input:1>` / `File …` of diagnostics only, and then status and stdout are equal and stderr is equal
  once labels are erased.
-/
namespace NumbatModel.Cli

variable {S κ : Type}

/-- every input succeeds, each evaluated in the session left by its predecessors -/
def AllOk (eval : S → κ → Source → S × Eval) : S → List (κ × Source) → Prop
  | _, [] => True
  | s, i :: rest => (eval s i.1 i.2).2.ok = true ∧ AllOk eval (eval s i.1 i.2).1 rest

/-- the session after a list of inputs -/
def sessAfter (eval : S → κ → Source → S × Eval) : S → List (κ × Source) → S
  | s, [] => s
  | s, i :: rest => sessAfter eval (eval s i.1 i.2).1 rest

/-- the outcomes the run loop looks at: in order, up to and including the first failure -/
def seen (eval : S → κ → Source → S × Eval) : S → List (κ × Source) → List Eval
  | _, [] => []
  | s, i :: rest =>
    if (eval s i.1 i.2).2.ok then (eval s i.1 i.2).2 :: seen eval (eval s i.1 i.2).1 rest
    else [(eval s i.1 i.2).2]

/-- what a successful input writes to stdout -/
def okChunks (e : Eval) : List String := e.prints.map (· ++ "\n") ++ [e.result]

/-- the prelude as the first input -/
def allInputs (prelude : Option κ) (inputs : List (κ × Source)) : List (κ × Source) :=
  (match prelude with
    | some p => [(p, Source.internal)]
    | none => []) ++ inputs

theorem runLoop_ok_iff (eval : S → κ → Source → S × Eval) :
    ∀ (inputs : List (κ × Source)) (s : S) (io : Streams),
      (runLoop eval s inputs io).2.2 = true ↔ AllOk eval s inputs := by
  intro inputs
  induction inputs with
  | nil => intro s io; simp [runLoop, AllOk]
  | cons i rest ih =>
    intro s io
    obtain ⟨c, src⟩ := i
    simp only [runLoop, AllOk, parseAndEvaluate]
    cases hok : (eval s c src).2.ok with
    | true => simp only [if_true, true_and]; exact ih _ _
    | false => simp

/-- **Exit status.**  `numbat` exits with 0 iff loading the prelude and every input succeeded; otherwise with 1. -/
theorem exit_zero_iff_all_ok (eval : S → κ → Source → S × Eval) (s0 : S) (prelude : Option κ)
    (inputs : List (κ × Source)) :
    ((cliMain eval s0 prelude inputs).2 = 0 ↔ AllOk eval s0 (allInputs prelude inputs)) ∧
      ((cliMain eval s0 prelude inputs).2 = 0 ∨ (cliMain eval s0 prelude inputs).2 = 1) := by
  have fin : ∀ (s : S) (io : Streams),
      ((finish (runLoop eval s inputs io)).2 = 0 ↔ AllOk eval s inputs) ∧
        ((finish (runLoop eval s inputs io)).2 = 0 ∨ (finish (runLoop eval s inputs io)).2 = 1) := by
    intro s io
    have := runLoop_ok_iff eval inputs s io
    revert this
    cases runLoop eval s inputs io with
    | mk s1 r =>
      cases r with
      | mk io' b => cases b <;> simp [finish]
  cases prelude with
  | none => simpa [cliMain, allInputs] using fin s0 Streams.empty
  | some p =>
    simp only [cliMain, allInputs, List.cons_append, List.nil_append, AllOk, parseAndEvaluate]
    by_cases hok : (eval s0 p Source.internal).2.ok = true
    · simp only [hok, if_true, true_and]
      exact fin _ _
    · simp [hok]

example : (cliMain (S := Unit) (κ := Nat) (fun s c _ => (s, ⟨c != 0, [], "v\n", "err\n"⟩)) () (some 1)
    [(1, .file), (0, .text), (1, .text)]).2 = 1 := by decide

/-- **The loop stops at the first failure.**  If the inputs `pre` succeed and `bad` fails, whatever follows
`bad` is irrelevant: streams, flag and session are those of `pre ++ [bad]`. -/
theorem stops_at_first_failure (eval : S → κ → Source → S × Eval) :
    ∀ (pre : List (κ × Source)) (bad : κ × Source) (post : List (κ × Source)) (s : S) (io : Streams),
      AllOk eval s pre → (eval (sessAfter eval s pre) bad.1 bad.2).2.ok = false →
      runLoop eval s (pre ++ bad :: post) io = runLoop eval s (pre ++ [bad]) io ∧
        (runLoop eval s (pre ++ bad :: post) io).2.2 = false := by
  intro pre
  induction pre with
  | nil =>
    intro bad post s io _ hbad
    obtain ⟨c, src⟩ := bad
    simp only [sessAfter] at hbad
    simp [runLoop, parseAndEvaluate, hbad]
  | cons i rest ih =>
    intro bad post s io hpre hbad
    obtain ⟨c, src⟩ := i
    simp only [AllOk] at hpre
    simp only [sessAfter] at hbad
    simp only [List.cons_append, runLoop, parseAndEvaluate, hpre.1, if_true]
    exact ih bad post _ _ hpre.2 hbad

/-- the same for the whole program: exit status and both streams do not depend on what follows the first
failing input -/
theorem stops_at_first_failure_main (eval : S → κ → Source → S × Eval) (s0 : S)
    (pre post : List (κ × Source)) (bad : κ × Source)
    (hpre : AllOk eval s0 pre) (hbad : (eval (sessAfter eval s0 pre) bad.1 bad.2).2.ok = false) :
    cliMain eval s0 none (pre ++ bad :: post) = cliMain eval s0 none (pre ++ [bad]) ∧
      (cliMain eval s0 none (pre ++ bad :: post)).2 = 1 := by
  have h := stops_at_first_failure eval pre bad post s0 Streams.empty hpre hbad
  have h2 := stops_at_first_failure eval pre bad [] s0 Streams.empty hpre hbad
  simp only [cliMain]
  rw [h.1]
  refine ⟨rfl, ?_⟩
  revert h2
  cases runLoop eval s0 (pre ++ [bad]) Streams.empty with
  | mk s1 r =>
    cases r with
    | mk io b =>
      intro h2
      simp only at h2
      simp [finish, h2.2]

/-- **Which stream gets what.**  Standard output receives exactly the print lines and results of the inputs
that succeeded (in order) and nothing from a failing input; standard error receives exactly the diagnostic
of the failing input, of which there is at most one because the loop stops. -/
theorem results_to_stdout_errors_to_stderr (eval : S → κ → Source → S × Eval) :
    ∀ (inputs : List (κ × Source)) (s : S) (io : Streams),
      (runLoop eval s inputs io).2.1.stdout = io.stdout ++ ((seen eval s inputs).filter (·.ok)).flatMap okChunks ∧
      (runLoop eval s inputs io).2.1.stderr = io.stderr ++ ((seen eval s inputs).filter (!·.ok)).map (·.diag) ∧
      ((seen eval s inputs).filter (!·.ok)).length ≤ 1 := by
  intro inputs
  induction inputs with
  | nil => intro s io; simp [runLoop, seen]
  | cons i rest ih =>
    intro s io
    obtain ⟨c, src⟩ := i
    simp only [runLoop, seen, parseAndEvaluate]
    cases hok : (eval s c src).2.ok with
    | true =>
      simp only [if_true, List.filter_cons, hok, Bool.not_true, Bool.false_eq_true, if_false, List.flatMap_cons]
      obtain ⟨h1, h2, h3⟩ := ih (eval s c src).1
        ({ io with stdout := io.stdout ++ (eval s c src).2.prints.map (· ++ "\n") ++ [(eval s c src).2.result] })
      refine ⟨?_, h2, h3⟩
      rw [h1]
      simp [okChunks, List.append_assoc]
    | false => simp [hok]

theorem finish_streams (x : S × Streams × Bool) :
    (finish x).1.stdout = x.2.1.stdout ∧
      (finish x).1.stderr = x.2.1.stderr ++ (if (finish x).2 = 0 then [] else ["Interpreter stopped\n"]) := by
  obtain ⟨s, io, b⟩ := x
  cases b <;> simp [finish]

/-- the whole program: stdout / stderr of `numbat FILE -e …` (prelude loaded by a successful, silent `eval`) -/
theorem main_streams (eval : S → κ → Source → S × Eval) (s0 : S) (inputs : List (κ × Source)) :
    (cliMain eval s0 none inputs).1.stdout = ((seen eval s0 inputs).filter (·.ok)).flatMap okChunks ∧
      (cliMain eval s0 none inputs).1.stderr =
        ((seen eval s0 inputs).filter (!·.ok)).map (·.diag) ++
          (if (cliMain eval s0 none inputs).2 = 0 then [] else ["Interpreter stopped\n"]) := by
  obtain ⟨h1, h2, _⟩ := results_to_stdout_errors_to_stderr eval inputs s0 Streams.empty
  have f := finish_streams (runLoop eval s0 inputs Streams.empty)
  simp only [cliMain]
  rw [f.1, f.2, h1, h2]
  simp only [Streams.empty, List.nil_append, true_and]
  congr 1

/-- **`-e` ≡ file.**  If the library treats the source kinds `Text` and `File` alike (they only label
diagnostics), `numbat -e e₁ … -e eₙ` and `numbat FILE` with the file holding `e₁⏎…⏎eₙ` write the same to both
streams and exit with the same status. -/
theorem exprs_eq_file (eval : S → κ → Source → S × Eval) (joinNl : List κ → κ)
    (hsrc : ∀ s c, eval s c .text = eval s c .file) (s0 : S) (prelude : Option κ) (es : List κ) :
    cliMain eval s0 prelude (inputsOf joinNl none (some es)) =
      cliMain eval s0 prelude (inputsOf joinNl (some (joinNl es)) none) := by
  simp only [cliMain, inputsOf, List.nil_append, List.append_nil, runLoop, hsrc]

/-- two library outcomes that differ at most in how the diagnostic labels the source -/
def EvalRel (erase : String → String) (a b : Eval) : Prop :=
  a.ok = b.ok ∧ a.prints = b.prints ∧ a.result = b.result ∧ erase a.diag = erase b.diag

/-- **`-e` ≡ file, up to source labels.**  In the real library the two source kinds give diagnostics that
differ in the label (`<input:1>` vs `File …`).  If that is the only difference (`erase` removes it), the two
invocations exit alike, write the same to stdout, and the same to stderr once labels are erased. -/
theorem exprs_eq_file_upto_labels (eval : S → κ → Source → S × Eval) (joinNl : List κ → κ)
    (erase : String → String)
    (hsrc : ∀ s c, EvalRel erase (eval s c .text).2 (eval s c .file).2) (s0 : S) (prelude : Option κ) (es : List κ) :
    (cliMain eval s0 prelude (inputsOf joinNl none (some es))).2 =
        (cliMain eval s0 prelude (inputsOf joinNl (some (joinNl es)) none)).2 ∧
      (cliMain eval s0 prelude (inputsOf joinNl none (some es))).1.stdout =
        (cliMain eval s0 prelude (inputsOf joinNl (some (joinNl es)) none)).1.stdout ∧
      (cliMain eval s0 prelude (inputsOf joinNl none (some es))).1.stderr.map erase =
        (cliMain eval s0 prelude (inputsOf joinNl (some (joinNl es)) none)).1.stderr.map erase := by
  have one : ∀ (s : S) (io : Streams),
      (finish (runLoop eval s [(joinNl es, Source.text)] io)).2 = (finish (runLoop eval s [(joinNl es, Source.file)] io)).2 ∧
      (finish (runLoop eval s [(joinNl es, Source.text)] io)).1.stdout =
        (finish (runLoop eval s [(joinNl es, Source.file)] io)).1.stdout ∧
      (finish (runLoop eval s [(joinNl es, Source.text)] io)).1.stderr.map erase =
        (finish (runLoop eval s [(joinNl es, Source.file)] io)).1.stderr.map erase := by
    intro s io
    obtain ⟨hok, hp, hr, hd⟩ := hsrc s (joinNl es)
    simp only [runLoop, parseAndEvaluate, hok, hp, hr]
    cases (eval s (joinNl es) Source.file).2.ok with
    | true => simp [finish]
    | false => simp [finish, hd]
  cases prelude with
  | none => simpa [cliMain, inputsOf] using one s0 Streams.empty
  | some p =>
    simp only [cliMain, inputsOf, List.nil_append, List.append_nil, parseAndEvaluate]
    cases (eval s0 p Source.internal).2.ok with
    | true => simpa using one _ _
    | false => simp

example : inputsOf (κ := String) (fun es => "\n".intercalate es) (some "f") (some ["a", "b"]) =
    [("f", .file), ("a\nb", .text)] := by decide

end NumbatModel.Cli
