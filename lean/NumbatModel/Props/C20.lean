import NumbatModel.Lemmas.Html
/-!
# C20 — HTML rendering never emits user-controlled markup

Property theorems only (helper lemmas are in `Lemmas/Html.lean`; the model of `html_formatter.rs` and the
HTML reader `lex` used to state the theorems are in `Model/Html.lean`).

The theorems speak about *every* byte string / markup / call sequence:

* `escape_no_meta`   : the output of `html_escape::encode_text` contains no `<`, no `>`, and every `&` in it
  is the head of `&amp;`, `&lt;` or `&gt;`; `escape_roundtrip`: reading it back gives the input.
* `format_tags`      : for every list of markup parts and both indentation modes, the output of
  `HtmlFormatter.format` is read by `lex` completely (so it contains no tag but the renderer's own and no
  stray `&`/`>`), the token sequence is exactly one `<span class="numbat-…">`…`</span>` pair around the
  bytes of each non-empty classed part (hence balanced, never nested), the classes are the renderer's, and
  the decoded text content is exactly the plain-text rendering of the same markup.
* `writer_tags`      : the same for every sequence of `set_color / reset / flush / write` calls on a fresh
  `HtmlWriter`, with arbitrary byte slices written (partial writes included).
* `prefix_writer_leaks` : the writer as it was before commit c2fa8f9 violates this — concrete witness
  `<img src=x onerror=alert(1)>`.
-/
namespace NumbatModel.Html

/-! ## the escaper -/

/-- Escaped text contains neither `<` nor `>`, and an `&` occurs only as the first byte of one of the three
entities the escaper produces. -/
theorem escape_no_meta (s : Bytes) :
    LT ∉ encodeText s ∧ GT ∉ encodeText s ∧
    ∀ pre post, encodeText s = pre ++ AMP :: post →
      ([97, 109, 112, 59] <+: post ∨ [108, 116, 59] <+: post ∨ [103, 116, 59] <+: post) := by
  rw [encodeText_eq]
  have hs := entitySafe_encode s
  refine ⟨(entitySafe_no_meta hs).1, (entitySafe_no_meta hs).2, ?_⟩
  intro pre post e
  have h := entitySafe_amp hs e
  simpa [entityTailOK, List.isPrefixOf_iff_prefix, or_assoc] using h

example : encodeText [60, 98, 62, 38] = [38, 108, 116, 59, 98, 38, 103, 116, 59, 38, 97, 109, 112, 59] := by
  decide  -- `<b>&` ↦ `&lt;b&gt;&amp;`

/-- Reading escaped text back yields exactly the original bytes (nothing is lost, nothing is a tag). -/
theorem escape_roundtrip (s : Bytes) : lex (encodeText s) = some (s.map Tok.byte) := by
  have h := lexFrom_encode s []
  simp only [List.append_nil] at h
  simp [lex, encodeText_eq, h, lexFrom]

/-! ## `HtmlFormatter.format` -/

/-- the tokens one markup part must produce -/
def partToks (p : Part) : List Tok :=
  if p.s.isEmpty then []
  else match cssClass p.ft with
    | some c => [Tok.openTag c] ++ p.s.map Tok.byte ++ [Tok.closeTag]
    | none => p.s.map Tok.byte

/-- the tokens a whole markup must produce (two spaces of indentation are plain text) -/
def formatToks (parts : List Part) (indent : Bool) : List Tok :=
  (if indent then [Tok.byte 32, Tok.byte 32] else []) ++
    parts.flatMap (fun p => partToks p ++ if indent && p.s.contains NL then [Tok.byte 32, Tok.byte 32] else [])

theorem lexFrom_formatPart (p : Part) (rest : Bytes) :
    lexFrom .text (formatPart p ++ rest) =
      ((lexFrom .text rest).1, partToks p ++ (lexFrom .text rest).2) := by
  unfold formatPart htmlFormat partToks
  by_cases he : p.s.isEmpty
  · simp [he]
  · simp only [he, Bool.false_eq_true, if_false, encodeText_eq]
    cases hc : cssClass p.ft with
    | none => simp [lexFrom_encode]
    | some c =>
      have hv := cssClass_valid hc
      simp only [List.append_assoc]
      rw [lexFrom_spanOpen c _ hv.1 hv.2, lexFrom_encode, lexFrom_spanClose]
      simp

/-- The rendering of any markup reads back as exactly the renderer's own span pairs around the original
bytes of the parts. -/
theorem format_lex (parts : List Part) (indent : Bool) :
    lex (format parts indent) = some (formatToks parts indent) := by
  have hsp : ∀ rest, lexFrom .text ([32, 32] ++ rest) =
      ((lexFrom .text rest).1, [Tok.byte 32, Tok.byte 32] ++ (lexFrom .text rest).2) := by
    intro rest; simp [lexFrom]
  have hbody : ∀ (ps : List Part) (rest : Bytes),
      lexFrom .text (ps.flatMap (fun p => formatPart p ++ if indent && p.s.contains NL then [32, 32] else []) ++ rest) =
        ((lexFrom .text rest).1,
          ps.flatMap (fun p => partToks p ++ if indent && p.s.contains NL then [Tok.byte 32, Tok.byte 32] else [])
            ++ (lexFrom .text rest).2) := by
    intro ps rest
    induction ps with
    | nil => simp
    | cons p ps ih =>
      simp only [List.flatMap_cons, List.append_assoc]
      rw [lexFrom_formatPart]
      split
      · rw [hsp, ih]
      · simp only [List.nil_append]; rw [ih]
  have h := hbody parts []
  simp only [List.append_nil] at h
  rw [format_eq]
  unfold lex formatToks
  cases indent with
  | false => simp only [Bool.false_eq_true, if_false, List.nil_append, h]; simp [lexFrom]
  | true => simp only [if_true]; rw [hsp, h]; simp [lexFrom]

theorem textOf_partToks (p : Part) : textOf (partToks p) = p.s := by
  unfold partToks
  by_cases he : p.s.isEmpty
  · have : p.s = [] := by simpa using he
    simp [this, textOf]
  · simp only [he, Bool.false_eq_true, if_false]
    cases cssClass p.ft <;> simp [textOf_append, textOf_bytes, textOf]

theorem balanced_partToks (p : Part) : balancedFrom 0 (partToks p) = true := by
  unfold partToks
  by_cases he : p.s.isEmpty
  · simp [he, balancedFrom]
  · simp only [he, Bool.false_eq_true, if_false]
    cases cssClass p.ft with
    | none => have := balancedFrom_bytes 0 p.s []; simpa [balancedFrom] using this
    | some c =>
      simp only [List.cons_append, List.nil_append, balancedFrom]
      rw [balancedFrom_bytes]; rfl

theorem classes_partToks (p : Part) : ∀ c ∈ classesOf (partToks p), c ∈ rendererClasses := by
  unfold partToks
  by_cases he : p.s.isEmpty
  · simp [he, classesOf]
  · simp only [he, Bool.false_eq_true, if_false]
    cases hc : cssClass p.ft with
    | none => simp [classesOf_bytes]
    | some c =>
      simp only [List.cons_append, classesOf, classesOf_append, classesOf_bytes]
      intro k hk
      simp at hk
      subst hk
      exact cssClass_mem hc

/-- **C20 for results.** For every markup and both indentation modes, the HTML rendering consists of
nothing but the renderer's own `<span class="numbat-…">`/`</span>` tags (balanced, classes from the renderer's
table) and escaped text, and un-escaping the text content gives back exactly the plain-text rendering
(the concatenated parts plus indentation). -/
theorem format_tags (parts : List Part) (indent : Bool) :
    ∃ toks, lex (format parts indent) = some toks ∧
      textOf toks = plainFormat parts indent ∧
      balanced toks = true ∧
      ∀ c ∈ classesOf toks, c ∈ rendererClasses := by
  refine ⟨formatToks parts indent, format_lex parts indent, ?_, ?_, ?_⟩
  · unfold formatToks plainFormat
    rw [textOf_append]
    congr 1
    · cases indent <;> simp [textOf]
    · induction parts with
      | nil => rfl
      | cons p ps ih =>
        simp only [List.flatMap_cons, textOf_append, textOf_partToks, ih]
        split <;> simp [textOf]
  · unfold balanced formatToks
    have hpre : ∀ r, balancedFrom 0 ((if indent then [Tok.byte 32, Tok.byte 32] else []) ++ r) = balancedFrom 0 r := by
      intro r; cases indent <;> simp [balancedFrom]
    rw [hpre]
    induction parts with
    | nil => rfl
    | cons p ps ih =>
      simp only [List.flatMap_cons, List.append_assoc]
      rw [balancedFrom_append_balanced _ _ 0 (balanced_partToks p)]
      split
      · simpa [balancedFrom] using ih
      · simpa using ih
  · unfold formatToks
    rw [classesOf_append]
    intro c hc
    have h0 : classesOf (if indent then [Tok.byte 32, Tok.byte 32] else []) = [] := by
      cases indent <;> simp [classesOf]
    rw [h0, List.nil_append] at hc
    induction parts with
    | nil => simp [classesOf] at hc
    | cons p ps ih =>
      simp only [List.flatMap_cons, classesOf_append, List.mem_append] at hc
      rcases hc with (hc | hc) | hc
      · exact classes_partToks p c hc
      · split at hc <;> simp [classesOf] at hc
      · exact ih hc

/-- non-vacuity / shape: a string part holding `<b>` next to an unclassed text part holding `&`, indented -/
example : format [⟨.string, [60, 98, 62]⟩, ⟨.text, [38, 10]⟩] true =
    [32, 32] ++ spanOpen [115, 116, 114, 105, 110, 103] ++ [38, 108, 116, 59, 98, 38, 103, 116, 59] ++ spanClose
      ++ [38, 97, 109, 112, 59, 10] ++ [32, 32] := by decide

/-! ## `HtmlWriter` -/

/-- the tokens a call sequence must produce, given the colour in force at its start -/
def writerToks : Option ColorSpec → List Op → List Tok
  | _, [] => []
  | _, .setColor s :: r => writerToks (some s) r
  | _, .reset :: r => writerToks none r
  | c, .flush :: r => writerToks c r
  | c, .write buf :: r =>
    (match colorClass c with
      | some k => [Tok.openTag k] ++ buf.map Tok.byte ++ [Tok.closeTag]
      | none => buf.map Tok.byte) ++ writerToks c r

/-- all bytes written, in order -/
def written : List Op → Bytes
  | [] => []
  | .write buf :: r => buf ++ written r
  | _ :: r => written r

theorem lexFrom_render (c : Option ColorSpec) (ops : List Op) (rest : Bytes) :
    lexFrom .text (render c ops ++ rest) =
      ((lexFrom .text rest).1, writerToks c ops ++ (lexFrom .text rest).2) := by
  induction ops generalizing c with
  | nil => simp [render, writerToks]
  | cons op ops ih =>
    cases op with
    | setColor s => simpa [render, writerToks] using ih (some s)
    | reset => simpa [render, writerToks] using ih none
    | flush => simpa [render, writerToks] using ih c
    | write buf =>
      simp only [render, writerToks, writePiece]
      cases hk : colorClass c with
      | none => simp only [List.append_assoc]; rw [lexFrom_encode, ih]
      | some k =>
        have hv := (colorClass_valid hk).1
        simp only [List.append_assoc]
        rw [lexFrom_spanOpen k _ hv.1 hv.2, lexFrom_encode, lexFrom_spanClose, ih]
        simp

/-- The buffer after any call sequence on a fresh writer reads back as the renderer's own span pairs around
the original bytes of every `write`. -/
theorem writer_lex (ops : List Op) :
    lex (Writer.run ops Writer.new).buffer = some (writerToks none ops) := by
  have h := lexFrom_render none ops []
  simp only [List.append_nil] at h
  rw [run_buffer]
  simp [lex, Writer.new, h, lexFrom]

/-- **C20 for diagnostics.** For every sequence of `set_color`, `reset`, `flush` and `write` calls (with
arbitrary byte slices) on a fresh `HtmlWriter`, the buffer consists of nothing but the renderer's own
span tags (balanced, classes `diagnostic-red/blue/bold`) and escaped text, and un-escaping the text
content gives back exactly the bytes that were written. -/
theorem writer_tags (ops : List Op) :
    ∃ toks, lex (Writer.run ops Writer.new).buffer = some toks ∧
      textOf toks = written ops ∧
      balanced toks = true ∧
      ∀ c ∈ classesOf toks, c ∈ rendererClasses := by
  refine ⟨writerToks none ops, writer_lex ops, ?_, ?_, ?_⟩
  · generalize (none : Option ColorSpec) = c
    induction ops generalizing c with
    | nil => rfl
    | cons op ops ih =>
      cases op with
      | setColor s => simpa [writerToks, written] using ih (some s)
      | reset => simpa [writerToks, written] using ih none
      | flush => simpa [writerToks, written] using ih c
      | write buf =>
        simp only [writerToks, written, textOf_append, ih c]
        cases colorClass c <;> simp [textOf_append, textOf_bytes, textOf]
  · unfold balanced
    generalize (none : Option ColorSpec) = c
    induction ops generalizing c with
    | nil => rfl
    | cons op ops ih =>
      cases op with
      | setColor s => simpa [writerToks] using ih (some s)
      | reset => simpa [writerToks] using ih none
      | flush => simpa [writerToks] using ih c
      | write buf =>
        simp only [writerToks]
        cases colorClass c with
        | none => simp only []; rw [balancedFrom_bytes]; exact ih c
        | some k =>
          simp only [List.append_assoc, List.cons_append, List.nil_append, balancedFrom]
          rw [balancedFrom_bytes]
          simpa [balancedFrom] using ih c
  · generalize (none : Option ColorSpec) = c
    induction ops generalizing c with
    | nil => simp [writerToks, classesOf]
    | cons op ops ih =>
      cases op with
      | setColor s => simpa [writerToks] using ih (some s)
      | reset => simpa [writerToks] using ih none
      | flush => simpa [writerToks] using ih c
      | write buf =>
        simp only [writerToks, classesOf_append]
        intro k hk
        rw [List.mem_append] at hk
        rcases hk with hk | hk
        · cases hc : colorClass c with
          | none => simp [hc, classesOf_bytes] at hk
          | some k' =>
            simp [hc, classesOf_append, classesOf_bytes, classesOf] at hk
            subst hk
            exact (colorClass_valid hc).2
        · exact ih c k hk

/-- the witness input of the regression: `<img src=x onerror=alert(1)>` -/
def imgPayload : Bytes :=
  [60, 105, 109, 103, 32, 115, 114, 99, 61, 120, 32, 111, 110, 101, 114, 114, 111, 114, 61, 97, 108, 101, 114,
    116, 40, 49, 41, 62]

/-- non-vacuity: what codespan does around a source line — red label, reset, plain text -/
example : (Writer.run [.setColor ⟨some .red, true⟩, .write imgPayload, .reset, .write [38]] Writer.new).buffer =
    spanOpen clsRed ++ encodeText imgPayload ++ spanClose ++ entAmp := by decide

/-- **Regression witness.** The writer as it was before commit c2fa8f9 (payload copied verbatim) lets user text
through as markup: after writing `<img src=x onerror=alert(1)>` the buffer is that very tag, which is not one of
the renderer's (so `writer_tags` is false for `runPrefix`). -/
theorem prefix_writer_leaks :
    (Writer.runPrefix [.write imgPayload] Writer.new).buffer = imgPayload ∧
    lex (Writer.runPrefix [.write imgPayload] Writer.new).buffer = none ∧
    LT ∈ (Writer.runPrefix [.setColor ⟨some .red, false⟩, .write imgPayload] Writer.new).buffer.drop
      (spanOpen clsRed).length := by
  decide

end NumbatModel.Html
