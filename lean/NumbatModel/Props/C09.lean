import NumbatModel.Model.Core
import NumbatModel.Model.VM
/-!
# C09 — compiled programs compute what their source means

(first stage: the operand encoding round trip; the compiler-correctness theorems follow)
-/
namespace NumbatModel.VM
open NumbatModel.Core

/-- A u16 operand written by `push_u16` is read back by `read_u16`, wherever it stands in the code. -/
theorem readU16_encU16 (pre post : List UInt8) (n : Nat) (h : n < 65536) :
    readU16 (pre ++ encU16 n ++ post) pre.length = some n := by
  simp [readU16, encU16, List.getElem?_append_right]
  omega

end NumbatModel.VM
