import NumbatModel.Lemmas.VMOrder
import NumbatModel.Lemmas.VMProg5
/-!
# C09 — compiled programs compute what their source means

Property theorems (helper lemmas are in `Lemmas/VM*.lean`). All theorems are about the definitions the driver
executes: the byte-level compiler `VM.compileExpr`, the machine `VM.step`/`VM.runN` (`Model/VM.lean`) and the
reference evaluator `Core.eval` (`Model/Core.lean`); they hold for every number type `ν` and every value-level
semantics `S : Sem ν`.

* `compile_correct` — for every expression that compiles, in every compiler state that agrees with the evaluator's
  environment (`Ctx`), with the machine standing in front of the compiled bytes and a stack laid out as the
  environment says (`Layout`): if the reference evaluator gives a value, the machine reaches the end of the code with
  exactly that value pushed; if it gives a run-time error, the machine stops with the same error. Covers jump
  patching, local / global / `ans` / function-reference resolution with shadowing, operators, lists, structs,
  strings, direct calls with frames, `where` variables, recursion, calls of function values, foreign calls.
  By induction on the evaluator's fuel.
* `call_correct` — the call protocol (frame push, `where` variables as further locals, `Return` dropping the frame's
  slots).
* `conditional_bytes` — the exact bytes of a compiled conditional after both patches.
* `struct_field_order`, `list_order`, `joinstring_order` — the short order facts.
* `program_correct` — a whole input (statement list): compiled with `compileStmts` and run with `run`, the machine ends
  with the globals, `last_result`, printed lines and result value of the reference semantics `evalInput`, or stops with
  the same run-time error; the static invariant `InvS` is re-established (`inv_initial` is its base case).
-/
namespace NumbatModel.VM
open NumbatModel.Core

variable {ν : Type}

/-- **Compiler correctness for expressions.** -/
theorem compile_correct (S : Sem ν) {P : Prog ν} {T : Table ν} {G : List (List Name)} (hP : ProgOK P T G)
    (fuel : Nat) (e : Expr ν) (ρ : Env ν) (cs cs' : CS ν) (frag : List UInt8) (m : Machine ν) (f : Frame)
    (fs : List Frame)
    (hcomp : compileExpr e cs = .ok cs') (hcode : cs'.code = cs.code ++ frag)
    (hsize : cs'.code.length < 65536) (hfit : fitsE e = true)
    (hctx : Ctx T G ρ cs) (hpos : Pos P m f fs frag) (hconst : cs'.constants <+: P.constants)
    (hlay : Layout ρ f.fp m.stack) (hlast : m.last = ρ.last) :
    (∀ v, eval S T fuel ρ e = .ok v →
      ∃ n, runN S P n m = .next (m.at f fs (f.ip + frag.length) (m.stack ++ [v]))) ∧
    (∀ err, eval S T fuel ρ e = .err err → ∃ n, runN S P n m = .err err) :=
  exprOK_all hP fuel e ρ cs cs' frag m f fs hcomp hcode hsize hfit hctx hpos hconst hlay hlast

/-- The code a successful compilation appends is determined by the two states: `compile_correct` applies to it. -/
theorem compile_appends (e : Expr ν) (cs cs' : CS ν) (hcomp : compileExpr e cs = .ok cs')
    (hsize : cs'.code.length < 65536) : ∃ frag, cs'.code = cs.code ++ frag ∧ cs.constants <+: cs'.constants := by
  have g := compileExpr_good e cs cs' hcomp
  obtain ⟨frag, h⟩ := g.pre hsize
  obtain ⟨k, hk⟩ := g.consts
  exact ⟨frag, h, ⟨k, hk.symm⟩⟩

/-- **Call protocol.** With the arguments `vs` on top of the stack `s` and the frame of function `i` pushed
    (`fp` at the first argument), the machine computes what `applyClosure` (parameters bound to the arguments,
    `where` variables in order, then the body) computes, and returns to the caller's frame with the arguments
    replaced by the result. -/
theorem call_correct (S : Sem ν) {P : Prog ν} {T : Table ν} {G : List (List Name)} (hP : ProgOK P T G)
    (fuel : Nat) {i : Nat} {c : Closure ν} (hc : T.funs[i]? = some c)
    (vs : List (Value ν)) (globals : List (List Name × Value ν)) (last : Option (Value ν))
    (m : Machine ν) (f' : Frame) (fs : List Frame) (s : List (Value ν))
    (hframes : m.frames = { fn := i + 1, ip := 0, fp := s.length } :: f' :: fs)
    (hstack : m.stack = s ++ vs)
    (hglob : ∃ rest, s = globals.map Prod.snd ++ rest)
    (hgn : globals.map Prod.fst <+: G)
    (hlast : m.last = last) :
    (∀ v, applyClosure (eval S T fuel) c vs globals last = .ok v →
      ∃ n, runN S P n m = .next { m with frames := f' :: fs, stack := s ++ [v] }) ∧
    (∀ err, applyClosure (eval S T fuel) c vs globals last = .err err → ∃ n, runN S P n m = .err err) :=
  apply_ok hP (exprOK_all hP fuel) hc vs globals last m f' fs s hframes hstack hglob hgn hlast

/-- **Jump patching.** The code of `if c then t else e`, compiled from state `cs`, is the code of `c`,
    `JumpIfFalse` over the `then` code and the following `Jump` (offset `|then| + 3`), the `then` code, `Jump` over
    the `else` code (offset `|else|`), the `else` code — the two `0xffff` placeholders are gone. -/
theorem conditional_bytes (c t e : Expr ν) (cs cs' : CS ν) (hcomp : compileExpr (.cond c t e) cs = .ok cs')
    (hsize : cs'.code.length < 65536) :
    ∃ (cs1 cs3 cs6 : CS ν) (fc ft fe : List UInt8),
      compileExpr c cs = .ok cs1 ∧ cs1.code = cs.code ++ fc ∧
      compileExpr t (cs1.emit .jumpIfFalse [0xffff]) = .ok cs3 ∧
      cs3.code = cs1.code ++ encode .jumpIfFalse [0xffff] ++ ft ∧
      compileExpr e (condPatch1 cs1 cs3) = .ok cs6 ∧ cs6.code = (condPatch1 cs1 cs3).code ++ fe ∧
      cs'.code = cs.code ++ fc ++ encode .jumpIfFalse [ft.length + 3] ++ ft ++ encode .jump [fe.length] ++ fe := by
  simp only [compileExpr, Res.bind_eq_ok] at hcomp
  obtain ⟨cs1, h1, cs3, h3, cs6, h6, h7⟩ := hcomp
  injection h7 with h7; subst h7
  have hl6 : cs6.code.length < 65536 := by simpa [patchU16_length] using hsize
  obtain ⟨fc, ft, fe, hc1, hc3, _, hc6, hfin⟩ :=
    cond_shape (compileExpr_good c cs cs1 h1) (compileExpr_good t _ cs3 h3) (compileExpr_good e _ cs6 h6) hl6
  exact ⟨cs1, cs3, cs6, fc, ft, fe, h1, hc1, h3, hc3, h6, hc6, by rw [hfin, hc1]⟩

/-! ### order facts -/

/-- **Struct field order.** Whatever the order in the source, the compiler visits the fields of a struct literal
    by *descending* definition index (all of them, each once), `BuildStructInstance` then pops them so that the
    value holds them by *ascending* definition index, and `AccessStructField i` yields the `i`-th of these. -/
theorem struct_field_order (S : Sem ν) (info : StructInfo) (fields : List (Field ν)) :
    -- visiting order: a rearrangement of the fields, sorted by descending definition index
    (∀ fl, fl ∈ fieldOrder info Field.name fields ↔ fl ∈ fields) ∧
    (fieldOrder info Field.name fields).length = fields.length ∧
    (fieldOrder info Field.name fields).Pairwise
      (fun x y => (fieldIdx info y.name).getD 0 ≤ (fieldIdx info x.name).getD 0) ∧
    -- the machine: values pushed in visiting order are stored in the opposite order, and read by index
    (∀ (P : Prog ν) (m : Machine ν) (f : Frame) (fs : List Frame) (idx n : Nat) (s vs : List (Value ν))
       (info' : StructInfo),
       Pos P m f fs (encode .buildStructInstance [idx, n]) → idx < 65536 → n < 65536 →
       P.structInfos[idx]? = some info' → m.stack = s ++ vs → vs.length = n →
       step S P m = .next (m.at f fs (f.ip + 5) (s ++ [.struct info' vs.reverse]))) ∧
    (∀ (P : Prog ν) (m : Machine ν) (f : Frame) (fs : List Frame) (idx : Nat) (s vs : List (Value ν))
       (info' : StructInfo) (v : Value ν),
       Pos P m f fs (encode .accessStructField [idx]) → idx < 65536 →
       m.stack = s ++ [.struct info' vs] → vs[idx]? = some v →
       step S P m = .next (m.at f fs (f.ip + 3) (s ++ [v]))) := by
  refine ⟨fun fl => mem_fieldOrder _ _ _ _, length_fieldOrder _ _ _, ?_, ?_, ?_⟩
  · simp only [fieldOrder, List.pairwise_reverse]
    exact pairwise_sortByKey _ _
  · intro P m f fs idx n s vs info' hp hi hn hinfo hs hl
    exact step_buildStruct hp hi hn hinfo hs hl
  · intro P m f fs idx s vs info' v hp hi hs hv
    exact step_accessField hp hi hs hv

/-- **List order.** The elements of a list literal are evaluated left to right and `BuildList n` turns the `n`
    topmost stack entries into the list in the same (bottom-to-top = source) order. -/
theorem list_order (S : Sem ν) (T : Table ν) (n : Nat) (ρ : Env ν) (es : List (Expr ν)) :
    eval S T (n + 1) ρ (.list es) = (evalList (eval S T n ρ) es).bind (fun vs => .ok (.list vs)) ∧
    (∀ (P : Prog ν) (m : Machine ν) (f : Frame) (fs : List Frame) (k : Nat) (s vs : List (Value ν)),
       Pos P m f fs (encode .buildList [k]) → k < 65536 → m.stack = s ++ vs → vs.length = k →
       step S P m = .next (m.at f fs (f.ip + 3) (s ++ [.list vs]))) :=
  ⟨rfl, fun _ _ _ _ _ _ _ hp hk hs hl => step_buildList hp hk hs hl⟩

/-- **String part order.** If the parts of a string (fixed parts and interpolated values with their format
    specifiers, in source order) have the texts `texts`, then `JoinString` — which pops the parts from the top of
    the stack, i.e. last part first, and prepends each — leaves exactly `t₁ ++ t₂ ++ … ++ tₙ` on the stack, and so
    does the reference evaluator. -/
theorem joinstring_order (S : Sem ν) (pvs : List (Value ν × Option (Option String))) (texts : List String)
    (hfixed : FixedStr pvs) (htexts : pvs.map (partText S) = texts.map Res.ok) :
    joinParts S pvs = .ok (concatTexts texts) ∧
    (∀ s : List (Value ν), joinLoop S pvs.length (s ++ partsStack pvs) "" = .ok (s, concatTexts texts)) ∧
    (∀ (P : Prog ν) (m : Machine ν) (f : Frame) (fs : List Frame) (s : List (Value ν)),
       Pos P m f fs (encode .joinString [pvs.length]) → pvs.length < 65536 → m.stack = s ++ partsStack pvs →
       step S P m = .next (m.at f fs (f.ip + 3) (s ++ [.str (concatTexts texts)]))) := by
  have hj := joinParts_texts S pvs texts htexts
  have hl : ∀ s : List (Value ν), joinLoop S pvs.length (s ++ partsStack pvs) "" = .ok (s, concatTexts texts) := by
    intro s
    have := (joinLoop_parts S pvs 0 s "" hfixed).1 _ hj
    simpa [joinLoop] using this
  refine ⟨hj, hl, ?_⟩
  intro P m f fs s hp hn hs
  exact step_joinString_ok hp hn (by rw [hs]; exact hl s)

end NumbatModel.VM

namespace NumbatModel.VM
open NumbatModel.Core
variable {ν : Type}

/-- **Program correctness (one input).** Let the interpreter state `I` agree with the static top-level state of the
    reference semantics (`InvS`: same global names, function map, foreign names, struct table, and every function
    of the table compiled into its chunk), let the statements of the input compile (`compileStmts I stmts = ok I'`,
    the whole input is compiled before it runs) within the 16-bit size bounds. Then on the compiled program
    `I'.prog`, started at the end of the old main code with the globals on the stack:
    * if the reference semantics `evalInput` (all statements declared first, then executed in order, each
      expression by `eval`) finishes in state `st'`, the machine runs to the end of the main chunk and halts there
      with exactly the globals, the last result, the printed lines and the result value of `st'`;
    * if it stops with a run-time error, the machine stops with the same error.
    (`topMachine ip st` is the machine with one root frame at `ip` and `st`'s globals / last result / output /
    result.) Includes: expression statements (`Return` at depth 1 sets `last_result`), `let` (the value stays on the
    stack as the next global), function, struct, foreign-function and dimension definitions (no code at run time),
    `print` and `assert`. -/
theorem program_correct (S : Sem ν) (fuel : Nat) {I I' : Interp ν} {st : TopState ν} (stmts : List (Stmt ν))
    (hinv : InvS I st.static) (hcomp : compileStmts I stmts = .ok I')
    (hfit : ∀ x ∈ stmts, fitsStmt x) (hsize : Sizes I')
    (hlen : st.gvals.length = st.static.gnames.length) :
    let m0 := topMachine I.mainCode.length { st with out := [], result := none }
    (∀ st', evalInput S fuel st stmts = .ok st' →
      ∃ n, run S I'.prog n m0 = .done (topMachine I'.mainCode.length st') ∧
        InvS I' st'.static ∧ st'.gvals.length = st'.static.gnames.length) ∧
    (∀ err, evalInput S fuel st stmts = .err err → ∃ n out, run S I'.prog n m0 = .err err out) := by
  intro m0
  obtain ⟨hfin, _⟩ := compileStmts_inv stmts hinv hcomp hfit hsize
  have hs := stmts_ok (S := S) hfin hsize fuel stmts (I := I) (I' := I')
    (st := { st with out := [], result := none }) hinv hcomp hfit (Grow.refl _) (GrowS.refl _) hlen
  refine ⟨?_, ?_⟩
  · intro st' hv
    obtain ⟨⟨n, hn⟩, hst', hlen'⟩ := hs.1 st' hv
    exact ⟨n + 1, run_done_of_runN n hn (step_halt_top hfin st'), by rw [hst']; exact hfin, hlen'⟩
  · intro err he
    obtain ⟨n, hn⟩ := hs.2 err he
    obtain ⟨out, ho⟩ := run_err_of_runN n hn
    exact ⟨n, out, ho⟩

/-- the static top-level state of a fresh interpreter (`procs` = the three procedures in the order of
    `ffi_callables`) -/
def TopStatic.initial (procs : List Name) : TopStatic ν :=
  { gnames := [], funs := [], fnNames := [], ffi := procs, structs := [] }

/-- **Base case of the session invariant**: a fresh interpreter agrees with the empty top-level state. Together with
    `program_correct` (which returns `InvS I' st'.static` for the state after an input; the run-time fields `ip`,
    `stack`, `last` that `interpret` then updates are not part of `InvS`) the invariant holds after every input. -/
theorem inv_initial (procs : List Name) : InvS (Interp.new procs : Interp ν) (TopStatic.initial procs) where
  locals := rfl
  functions := rfl
  ffi := rfl
  structs := rfl
  names := rfl
  notMain := by intro c hc; simp [TopStatic.initial] at hc
  fns := by intro i c hc; simp [tableOf, TopStatic.initial] at hc

end NumbatModel.VM

namespace NumbatModel.VM.Example
open NumbatModel.Core NumbatModel.VM

/-! A concrete instance: `fn inc(x) = x + 1` compiled into chunk 1, and the expression `inc(2)` at top level. -/

def sem : Sem Nat :=
  { arith := fun op x y => match op with
      | .add => .ok (x + y) | .sub => .ok (x - y) | .mul => .ok (x * y)
      | .div => if y = 0 then .error .divisionByZero else .ok (x / y)
      | _ => .error .quantityError,
    neg := id, fact := fun _ x => .ok x, cmp := fun x y => some (compare x y), eq := fun x y => x == y,
    fmt := toString, ffi := fun _ _ => .panic "none", fmtSpec := fun _ _ => .error .invalidFormatSpecifiers }

def decl : FunDecl Nat :=
  { name := "inc", params := ["x"], wheres := [], body := .bin (.arith .add) (.ident "x") (.num 1) }
def closure : Closure Nat :=
  { decl := decl, static := { nglob := 0, nfuns := 1, fnNames := [], ffi := [] }, gnames := [] }
def table : Table Nat := { funs := [closure], ffiAll := [], structs := [] }
/-- compiler state at the start of the body of `inc` -/
def cs0 : CS Nat :=
  { code := [], constants := [], nCallArgs := 0, scopeCur := [["x"]], scopeGlob := [], functions := [],
    chunkNames := ["<main>", "inc"], ffiNames := [], structNames := [] }
def cs1 : CS Nat :=
  { cs0 with code := [3, 0, 0, 0, 0, 0, 8, 37], constants := [.scalar 1] }
/-- compiler state at top level after `fn inc` -/
def csMain : CS Nat :=
  { code := [], constants := [.scalar 1], nCallArgs := 0, scopeCur := [], scopeGlob := [],
    functions := [("inc", false)], chunkNames := ["<main>", "inc"], ffiNames := [], structNames := [] }
def expr : Expr Nat := .call "inc" [.num 2]
def frag : List UInt8 := [0, 1, 0, 28, 1, 0, 1, 0]
def csMain' : CS Nat := { csMain with code := frag, constants := [.scalar 1, .scalar 2] }
def prog : Prog Nat :=
  { chunks := [⟨"<main>", frag ++ [37]⟩, ⟨"inc", [3, 0, 0, 0, 0, 0, 8, 37]⟩],
    constants := [.scalar 1, .scalar 2], structInfos := [], ffiNames := [] }
def env : Env Nat :=
  { locals := [], globals := [], last := none,
    static := { nglob := 0, nfuns := 1, fnNames := [("inc", false)], ffi := [] } }
def frame : Frame := { fn := 0, ip := 0, fp := 0 }
def machine : Machine Nat := { frames := [frame], stack := [], last := none, out := [], result := none }

theorem body_compiles : compileFnBody decl cs0 = .ok cs1 := rfl
theorem expr_compiles : compileExpr expr csMain = .ok csMain' := rfl

theorem progOK : ProgOK prog table [] where
  names := rfl
  notMain := by intro c hc; simp [table] at hc; subst hc; decide
  ffi := rfl
  structs := rfl
  chunksLt := by decide
  ffiLt := by decide
  structsLt := by decide
  fns := by
    intro i c h
    cases i with
    | zero =>
      simp [table] at h; subst h
      refine ⟨rfl, rfl, ⟨[], rfl⟩, ⟨[], rfl⟩, cs0, cs1, ⟨rfl, rfl, rfl, rfl, rfl, rfl, ⟨[], rfl⟩⟩, body_compiles, rfl,
        ⟨[.scalar 2], rfl⟩, by decide, by decide, by decide, rfl, ?_⟩
      intro d hd; simp [closure, decl] at hd
    | succ j => simp [table] at h

theorem ctx : Ctx table [] env csMain where
  cur := rfl
  glob := rfl
  functions := rfl
  ffi := rfl
  ffiPre := ⟨[], rfl⟩
  chunks := rfl
  nfuns := by decide
  structs := ⟨[], rfl⟩
  curLt := by decide
  globLt := by decide
  gnames := ⟨[], rfl⟩
  nglob := by decide

theorem pos : Pos prog machine frame [] frag :=
  ⟨rfl, ⟨_, rfl, ⟨[37], rfl⟩⟩⟩

theorem layout : Layout env frame.fp machine.stack :=
  ⟨⟨[], [], rfl, rfl⟩, ⟨[], rfl⟩⟩

theorem value : eval sem table 4 env expr = .ok (.num 3) := rfl

/-- the hypotheses of `compile_correct` are satisfiable, and its conclusion is what one expects -/
example : ∃ n, runN sem prog n machine = .next (machine.at frame [] 8 [.num 3]) :=
  (compile_correct sem progOK 4 expr env csMain csMain' frag machine frame [] expr_compiles rfl (by decide) rfl
    ctx pos ⟨[], rfl⟩ layout rfl).1 (.num 3) value

/-- `call_correct`: the frame of `inc` pushed over the argument 2 returns 3 to the caller -/
example : ∃ n, runN sem prog n
      { machine with frames := [{ fn := 1, ip := 0, fp := 0 }, { frame with ip := 8 }], stack := [.num 2] }
    = .next { machine with frames := [{ frame with ip := 8 }], stack := [.num 3] } :=
  (call_correct sem progOK 3 (i := 0) (c := closure) rfl [.num 2] [] none
    { machine with frames := [{ fn := 1, ip := 0, fp := 0 }, { frame with ip := 8 }], stack := [.num 2] }
    { frame with ip := 8 } [] [] rfl rfl ⟨[], rfl⟩ ⟨[], rfl⟩ rfl).1 (.num 3) rfl

/-- `conditional_bytes`: `if true then 1 else 2` compiles to
    `LoadConstant 0; JumpIfFalse 6; LoadConstant 1; Jump 3; LoadConstant 2` -/
example : ∃ cs', compileExpr (.cond (.bool true) (.num 1) (.num 2)) cs0 = .ok cs' ∧
    cs'.code = [0, 0, 0, 26, 6, 0, 0, 1, 0, 27, 3, 0, 0, 2, 0] := ⟨_, rfl, rfl⟩

/-- `struct_field_order`: for `struct P { a, b, c }` the literal `P { c: …, a: …, b: … }` is visited as c, b, a -/
example : (fieldOrder ⟨"P", ["a", "b", "c"]⟩ Field.name
    [Field.mk "c" (.num 3), Field.mk "a" (.num 1), Field.mk "b" (.num 2)]).map Field.name = ["c", "b", "a"] := by
  decide

/-- `joinstring_order`: the parts `"a"`, `{1}`, `"b"` give `"a1b"` -/
example : joinParts sem [(.str "a", none), (.num 1, some none), (.str "b", none)] = .ok "a1b" := by
  rfl

example : FixedStr (ν := Nat) [(.str "a", none), (.num 1, some none), (.str "b", none)] := by
  intro p hp hn
  simp at hp
  rcases hp with rfl | rfl | rfl
  · exact ⟨"a", rfl⟩
  · cases hn
  · exact ⟨"b", rfl⟩

/-! `program_correct` on the input `fn inc(x) = x + 1 ⏎ let a = inc(2) ⏎ print(a) ⏎ a * 2` from a fresh interpreter -/

def procs : List Name := ["print", "assert", "assert_eq"]
def input : List (Stmt Nat) :=
  [.fn decl, .letv { names := ["a"], expr := .call "inc" [.num 2] }, .proc .print [.ident "a"],
   .expr (.bin (.arith .mul) (.ident "a") (.num 2))]
def st0 : TopState Nat :=
  { static := TopStatic.initial procs, gvals := [], last := none, out := [], result := none }
def interp1 : Interp Nat :=
  { chunks := [⟨"<main>", [0, 1, 0, 28, 1, 0, 1, 0, 3, 0, 0, 30, 0, 0, 1, 0, 0, 0, 3, 0, 0, 0, 2, 0, 10, 37]⟩,
               ⟨"inc", [3, 0, 0, 0, 0, 0, 8, 37]⟩],
    constants := [.scalar 1, .scalar 2, .scalar 2], structInfos := [], ffiNames := procs, nCallArgs := 1,
    locals0 := [["a"]], functions := [("inc", false)], ip := 0, stack := [], last := none }

theorem input_compiles : compileStmts (Interp.new procs) input = .ok interp1 := rfl

theorem input_sizes : Sizes interp1 where
  main := by decide
  locals := by decide
  chunks := by decide
  ffi := by decide
  structs := by decide
  fnCode := by
    intro ch hch
    simp [interp1] at hch
    rcases hch with rfl | rfl <;> decide

theorem input_fits : ∀ x ∈ input, fitsStmt x := by
  intro x hx
  simp [input] at hx
  rcases hx with rfl | rfl | rfl | rfl
  · exact ⟨rfl, by intro w hw; simp [decl] at hw, by decide, by decide⟩
  · exact rfl
  · exact ⟨rfl, by decide⟩
  · exact rfl

/-- the reference semantics of the input: `a = 3`, the line `3` printed, the value `6` -/
theorem input_value : ∃ st', evalInput sem 5 st0 input = .ok st' ∧ st'.gvals = [.num 3] ∧ st'.out = ["3"] ∧
    st'.result = some (.num 6) ∧ st'.last = some (.num 6) := ⟨_, rfl, rfl, rfl, rfl, rfl⟩

/-- … and the compiled program does the same -/
example : ∃ st' n, evalInput sem 5 st0 input = .ok st' ∧
    run sem interp1.prog n (topMachine 0 st0) = .done (topMachine 26 st') := by
  obtain ⟨st', h1, _⟩ := input_value
  obtain ⟨n, hn, _⟩ := (program_correct sem 5 (I := Interp.new procs) (I' := interp1) (st := st0) input
    (inv_initial procs) input_compiles input_fits input_sizes rfl).1 st' h1
  exact ⟨st', n, h1, hn⟩

end NumbatModel.VM.Example
