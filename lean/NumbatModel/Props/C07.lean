import NumbatModel.Lemmas.SessionBatch
import NumbatModel.Props.C06
/-!
# C07 — incremental, batched and replayed sessions agree

Property theorems only, about `Session.interpret` of `Model/Session.lean` (the function the drivers
`drv_c06` / `drv_c07` execute) for arbitrary stage functions that satisfy four explicit hypotheses:

* `LabelFree`     — the parser ignores the source id;
* `ParseJoin`     — parsing `a ⏎ b` gives the statements of `a` followed by those of `b`;
* `TransformSeq`, `CheckSeq` — the transformer / type checker process a statement list left to right;
* `RunPrefixDet`  — **prefix determinacy of the run stage**: running the typed statements of `a ⏎ b` with the
  transformer and type checker reached *after both* equals running those of `a` with the states reached after
  `a`, then those of `b`.  The Rust run stage receives the *final* transformer and type checker of the batch
  (`ExecutionContext`), so this is a real assumption: `inspect` violates it (known finding
  `C07-inspect-final-registry`), and `batch_neq_incremental_without_prefixDet` shows that without it the
  theorem is false.

Theorems: `batch_eq_incremental` (two inputs), `batchAll_eq_incremental` (any number), `replay_eq` (the file
written by `save` — successful inputs only, trimmed — replayed in the initial session), and the non-vacuity
instance `names_hypotheses` (the name-level stage functions executed by the driver satisfy all hypotheses).
Clone independence is trivial in the model (sessions are values) and is checked on the implementation only.
-/
namespace NumbatModel.Session

variable {μ κ σ τ θ T C V E ν ω : Type} [DecidableEq μ]

/-- parsing the joined text gives the statements of `a` followed by the statements of `b` -/
def ParseJoin (P : Stages μ κ σ τ θ T C V E ν ω) (join : κ → κ → κ) : Prop :=
  ∀ a b i pa pb, P.parse a i = .ok pa → P.parse b i = .ok pb → P.parse (join a b) i = .ok (pa ++ pb)

/-- the transformer processes statements left to right -/
def TransformSeq (P : Stages μ κ σ τ θ T C V E ν ω) : Prop :=
  ∀ t xs ys, P.transform t (xs ++ ys) = seqStage (P.transform t xs) (fun t1 => P.transform t1 ys)

/-- the type checker processes statements left to right -/
def CheckSeq (P : Stages μ κ σ τ θ T C V E ν ω) : Prop :=
  ∀ c xs ys, P.check c (xs ++ ys) = seqStage (P.check c xs) (fun c1 => P.check c1 ys)

/-- a successful run of a prefix followed by the run of the rest -/
def seqRun (x : V × List ω × Option ν) (y : V × List ω × Except E (Option ν)) : V × List ω × Except E (Option ν) :=
  match y with
  | (v2, o2, .ok r2) => (v2, x.2.1 ++ o2, .ok (combineResult x.2.2 r2))
  | (v2, o2, .error e) => (v2, x.2.1 ++ o2, .error e)

/-- **prefix determinacy of the run stage** (see the file header) -/
def RunPrefixDet (P : Stages μ κ σ τ θ T C V E ν ω) : Prop :=
  ∀ (t0 : T) (c0 : C) (a b : List σ) (t1 t2 : T) (c1 c2 : C) (a' b' : List τ) (a'' b'' : List θ),
    P.transform t0 a = (t1, .ok a') → P.check c0 a' = (c1, .ok a'') →
    P.transform t1 b = (t2, .ok b') → P.check c1 b' = (c2, .ok b'') →
    ∀ (v v1 : V) (o1 : List ω) (r1 : Option ν), P.run v t1 c1 a'' = (v1, o1, .ok r1) →
      P.run v t2 c2 (a'' ++ b'') = seqRun (v1, o1, r1) (P.run v1 t2 c2 b'')

/-- the resolver on the joined text: statements appended, same modules imported -/
theorem resolve_join (P : Stages μ κ σ τ θ T C V E ν ω) (join : κ → κ → κ) (hL : LabelFree P)
    (hJ : ParseJoin P join) (r r1 ra rb : Resolver μ) (a b : κ) (srcA srcB srcJ : Source μ) (sa sb : List σ)
    (ha : resolve P r a srcA = (ra, .ok sa)) (h1 : r1.imported = ra.imported)
    (hb : resolve P r1 b srcB = (rb, .ok sb)) :
    ∃ rj, resolve P r (join a b) srcJ = (rj, .ok (sa ++ sb)) ∧ rj.imported = rb.imported := by
  unfold resolve at ha hb ⊢
  simp only [] at ha hb ⊢
  -- the two separate parses succeeded
  cases hpa : P.parse a (r.addCodeSource srcA).2 with
  | error e => rw [hpa] at ha; simp at ha
  | ok pa =>
    cases hpb : P.parse b (r1.addCodeSource srcB).2 with
    | error e => rw [hpb] at hb; simp at hb
    | ok pb =>
      rw [hpa] at ha
      rw [hpb] at hb
      simp only [] at ha hb
      have hpa' : P.parse a (r.addCodeSource srcJ).2 = .ok pa := by rw [hL a _ (r.addCodeSource srcA).2]; exact hpa
      have hpb' : P.parse b (r.addCodeSource srcJ).2 = .ok pb := by rw [hL b _ (r1.addCodeSource srcB).2]; exact hpb
      rw [hJ a b _ pa pb hpa' hpb']
      simp only []
      rw [inline_append]
      -- first part: same statements as the separate run of `a`
      have e1 := inline_obs P hL P.depth (r.addCodeSource srcJ).1 (r.addCodeSource srcA).1 pa (by simp)
      rw [ha] at e1
      obtain ⟨ra', hra', hia⟩ := resEq_inv e1
      rw [hra']
      simp only [seqResolve]
      -- second part: same statements as the separate run of `b`
      have e2 := inline_obs P hL P.depth ra' (r1.addCodeSource srcB).1 pb (by simp [hia, h1])
      rw [hb] at e2
      obtain ⟨rb', hrb', hib⟩ := resEq_inv e2
      rw [hrb']
      exact ⟨rb', rfl, hib⟩

/-- **Batch = incremental (two inputs).**  If `a` succeeds in `s` and `b` succeeds in the resulting session,
then the single input `a ⏎ b` succeeds in `s`, prints the concatenated output, reports the last value, and
ends in a session that differs from the incremental one only in the file table and the input counters. -/
theorem batch_eq_incremental (P : Stages μ κ σ τ θ T C V E ν ω) (join : κ → κ → κ)
    (hL : LabelFree P) (hJ : ParseJoin P join) (hT : TransformSeq P) (hC : CheckSeq P) (hR : RunPrefixDet P)
    (s s1 s2 : Session μ T C V) (a b : κ) (srcA srcB srcJ : Source μ) (r1 r2 : Option ν) (o1 o2 : List ω)
    (h1 : interpret P s a srcA = (s1, ⟨.ok r1, o1⟩)) (h2 : interpret P s1 b srcB = (s2, ⟨.ok r2, o2⟩)) :
    ∃ s', interpret P s (join a b) srcJ = (s', ⟨.ok (combineResult r1 r2), o1 ++ o2⟩) ∧ ObsEq s' s2 := by
  obtain ⟨ra, sa, t1, sa', c1, sa'', v1, ha1, ha2, ha3, ha4, hs1⟩ := interpretG_ok_inv true P s s1 a srcA r1 o1 h1
  subst hs1
  obtain ⟨rb, sb, t2, sb', c2, sb'', v2, hb1, hb2, hb3, hb4, hs2⟩ := interpretG_ok_inv true P _ s2 b srcB r2 o2 h2
  subst hs2
  simp only at hb1 hb2 hb3 hb4
  obtain ⟨rj, hj, hji⟩ := resolve_join P join hL hJ s.resolver ra ra rb a b srcA srcB srcJ sa sb ha1 rfl hb1
  have htr : P.transform s.transformer (sa ++ sb) = (t2, .ok (sa' ++ sb')) := by
    rw [hT, ha2]; simp only [seqStage, hb2]
  have hch : P.check s.checker (sa' ++ sb') = (c2, .ok (sa'' ++ sb'')) := by
    rw [hC, ha3]; simp only [seqStage, hb3]
  have hrun : P.run s.interp t2 c2 (sa'' ++ sb'') = (v2, o1 ++ o2, .ok (combineResult r1 r2)) := by
    rw [hR s.transformer s.checker sa sb t1 t2 c1 c2 sa' sb' sa'' sb'' ha2 ha3 hb2 hb3 s.interp v1 o1 r1 ha4, hb4]
    rfl
  refine ⟨⟨rj, t2, c2, v2⟩, interpretG_ok_intro true P s (join a b) srcJ hj htr hch hrun, hji, rfl, rfl, rfl⟩


/-! ### any number of inputs -/

/-- the inputs joined into one text (non-empty list: head and tail) -/
def joinAll (join : κ → κ → κ) : κ → List κ → κ
  | c, [] => c
  | c, d :: rest => join c (joinAll join d rest)

/-- **Batch = incremental (any number of inputs).**  If every input of a non-empty history succeeds when
submitted one at a time, the single joined input succeeds, prints the concatenation of all outputs, reports
the last value any of them produced, and ends in the same session up to the file table and the counters. -/
theorem batchAll_eq_incremental (P : Stages μ κ σ τ θ T C V E ν ω) (join : κ → κ → κ)
    (hL : LabelFree P) (hJ : ParseJoin P join) (hT : TransformSeq P) (hC : CheckSeq P) (hR : RunPrefixDet P)
    (srcJ : Source μ) :
    ∀ (rest : List (κ × Source μ)) (c : κ × Source μ) (s : Session μ T C V), AllOk P s (c :: rest) →
      ∃ s', interpret P s (joinAll join c.1 (rest.map (·.1))) srcJ =
          (s', ⟨.ok (lastValue (runHist P s (c :: rest)).2), (runHist P s (c :: rest)).2.flatMap (·.output)⟩) ∧
        ObsEq s' (runHist P s (c :: rest)).1 := by
  intro rest
  induction rest with
  | nil =>
    intro c s hok
    obtain ⟨r, hr⟩ := isOk_inv hok.1
    have hobs := interpretG_obs' true P hL s s c.1 srcJ c.2 (ObsEq.refl s)
    refine ⟨(interpret P s c.1 srcJ).1, ?_, ?_⟩
    · unfold runHist interpret at *
      simp only [runHistG, joinAll, List.map_nil, lastValue, List.flatMap_cons, List.flatMap_nil,
        List.append_nil]
      rw [Prod.ext_iff]
      refine ⟨rfl, ?_⟩
      simp only []
      rw [hobs.2, hr]
      simp [resultOf, combineResult]
    · unfold runHist interpret at *
      simp only [runHistG]
      exact hobs.1
  | cons d rest' ih =>
    intro c s hok
    obtain ⟨r, hr⟩ := isOk_inv hok.1
    obtain ⟨s'', hs'', hobs''⟩ := ih d (interpret P s c.1 c.2).1 hok.2
    have h1 : interpret P s c.1 c.2 = ((interpret P s c.1 c.2).1, ⟨.ok r, (interpret P s c.1 c.2).2.output⟩) := by
      rw [Prod.ext_iff]; exact ⟨rfl, hr⟩
    obtain ⟨s', hs', hobs'⟩ := batch_eq_incremental P join hL hJ hT hC hR s _ s'' c.1
      (joinAll join d.1 (rest'.map (·.1))) c.2 srcJ srcJ r _ _ _ h1 hs''
    refine ⟨s', ?_, hobs'.trans ?_⟩
    · simp only [List.map_cons, joinAll]
      rw [hs']
      unfold runHist interpret at *
      simp only [runHistG, lastValue, List.flatMap_cons]
      rw [hr]
      simp [resultOf]
    · unfold runHist interpret at *
      simp only [runHistG] at hobs'' ⊢
      exact hobs''

/-! ### replaying the saved history -/

/-- what the REPL pushes to `SessionHistory`: every input text with whether it succeeded -/
def recorded (P : Stages μ κ σ τ θ T C V E ν ω) : Session μ T C V → List (κ × Source μ) → List (κ × Bool)
  | _, [] => []
  | s, i :: rest => (i.1, (interpret P s i.1 i.2).2.isOk) :: recorded P (interpret P s i.1 i.2).1 rest

/-- the file that `save` writes contains exactly the successful inputs, trimmed, in order -/
theorem saved_eq_okInputs (P : Stages μ κ σ τ θ T C V E ν ω) (trim : κ → κ) :
    ∀ (h : List (κ × Source μ)) (s : Session μ T C V),
      savedHistory trim (recorded P s h) = (okInputs P s h).map (fun i => trim i.1) := by
  intro h
  induction h with
  | nil => intro s; rfl
  | cons i rest ih =>
    intro s
    simp only [recorded, okInputs, savedHistory, List.filter_cons]
    cases hok : (interpret P s i.1 i.2).2.isOk with
    | true => simp only [if_true, List.map_cons]; rw [← ih]; rfl
    | false =>
      simp only [Bool.false_eq_true, if_false]; rw [← ih]; rfl

/-- **Deleting all failing inputs.**  The history restricted to its successful inputs runs without failure,
produces exactly the outcomes of the successful inputs and ends in the same session (`≈`). -/
theorem okInputs_run (P : Stages μ κ σ τ θ T C V E ν ω) (hL : LabelFree P) :
    ∀ (h : List (κ × Source μ)) (s : Session μ T C V),
      ObsEq (runHist P s h).1 (runHist P s (okInputs P s h)).1 ∧ AllOk P s (okInputs P s h) ∧
        (runHist P s (okInputs P s h)).2 = (runHist P s h).2.filter (·.isOk) := by
  intro h
  induction h with
  | nil => intro s; exact ⟨ObsEq.refl _, trivial, rfl⟩
  | cons i rest ih =>
    intro s
    obtain ⟨ih1, ih2, ih3⟩ := ih (interpret P s i.1 i.2).1
    by_cases hok : (interpret P s i.1 i.2).2.isOk = true
    · have e : okInputs P s (i :: rest) = i :: okInputs P (interpret P s i.1 i.2).1 rest := by
        simp only [okInputs, hok, if_true]
      rw [e]
      unfold runHist interpret at *
      simp only [runHistG, AllOk, List.filter_cons, hok, if_true]
      exact ⟨ih1, ⟨hok, ih2⟩, by rw [ih3]⟩
    · have e : okInputs P s (i :: rest) = okInputs P (interpret P s i.1 i.2).1 rest := by
        simp only [okInputs, hok]; simp
      obtain ⟨err, herr⟩ := isOk_false_inv hok
      have hnoop := failure_is_noop P s i.1 i.2 err herr
      have hc := runHist_congr P hL (okInputs P (interpret P s i.1 i.2).1 rest) _ _ hnoop
      have ha := allOk_congr P hL (okInputs P (interpret P s i.1 i.2).1 rest) _ _ hnoop ih2
      rw [e]
      refine ⟨?_, ha, ?_⟩
      · have : (runHist P s (i :: rest)).1 = (runHist P (interpret P s i.1 i.2).1 rest).1 := by
          unfold runHist interpret; simp only [runHistG]
        rw [this]
        exact ih1.trans hc.1
      · have : (runHist P s (i :: rest)).2 = (interpret P s i.1 i.2).2 :: (runHist P (interpret P s i.1 i.2).1 rest).2 := by
          unfold runHist interpret; simp only [runHistG]
        rw [this, List.filter_cons]
        simp only [hok]
        rw [← hc.2, ih3]
        simp


/-- **Replay.**  Let a session run any history (failing inputs included) and let `save` write its file: the
successful inputs, trimmed, in order.  If the file is not empty, evaluating it as one input in the initial
session succeeds, prints what the successful inputs printed, reports the last value they produced, and ends in
the same session up to the file table and the counters. -/
theorem replay_eq (P : Stages μ κ σ τ θ T C V E ν ω) (join : κ → κ → κ) (trim : κ → κ)
    (hL : LabelFree P) (hJ : ParseJoin P join) (hT : TransformSeq P) (hC : CheckSeq P) (hR : RunPrefixDet P)
    (hTrim : ∀ c i, P.parse (trim c) i = P.parse c i)
    (s : Session μ T C V) (inputs : List (κ × Source μ)) (c : κ) (rest : List κ)
    (hsaved : savedHistory trim (recorded P s inputs) = c :: rest) :
    ∃ s', interpret P s (joinAll join c rest) .file =
        (s', ⟨.ok (lastValue ((runHist P s inputs).2.filter (·.isOk))),
          ((runHist P s inputs).2.filter (·.isOk)).flatMap (·.output)⟩) ∧
      ObsEq s' (runHist P s inputs).1 := by
  rw [saved_eq_okInputs] at hsaved
  obtain ⟨h1, h2, h3⟩ := okInputs_run P hL inputs s
  cases hL' : okInputs P s inputs with
  | nil => rw [hL'] at hsaved; simp at hsaved
  | cons i0 L' =>
    rw [hL'] at hsaved h1 h2 h3
    simp only [List.map_cons, List.cons.injEq] at hsaved
    obtain ⟨hc, hrest⟩ := hsaved
    obtain ⟨ht1, ht2⟩ := runHist_trim P trim hTrim (i0 :: L') s
    obtain ⟨s', hs', hobs'⟩ := batchAll_eq_incremental P join hL hJ hT hC hR .file
      (L'.map (fun i => (trim i.1, i.2))) (trim i0.1, i0.2) s (by simpa using ht2 h2)
    have hmap : (List.map (fun i => (trim i.1, i.2)) L').map (·.1) = rest := by
      rw [← hrest, List.map_map]; rfl
    have hrun : runHist P s ((trim i0.1, i0.2) :: L'.map (fun i => (trim i.1, i.2))) = runHist P s (i0 :: L') := by
      simpa using ht1
    rw [hmap, hrun, h3] at hs'
    rw [hrun] at hobs'
    simp only at hs'
    rw [hc] at hs'
    exact ⟨s', hs', hobs'.trans h1.symm⟩


/-! ### non-vacuity of the hypotheses, and why prefix determinacy is needed -/

/-- **Non-vacuity.**  The name-level stage functions that the drivers execute satisfy every hypothesis of
`batch_eq_incremental` / `replay_eq` (with `Names.joinCode` as `⏎` and the identity as `trim`). -/
theorem names_hypotheses {ν' : Type} (table : List (μ × Names.Code μ ν')) (d : Nat) :
    LabelFree (Names.stages table d) ∧ ParseJoin (Names.stages table d) Names.joinCode ∧
      TransformSeq (Names.stages table d) ∧ CheckSeq (Names.stages table d) ∧ RunPrefixDet (Names.stages table d) := by
  refine ⟨fun _ _ _ => rfl, ?_, ?_, ?_, ?_⟩
  · intro a b i pa pb ha hb
    simp only [Names.stages, Names.joinCode] at ha hb ⊢
    cases hpa : a.parseFails <;> cases hpb : b.parseFails <;> simp [hpa, hpb] at ha hb ⊢
    rw [← ha, ← hb]
  · intro t xs ys; exact Names.stage_append _ _ xs ys t
  · intro c xs ys; exact Names.stage_append _ _ xs ys c
  · intro t0 c0 a b t1 t2 c1 c2 a' b' a'' b'' _ _ _ _ v v1 o1 r1 hrun
    simp only [Names.stages] at hrun ⊢
    revert hrun
    cases hst : Names.stage .run Names.Kind.inInterp v a'' with
    | mk va ra =>
      cases ra with
      | error e => intro h; simp at h
      | ok out =>
        intro h
        simp only [Prod.mk.injEq, Except.ok.injEq] at h
        obtain ⟨hv, ho, hr⟩ := h
        subst hv ho hr
        rw [Names.stage_append, hst, Names.prints_append a'' b'' v va out hst]
        simp only [seqStage]
        cases Names.stage .run Names.Kind.inInterp va b'' with
        | mk vb rb => cases rb <;> simp [seqRun, combineResult]

/-- a concrete instance of `batch_eq_incremental`: `let v⏎print` then `use m⏎print`, joined and read as a file -/
example :
    let P := Names.stages (ν := Nat) [((7 : Nat), ⟨false, [.defn [(.fn, 1)]]⟩)] 4
    let s : Names.NSession Nat Nat := Names.NSession.init []
    let a : Names.Code Nat Nat := ⟨false, [.defn [(.var, 2)], .plain]⟩
    let b : Names.Code Nat Nat := ⟨false, [.use 7, .plain]⟩
    ∃ s', interpret P s (Names.joinCode a b) .file = (s', ⟨.ok none, [(), ()]⟩) ∧
      ObsEq s' (runHist P s [(a, .text), (b, .text)]).1 := by
  intro P s a b
  obtain ⟨h1, h2, h3, h4, h5⟩ := names_hypotheses (ν' := Nat) [((7 : Nat), ⟨false, [.defn [(.fn, 1)]]⟩)] 4
  exact batch_eq_incremental P Names.joinCode h1 h2 h3 h4 h5 s _ _ a b .text .text .file none none [()] [()] rfl rfl

/-- **Why `RunPrefixDet` is a hypothesis.**  A run stage that prints, for every statement, something computed
from the type checker state it is given (like `inspect`, which prints the readable type using the registry of
the *whole* batch) satisfies all other hypotheses, both inputs succeed one at a time, and yet the joined input
prints something else. -/
theorem batch_neq_incremental_without_prefixDet :
    ∃ (P : Stages Nat (List Nat) Nat Nat Nat Unit Nat Unit Unit Unit Nat) (join : List Nat → List Nat → List Nat),
      LabelFree P ∧ ParseJoin P join ∧ TransformSeq P ∧ CheckSeq P ∧
      ∃ (s s1 s2 : Session Nat Unit Nat Unit) (a b : List Nat) (o1 o2 : List Nat),
        interpret P s a .text = (s1, ⟨.ok none, o1⟩) ∧ interpret P s1 b .text = (s2, ⟨.ok none, o2⟩) ∧
        (interpret P s (join a b) .text).2.output ≠ o1 ++ o2 := by
  let P : Stages Nat (List Nat) Nat Nat Nat Unit Nat Unit Unit Unit Nat :=
    { parse := fun code _ => .ok (code.map .other)
      importer := fun _ => none
      transform := fun t xs => (t, .ok xs)
      -- the checker counts the statements it has seen ("dimension aliases defined so far")
      check := fun c xs => (c + xs.length, .ok xs)
      -- every statement prints the counter of the checker state the run stage was given
      run := fun v _ c xs => (v, xs.map (fun _ => c), .ok none)
      depth := 1 }
  refine ⟨P, (· ++ ·), fun _ _ _ => rfl, ?_, ?_, ?_, ⟨⟨[], [], 0, 0⟩, (), 0, ()⟩, ?_⟩
  · intro a b i pa pb ha hb
    simp only [P, Except.ok.injEq] at ha hb ⊢
    rw [← ha, ← hb, List.map_append]
  · intro t xs ys; simp [P, seqStage]
  · intro c xs ys; simp [P, seqStage, Nat.add_assoc]
  · exact ⟨_, _, [7], [8], [1], [2], rfl, rfl, by decide⟩

end NumbatModel.Session
