import NumbatModel.Lemmas.Types
import NumbatModel.Lemmas.TypesCanon
/-!
# C02 — static checking accepts exactly the dimensionally consistent programs

Property theorems about the model of numbat's constraint solver (`Model/Types.lean`: `canon`, `dApply`,
`Ty.apply`, `Constraint.trySatisfy`, `solve` — the definitions the driver `drv_c02` executes against the real
`ConstraintSet::solve`).  Helper lemmas are in `Lemmas/Types.lean`.

Semantics.  A valuation `θ : TV → Vec` assigns an exponent vector over base dimensions to every type
variable; a type parameter `D` is read through the variable `named "D"`, which is exactly how
`ApplySubstitution` looks type parameters up.  `Holds θ c` says that `θ` makes the two sides of an `Equal`
constraint the same dimension / makes the `EqualScalar` product dimensionless.  `Ext θ σ` says that `θ` solves
every binding `v := t` of the substitution `σ`, i.e. `θ` factors through `σ`.

All theorems are for the *dimension fragment* (`Constraint.dimOnly`): equalities between type variables and
`Dimension` types, `IsDType` constraints, `EqualScalar`.  This is the fragment in which "two quantities of
different physical dimension are required to be equal" lives; constraints that mention `Bool`, `String`,
`Fn`, `List` are executed by the model and compared with the implementation but are not covered by these
theorems (and struct types / `HasField` are not modelled).
-/
namespace NumbatModel.Types

/-- **Each successful `try_satisfy` step preserves the set of solutions** (all arms of `try_satisfy` in the
dimension fragment: trivially equal sides, `TVar := t`, single-variable `Dimension` types, `Equal(TVar,
Dimension)` rewritten to `Equal(Dimension, Dimension)`, `Equal(Dimension, Dimension)` rewritten to
`EqualScalar(d1/d2)`, `IsDType(Dimension)` split into its variables, and the Gaussian-elimination step
`tv^k · rest = 1  ⇒  tv := rest^(-1/k)`): a valuation satisfies the constraint iff it satisfies the new
constraints and factors through the new substitution.  The step stays inside the fragment. -/
theorem step_preserves_solutions (θ : Val) {c : Constraint} (hc : c.dimOnly = true) {s : Subst}
    {new : List Constraint} (h : c.trySatisfy = .some s new) :
    (Holds θ c ↔ (HoldsAll θ new ∧ Ext θ s)) ∧ s.dimOnly = true ∧ (∀ c' ∈ new, c'.dimOnly = true) :=
  let ⟨h1, h2, h3⟩ := trySatisfy_ok θ hc h
  ⟨h3, h1, h2⟩

/-- non-vacuity: the Gaussian step fires on `T0² · Length⁻¹ = 1` and binds `T0` -/
example : ∃ s new, (Constraint.equalScalar [(.tvar (.quant 0), 2), (.base "Length", -1)]).trySatisfy = .some s new
    ∧ s.length = 1 := by
  refine ⟨[(.quant 0, .dim (canon ([(DFactor.base "Length", (-1 : Rat))].map (fun p => (p.1, -p.2 / 2)))))], [], ?_, rfl⟩
  simp [Constraint.trySatisfy, gaussStep]

/-- **Applying a substitution that a valuation factors through does not change what the valuation sees**
(`ApplySubstitution for Type` / `for DType`, including the divide-then-multiply loop over the original
factors and every re-canonicalisation): it never reports `SubstitutedNonDTypeWithinDType` inside the
fragment, and the resulting type denotes the same dimension. -/
theorem apply_preserves_denotation (θ : Val) {s : Subst} (he : Ext θ s) (hs : s.dimOnly = true) {t : Ty}
    (ht : t.isTD = true) : ∃ t', t.apply s = .ok t' ∧ tyVal θ t' = tyVal θ t :=
  let ⟨t', h1, _, h3⟩ := Ty.apply_ok θ he hs ht
  ⟨t', h1, h3⟩

/-- **Canonicalisation is invisible to the denotation**: sorting (`TVar < base dimension < TPar`), merging
adjacent equal factors and dropping zero exponents never change the exponent vector; likewise `multiply`,
`power`, `divide` are addition, scaling and subtraction of exponent vectors. -/
theorem canon_preserves_denotation (θ : Val) (fs : Factors) : dVal θ (canon fs) = dVal θ fs :=
  dVal_canon θ fs

theorem dtype_algebra_denotation (θ : Val) (a : Axis) (x y : Factors) (n : Rat) :
    dValAt θ a (dmul x y) = dValAt θ a x + dValAt θ a y ∧
    dValAt θ a (ddiv x y) = dValAt θ a x - dValAt θ a y ∧
    dValAt θ a (dpow x n) = n * dValAt θ a x :=
  ⟨dValAt_dmul θ a x y, dValAt_ddiv θ a x y, dValAt_dpow θ a x n⟩

/-- **Soundness of `solve`**: every valuation that factors through the returned substitution satisfies
every constraint of the input — for every fuel, every constraint set of the fragment, every run of the
"first satisfiable constraint, apply, repeat" loop. -/
theorem solve_sound {n : Nat} {cs : List Constraint} (hcs : ∀ c ∈ cs, c.dimOnly = true) {σ : Subst}
    {dv : List TV} (h : solve n cs = .ok σ dv) (θ : Val) (hθ : Ext θ σ) : HoldsAll θ cs :=
  (solveLoop_sound n cs [] hcs rfl σ dv h θ hθ).1

/-- **The returned substitution is principal**: every solution of the constraints factors through it. -/
theorem solve_principal {n : Nat} {cs : List Constraint} (hcs : ∀ c ∈ cs, c.dimOnly = true) {σ : Subst}
    {dv : List TV} (h : solve n cs = .ok σ dv) (θ : Val) (hθ : HoldsAll θ cs) : Ext θ σ :=
  solveLoop_principal n cs [] hcs rfl σ dv h θ hθ (ext_nil θ)

/-- soundness and principality together: the solutions of the constraints are exactly the valuations that
factor through the computed substitution -/
theorem solve_characterises_solutions {n : Nat} {cs : List Constraint} (hcs : ∀ c ∈ cs, c.dimOnly = true)
    {σ : Subst} {dv : List TV} (h : solve n cs = .ok σ dv) (θ : Val) : HoldsAll θ cs ↔ Ext θ σ :=
  ⟨solve_principal hcs h θ, solve_sound hcs h θ⟩

/-- **Completeness (no solvable system is rejected).**  Let the constraints be in the fragment and well formed
(`Constraint.wf P`: every factor list is in canonical form — which `canon`, hence every `DType` constructor,
guarantees, see `canon_isCanon` — and its type parameters are among `P`).  If *some* valuation that keeps the
type parameters `P` rigid (each its own independent axis: the function must work for every choice of them)
satisfies all constraints, then `solve` does not fail: it never reports `couldNotSolve`, never a substitution
error, never takes a panicking branch.  Named `_partial` because termination of the loop is not proved: the
statement is "for every fuel the result is `ok` or `outOfFuel`" (the driver runs with fuel 100000 and has
never run out). -/
theorem solve_complete_partial (P : String → Prop) {cs : List Constraint}
    (hcs : ∀ c ∈ cs, c.dimOnly = true) (hwf : ∀ c ∈ cs, c.wf P)
    (θ : Val) (hr : Rigid θ P) (hθ : HoldsAll θ cs) (n : Nat) :
    (∃ σ dv, solve n cs = .ok σ dv) ∨ solve n cs = .outOfFuel :=
  solveLoop_complete P n cs [] hcs hwf rfl θ hr hθ (ext_nil θ)

/-- non-vacuity of `solve_complete_partial`: `T = Length` is in the fragment, well formed, and satisfied by the
valuation that maps every variable to `Length` (no type parameters, so rigidity is vacuous) -/
example : let cs := [Constraint.equal (.tvar (.quant 0)) (.dim [(.base "Length", 1)])]
    (∀ c ∈ cs, c.dimOnly = true) ∧ (∀ c ∈ cs, c.wf (fun _ => False)) ∧
    ∃ θ : Val, Rigid θ (fun _ => False) ∧ HoldsAll θ cs := by
  refine ⟨by simp [Constraint.dimOnly, Ty.isTD], ?_, fun _ => unitVec (.base "Length"), ?_, ?_⟩
  · intro c hc
    simp at hc; subst hc
    refine ⟨trivial, ⟨by simp [StrictSorted], by simp⟩, ?_⟩
    intro p hp n hn; simp at hp; subst hp; simp at hn
  · intro n hn; exact absurd hn id
  · intro c hc
    simp at hc; subst hc
    simp only [Holds, tyVal]
    funext a
    simp only [dVal, dValAt, factorVal]
    grind

/-- the canonical form used by `solve_complete_partial` is what `DType::canonicalize` produces: strictly
increasing factors (type variables first, no duplicates) and no zero exponent -/
theorem canonicalize_is_canonical (fs : Factors) : Canon (canon fs) := canon_isCanon fs

/-- a constraint `try_satisfy` gives up on (other than `IsDType` of a variable) has no solution that keeps
the type parameters rigid: the only such constraints in the fragment are `EqualScalar d` with `d` non-empty
and free of type variables -/
theorem stuck_constraint_unsatisfiable (P : String → Prop) (θ : Val) (hr : Rigid θ P) {c : Constraint}
    (hc : c.dimOnly = true) (hwf : c.wf P) (hs : c.trySatisfy = .none) (hv : c.dtypeVar = none) :
    ¬ Holds θ c := by
  obtain ⟨f, e, rest, hceq, hft⟩ := stuck_shape hc hs hv
  subst hceq
  exact stuck_unsat θ P hr (hwf : DWf P _).1 (hwf : DWf P _).2 hft

/-- non-vacuity of `stuck_constraint_unsatisfiable`: `Length · D⁻¹ = 1` (D a type parameter) is stuck -/
example : (Constraint.equalScalar [(.base "Length", 1), (.tpar "D", -1)]).trySatisfy = .none := by
  simp [Constraint.trySatisfy]

/-- non-vacuity of the hypotheses of `solve_sound`/`solve_principal`: a two-constraint system of the fragment
on which the loop runs two substitution steps and succeeds -/
example : ∃ σ dv, solve 5 [.equal (.tvar (.quant 0)) (.dim [(.base "Length", 1)]),
                           .equal (.tvar (.quant 1)) (.tvar (.quant 0))] = .ok σ dv ∧ σ.length = 2 := by
  refine ⟨[(.quant 0, .dim [(.base "Length", 1)]), (.quant 1, .dim [(.base "Length", 1)])], [], ?_, rfl⟩
  rfl

/-- **No `Dim` obligation is dropped as trivial.**  `ConstraintSet::add` discards a constraint that
`try_trivial_resolution` declares satisfied.  For `T: Dim` constraints this happens exactly for dimension types
that mention neither a type variable nor a type *parameter*: as soon as a parameter occurs (`fn f<T>(x: T) = -x`
asks for `T: Dim`), the constraint reaches the solver, which records the parameter as a dimension variable, and
`check_statement` can then demand its `Dim` bound.  (Before numbat's repair 64bad51 the closed type `T` was
declared trivially satisfied; the `solve` correspondence stream with closed `isd` systems ties this definition
to the code.) -/
theorem isDType_trivially_satisfied_iff (t : Ty) :
    (Constraint.isDType t).trivial = .satisfied ↔ ∃ d, t = .dim d ∧ dTypeVars true d = [] := by
  constructor
  · intro h
    cases t with
    | dim d =>
      refine ⟨d, rfl, ?_⟩
      simp only [Constraint.trivial] at h
      split at h
      · rename_i he; simpa using he
      · cases h
    | _ =>
      simp only [Constraint.trivial] at h
      split at h <;> cases h
  · rintro ⟨d, rfl, hd⟩
    simp [Constraint.trivial, hd]

/-- a type parameter keeps its obligation: `T: Dim` for the closed type `T²/Length` is not trivial -/
example : (Constraint.isDType (.dim [(.tpar "T", 2), (.base "Length", -1)])).trivial = .unknown := by
  decide

/-- … while `Length: Dim` is -/
example : (Constraint.isDType (.dim [(.base "Length", 1)])).trivial = .satisfied := by
  decide

end NumbatModel.Types
