import NumbatModel.Lemmas.Qty
set_option linter.unusedSectionVars false
/-!
# C21 — assertions decide exactly their documented predicate

Models of `assert`, `assert_eq/2`, `assert_eq/3` from `ffi/procedures.rs`.  That a failing assertion aborts
its input (no later statement runs, the session is restored) is a statement about the VM and the session
and is checked on the implementation by the harness (marker statements) and proved for the session model
in C06.
-/
namespace NumbatModel.Qty
open NumOps LawfulNum

theorem unitEq_refl {β : Type} [NumOps β] (tbl : Table β) (u : Unit) : unitEq tbl u u = true := by
  unfold unitEq; simp

/-- `assert(c)` succeeds iff `c` is true -/
theorem assert_iff (c : Bool) : assertBool c = .ok ↔ c = true := by
  unfold assertBool; cases c <;> simp

/-- `assert_eq(a, b)` succeeds iff `a`, converted to `b`'s unit, has `b`'s magnitude (any `NumOps`
instance, in particular Float) -/
theorem assert_eq2_iff {β : Type} [NumOps β] (tbl : Table β) (a b : Quantity β) :
    assertEq2 tbl a b = .ok ↔ ∃ c, convertTo tbl a b.unit = .ok c ∧ beq c.value b.value = true := by
  unfold assertEq2
  cases hc : convertTo tbl a b.unit with
  | error e => simp
  | ok c =>
    have hu : c.unit = b.unit := by
      unfold convertTo at hc
      split at hc
      · cases hc; rfl
      · simp only at hc
        split at hc
        · cases hc; rfl
        · cases hc
    have hq : qeq tbl c b = beq c.value b.value := by
      unfold qeq convertTo
      rw [hu, unitEq_refl]
      simp
    simp only [hq]
    constructor
    · intro h
      refine ⟨c, rfl, ?_⟩
      cases hb : beq c.value b.value
      · rw [hb] at h; simp at h
      · rfl
    · rintro ⟨c', hc', hb⟩
      cases hc'
      simp [hb]

variable {α : Type} [NumOps α] [Lean.Grind.Field α] [L : LawfulNum α]

/-- in exact arithmetic, for operands of the same dimension: `assert_eq(a, b)` succeeds iff `a` and `b`
are the same physical quantity -/
theorem assert_eq2_phys (tbl : Table α) (hp : PosTbl tbl) (a b c : Quantity α)
    (hc : convertTo tbl a b.unit = .ok c) : assertEq2 tbl a b = .ok ↔ phys tbl a = phys tbl b := by
  rw [assert_eq2_iff]
  have e := convert_phys' tbl hp a c b.unit hc
  have hb := pos_ne_zero _ (pos_prodW tbl hp b.unit)
  constructor
  · rintro ⟨c', hc', hv⟩
    rw [hc] at hc'; cases hc'
    rw [beq_iff] at hv
    unfold phys at *; rw [← e, hv]
  · intro h
    refine ⟨c, hc, ?_⟩
    rw [beq_iff]
    unfold phys at *
    grind

theorem qsub_same_unit (tbl : Table α) (x y d : Quantity α) (hu : x.unit = y.unit)
    (h : qsub tbl x y = .ok d) : d.value = x.value - y.value ∧ d.unit = y.unit := by
  unfold qsub at h
  split at h
  · rename_i hz; cases h
    have := (isZero_iff x).mp hz
    simp only [Quantity.neg, neg_eq]
    exact ⟨by grind, trivial⟩
  · split at h
    · rename_i hz; cases h
      have := (isZero_iff y).mp hz
      exact ⟨by grind, hu⟩
    · rw [hu, unitEq_refl] at h
      simp only [if_true] at h
      cases h
      exact ⟨by simp only [sub_eq], rfl⟩

/-- `assert_eq(a, b, eps)` succeeds iff the absolute difference of `a` and `b` is at most `eps`, as
physical quantities (all three expressed in `eps`'s unit by the code) -/
theorem assert_eq3_core_iff (tbl : Table α) (hp : PosTbl tbl) (a b eps ac bc : Quantity α)
    (ha : convertTo tbl a eps.unit = .ok ac) (hb : convertTo tbl b eps.unit = .ok bc) :
    assertEq3Core tbl a b eps = .ok ↔ le (NumOps.abs (phys tbl a - phys tbl b)) (phys tbl eps) = true := by
  have ua := convert_unit' tbl a ac _ ha
  have ub := convert_unit' tbl b bc _ hb
  have ea := convert_phys' tbl hp a ac _ ha
  have eb := convert_phys' tbl hp b bc _ hb
  have hF := pos_prodW tbl hp eps.unit
  unfold assertEq3Core
  rw [ha, hb]
  simp only
  cases hd : qsub tbl ac bc with
  | error e =>
    exfalso
    unfold qsub at hd
    split at hd
    · cases hd
    · split at hd
      · cases hd
      · rw [ua, ub, unitEq_refl] at hd; simp at hd
  | ok d =>
    obtain ⟨hv, hu⟩ := qsub_same_unit tbl ac bc d (by rw [ua, ub]) hd
    simp only
    have hqle : qle tbl ⟨NumOps.abs d.value, d.unit, true⟩ eps = le (NumOps.abs d.value) eps.value := by
      unfold qle convertTo
      simp only [hu, ub, unitEq_refl, Bool.true_or, if_true, isNaN_false, Bool.not_false, Bool.true_and]
    rw [hqle]
    have hscale : le (NumOps.abs d.value) eps.value
        = le (NumOps.abs (phys tbl a - phys tbl b)) (phys tbl eps) := by
      rw [← le_mul_pos _ _ _ hF, ← abs_mul_pos _ _ hF]
      unfold phys at *
      rw [hv]
      congr 2
      grind
    rw [hscale]
    cases le (NumOps.abs (phys tbl a - phys tbl b)) (phys tbl eps) <;> simp

/-- a NaN tolerance never passes (any `NumOps` instance whose comparisons are false on NaN is irrelevant
here: the check is explicit in `qle`) -/
theorem assert_eq3_core_nan_eps {β : Type} [NumOps β] (tbl : Table β) (a b eps : Quantity β)
    (hn : isNaN eps.value = true) : assertEq3Core tbl a b eps ≠ .ok := by
  unfold assertEq3Core
  cases ha : convertTo tbl a eps.unit with
  | error e => simp
  | ok ac =>
    cases hb : convertTo tbl b eps.unit with
    | error e => simp
    | ok bc =>
      simp only
      cases hd : qsub tbl ac bc with
      | error e => simp
      | ok d =>
        simp only
        have hcu : ∀ (q q' : Quantity β) (U : Unit), convertTo tbl q U = .ok q' → q'.unit = U := by
          intro q q' U h
          unfold convertTo at h
          split at h
          · cases h; rfl
          · simp only at h
            split at h
            · cases h; rfl
            · cases h
        have ua := hcu a ac _ ha
        have ub := hcu b bc _ hb
        have hu : d.unit = eps.unit := by
          unfold qsub at hd
          split at hd
          · cases hd; simp [Quantity.neg, ub]
          · split at hd
            · cases hd; exact ua
            · rw [ua, ub, unitEq_refl] at hd
              simp only [if_true] at hd
              cases hd; rfl
        have : qle tbl ⟨NumOps.abs d.value, d.unit, true⟩ eps = false := by
          unfold qle convertTo
          simp [hu, unitEq_refl, hn]
        simp [this]

/-- a tolerance that has a unit, or is not zero, is used as it is -/
theorem epsNorm_id {β : Type} [NumOps β] (tbl : Table β) (a b eps : Quantity β)
    (h : (eps.isZero && eps.unit.isEmpty) = false) : epsNorm tbl a b eps = eps := by
  unfold epsNorm
  simp [h]

/-- `assert_eq(a, b, eps)` succeeds iff the absolute difference of `a` and `b` is at most `eps`, as physical
quantities — for every tolerance that has a unit or is not zero (the code expresses all three in `eps`'s unit) -/
theorem assert_eq3_iff (tbl : Table α) (hp : PosTbl tbl) (a b eps ac bc : Quantity α)
    (hu : (eps.isZero && eps.unit.isEmpty) = false)
    (ha : convertTo tbl a eps.unit = .ok ac) (hb : convertTo tbl b eps.unit = .ok bc) :
    assertEq3 tbl a b eps = .ok ↔ le (NumOps.abs (phys tbl a - phys tbl b)) (phys tbl eps) = true := by
  unfold assertEq3
  rw [epsNorm_id tbl a b eps hu]
  exact assert_eq3_core_iff tbl hp a b eps ac bc ha hb

/-- a NaN tolerance never passes -/
theorem assert_eq3_nan_eps {β : Type} [NumOps β] (tbl : Table β) (a b eps : Quantity β)
    (hn : isNaN eps.value = true) (hz : eps.isZero = false) : assertEq3 tbl a b eps ≠ .ok := by
  unfold assertEq3
  rw [epsNorm_id tbl a b eps (by simp [hz])]
  exact assert_eq3_core_nan_eps tbl a b eps hn

/-- **A zero tolerance written without a unit** (`assert_eq(1 m, 100 cm, 0)`; the literal `0` has every dimension):
the assertion is the comparison with the zero tolerance expressed in the unit of the left operand — of the right
one if the left operand is a zero.  (Before numbat's repair 0551bf6 both operands were converted to the missing
unit of the tolerance, which fails for every non-zero operand.) -/
theorem assert_eq3_unitless_zero {β : Type} [NumOps β] (tbl : Table β) (a b eps : Quantity β)
    (hz : eps.isZero = true) (hu : eps.unit = []) :
    assertEq3 tbl a b eps
      = assertEq3Core tbl a b ⟨eps.value, if a.isZero then b.unit else a.unit, true⟩ := by
  have hc : convertTo tbl eps (if a.isZero then b.unit else a.unit)
      = .ok ⟨eps.value, if a.isZero then b.unit else a.unit, true⟩ := by
    unfold convertTo
    simp [hz]
  unfold assertEq3 epsNorm
  rw [hc]
  simp [hz, hu]

/-- … and then it succeeds iff `a` and `b` are the same physical quantity (exact arithmetic; `a` not a zero, `b` of
`a`'s dimension) -/
theorem assert_eq3_unitless_zero_iff (tbl : Table α) (hp : PosTbl tbl) (a b eps bc : Quantity α)
    (hz : eps.isZero = true) (hu : eps.unit = []) (ha : a.isZero = false)
    (hb : convertTo tbl b a.unit = .ok bc) :
    assertEq3 tbl a b eps = .ok ↔ phys tbl a = phys tbl b := by
  rw [assert_eq3_unitless_zero tbl a b eps hz hu]
  simp only [ha, Bool.false_eq_true, if_false]
  have haa : convertTo tbl a a.unit = .ok ⟨a.value, a.unit, true⟩ := by
    unfold convertTo
    simp [unitEq_refl]
  have key := assert_eq3_core_iff tbl hp a b ⟨eps.value, a.unit, true⟩ ⟨a.value, a.unit, true⟩ bc haa hb
  rw [key]
  have he : eps.value = 0 := (isZero_iff eps).mp hz
  have hphys : phys tbl (⟨eps.value, a.unit, true⟩ : Quantity α) = 0 := by
    unfold phys
    simp only [he]
    grind
  rw [hphys, L.abs_le_zero_iff]
  constructor
  · intro h; grind
  · intro h; rw [h]; grind

end NumbatModel.Qty
