import NumbatModel.Model.ListM
