import NumbatModel.Props.C18
#print axioms NumbatModel.ListM.step_refines
#print axioms NumbatModel.ListM.inv_empty
#print axioms NumbatModel.ListM.run_refines_from
#print axioms NumbatModel.ListM.run_refines
#print axioms NumbatModel.ListM.never_panics
#print axioms NumbatModel.ListM.eq_is_sequence_equality
